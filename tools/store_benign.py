#!/usr/bin/env python3
"""Copies a refactorer's deliverables into /verif/benign/<id>/ (patch.diff incl. new files, README, its check test) with a meta.json.
usage: tools/store_benign.py <worktree-root> <output-root> <id>"""
import os, sys, json, shutil, subprocess
wtroot, outroot, cid = sys.argv[1:4]
src = os.path.join(outroot, cid); wt = os.path.join(wtroot, cid)
dst = "/verif/benign/%s" % cid
os.makedirs(dst + "/check", exist_ok=True)
# regenerate the patch from the worktree so that files created by the refactoring are included
subprocess.run("git add -N . ':(exclude)*zz_refactor*' 2>/dev/null; git diff -- . ':(exclude)*zz_refactor*' > %s/patch.diff" % dst, shell=True, cwd=wt)
if os.path.exists(src + "/README.md"):
    shutil.copy(src + "/README.md", dst + "/REFACTORER_README.md")
out = subprocess.run("git status --porcelain --untracked-files=all", shell=True, cwd=wt, capture_output=True, text=True).stdout
tests = [l[3:] for l in out.splitlines() if "zz_refactor" in l]
for d in tests:
    os.makedirs(os.path.dirname(dst + "/check/" + d), exist_ok=True)
    shutil.copy(wt + "/" + d, dst + "/check/" + d)
changed = sorted(set(l[6:].strip() for l in open(dst + "/patch.diff") if l.startswith("+++ b/")))
prop = cid.split("-")[0]
if cid.endswith("-b2") or cid.endswith("-b3") or (cid.endswith("-b4") and int(cid[1:3]) % 2 == 0) or (cid.endswith("-b5") and int(cid[1:3]) % 2 == 1) or (cid.endswith("-b6") and (int(cid[1:3]) - 1) % 3 != 0):
    kind = "property-preserving maintenance change (performance tweaks, logging, defensive checks, new accessors/helpers, control-flow restructuring)"
    src_txt = "independent sub-agent given only the property text and a scratch worktree (no access to /verif), asked for 6-10 realistic maintenance edits of different kinds that do not affect the property (tools/evolver_prompt.tmpl / evolver3_prompt.tmpl), with a check test that passes before and after"
else:
    kind = "behaviour-preserving refactoring"
    src_txt = "independent sub-agent given only the property text and a scratch worktree (no access to /verif), asked for 6-12 realistic behaviour-preserving edits of the code the property depends on, with a check test that passes before and after"
meta = {"property": prop, "kind": kind,
        "source": src_txt,
        "changed_files": changed, "check_tests": ["check/" + d for d in tests], "expect": "silent", "props": [prop]}
json.dump(meta, open(dst + "/meta.json", "w"), indent=1)
print(cid, changed)
