#!/usr/bin/env python3
"""Copies a seeder's deliverables (patch.diff, README.md, demo files found as untracked zz_seed* files in its worktree)
into /verif/seeded/<id>-r<round>/ and writes a meta.json skeleton.
usage: tools/store_seeded.py <round> <worktree-root> <output-root> <id> "<needs_to_manifest>" """
import os, sys, json, shutil, subprocess
rnd, wtroot, outroot, cid, needs = sys.argv[1:6]
src = os.path.join(outroot, cid); wt = os.path.join(wtroot, cid)
dst = "/verif/seeded/%s-r%s" % (cid, rnd)
os.makedirs(dst + "/demo", exist_ok=True)
shutil.copy(src + "/patch.diff", dst + "/patch.diff")
if os.path.exists(src + "/README.md"):
    shutil.copy(src + "/README.md", dst + "/SEEDER_README.md")
out = subprocess.run("git status --porcelain --untracked-files=all", shell=True, cwd=wt, capture_output=True, text=True).stdout
demos = [l[3:] for l in out.splitlines() if l.startswith("??") and "zz_seed" in l]
for d in demos:
    os.makedirs(os.path.dirname(dst + "/demo/" + d), exist_ok=True)
    shutil.copy(wt + "/" + d, dst + "/demo/" + d)
changed = [l[6:].strip() for l in open(src + "/patch.diff") if l.startswith("+++ b/")]
meta = {"property": cid, "round": int(rnd),
        "source": "independent sub-agent given only the property text and a scratch worktree (no access to /verif); told which effects earlier seeders had produced and to choose something different",
        "changed_files": changed, "needs_to_manifest": needs, "demo_files": ["demo/" + d for d in demos],
        "demo_placement": "copy each demo/<path> to the same <path> inside the repository",
        "expect": "fire",
        "verified_by_me": {"how": "tools/verify_seeded.sh: fresh worktree of /repo HEAD; demo passes without the patch; patch applies, go build ./... OK, demo FAILS with the patch; existing tests of the touched packages pass with the patch", "result": "pending"}}
json.dump(meta, open(dst + "/meta.json", "w"), indent=1)
print(cid, demos, changed)
