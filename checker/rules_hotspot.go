package main

import (
	"fmt"
	"go/token"
	"go/types"
	"os"
	"sort"
	"strings"

	"golang.org/x/tools/go/ssa"
)

// Hot-parameter rules: C05, C06.

const hsPkg = "core/hotspot"

func hotspotCheckers(P *Program) []*ssa.Function {
	var out []*ssa.Function
	tsc := P.Named(hsPkg + ".TrafficShapingController")
	if tsc != nil {
		for _, f := range P.Implementations(tsc.Underlying().(*types.Interface), "PerformChecking") {
			if relPkg(fnPkgPath(f)) == hsPkg {
				out = append(out, f)
			}
		}
	}
	if f := P.Func(hsPkg + ".(*baseTrafficShapingController).performCheckingForConcurrencyMetric"); f != nil {
		out = append(out, f)
	}
	return out
}

func init() {
	register(&Rule{
		ID: "hotspot.absent-arg-passes", Props: []string{"C05"}, Floor: 2,
		Doc: "in hotspot.Slot.Check the call that performs the parameter check is dominated by the branch on which the argument extracted for the rule is non-nil (requests without the selected argument are never limited); it returns a controller's result exactly when blocked and sleeps exactly the wait of a ShouldWait result",
		Run: func(c *Ctx) {
			f := c.P.Func(hsPkg + ".(*Slot).Check")
			cpc := c.P.Func(hsPkg + ".canPassCheck")
			if f == nil {
				c.AnchorLost("hotspot.Slot.Check")
				return
			}
			// canPassCheck is a forwarding wrapper around TrafficShapingController.PerformChecking; when it has been folded
			// into the slot the invoke itself is the parameter check
			n := 0
			for _, ci := range callsIn(f) {
				cc := ci.Common()
				isCheck := (cpc != nil && isStaticCallTo(ci, cpc)) || (cc.IsInvoke() && cc.Method.Name() == "PerformChecking")
				if !isCheck {
					continue
				}
				n++
				var argV ssa.Value
				if cc.IsInvoke() {
					argV = cc.Args[0]
				} else {
					argV = cc.Args[1]
				}
				p := accessPath(argV)
				fs := canonFacts(ci.Block())
				ok := (fs["nil != "+p] || fs[p+" != nil"]) && strings.HasSuffix(p, ".ExtractArgs({EntryContext})")
				c.Check(ok, fmt.Sprintf("%s / param-check#%d", fnKey(f), n), ci.Pos(), "parameter check on %s guarded by its non-nil test: %v", p, ok)
			}
			if n == 0 {
				c.Violate(fnKey(f)+" / param-check", f.Pos(), "hotspot slot no longer checks parameters")
			}
			blocked, _ := constValue(c.P, "core/base.ResultStatusBlocked")
			wait, _ := constValue(c.P, "core/base.ResultStatusShouldWait")
			for i, r := range returnsOf(f) {
				p := accessPath(r.Results[0])
				key := fmt.Sprintf("%s / return#%d", fnKey(f), i+1)
				if strings.Contains(p, "canPassCheck") || strings.Contains(p, "PerformChecking") {
					_, ok := anyFact(canonFacts(r.Block()), fmt.Sprintf("%d == ", blocked), ".Status()")
					c.Check(ok, key, r.Pos(), "a controller's result is returned from the loop only when its status is Blocked")
				} else {
					c.Check(p == "{EntryContext}.RuleCheckResult", key, r.Pos(), "otherwise the context's pass result is returned (got %s)", p)
				}
			}
			sleep := c.P.Func("util.Sleep")
			for _, ci := range callsIn(f) {
				if !isStaticCallTo(ci, sleep) {
					continue
				}
				fs := canonFacts(ci.Block())
				_, w := anyFact(fs, fmt.Sprintf("%d == ", wait), ".Status()")
				_, pos := anyFact(fs, "0 < ", ".NanosToWait()")
				c.Check(w && pos && strings.HasSuffix(accessPath(ci.Common().Args[0]), ".NanosToWait()"), fnKey(f)+" / sleep", ci.Pos(), "sleeps the result's NanosToWait() under ShouldWait=%v, >0=%v", w, pos)
			}
		},
	})

	register(&Rule{
		ID: "hotspot.keyed-by-arg", Props: []string{"C05", "C06"}, Floor: 9,
		Doc: "in both controllers' PerformChecking and in performCheckingForConcurrencyMetric every operation on a ConcurrentCounterCache and every lookup in specificItems is keyed by the function's own arg parameter (value identity): a constant or shared key would couple the decisions of different values",
		Run: func(c *Ctx) {
			for _, f := range hotspotCheckers(c.P) {
				var argP *ssa.Parameter
				for _, p := range f.Params {
					if types.IsInterface(p.Type()) && typeBaseName(p.Type()) == "any" && argP == nil {
						argP = p
					}
				}
				if argP == nil {
					c.Undecided(fnKey(f)+" / arg", f.Pos(), "no interface-typed argument parameter")
					continue
				}
				ord := 0
				eachInstr(f, func(ins ssa.Instruction) {
					switch x := ins.(type) {
					case ssa.CallInstruction:
						cc := x.Common()
						if !cc.IsInvoke() || !typeIs(cc.Value.Type(), hsPkg+"/cache", "ConcurrentCounterCache") || len(cc.Args) == 0 {
							return
						}
						switch cc.Method.Name() {
						case "Add", "AddIfAbsent", "Get", "Remove", "Contains":
						default:
							return
						}
						ord++
						c.Check(stripConv(cc.Args[0]) == ssa.Value(argP), fmt.Sprintf("%s / cache.%s#%d", fnKey(f), cc.Method.Name(), ord), x.Pos(), "%s.%s keyed by %s (want the checked value `%s`)", accessPath(cc.Value), cc.Method.Name(), accessPath(cc.Args[0]), argP.Name())
					case *ssa.Lookup:
						if !strings.HasSuffix(accessPath(x.X), "specificItems") {
							return
						}
						ord++
						c.Check(stripConv(x.Index) == ssa.Value(argP), fmt.Sprintf("%s / specificItems#%d", fnKey(f), ord), x.Pos(), "specific threshold looked up by %s (want `%s`)", accessPath(x.Index), argP.Name())
					}
				})
			}
		},
	})

	register(&Rule{
		ID: "hotspot.specific-overrides", Props: []string{"C05", "C06"}, Floor: 5,
		Doc: "the threshold a value is metered against is the value's entry in specificItems exactly when that lookup found one and the rule's general threshold otherwise (QPS: phi over the lookup's ok flag; concurrency: the comparison is made against the looked-up value under ok and against c.threshold under !ok)",
		Run: func(c *Ctx) {
			for _, f := range hotspotCheckers(c.P) {
				isConc := strings.HasSuffix(fnKey(f), "performCheckingForConcurrencyMetric")
				if !isConc {
					// the value tested against 0 / used as the token count: every alternative of it is the looked-up specific
					// item (where the lookup found one) or the general threshold, and both occur - however the choice is
					// written (if/else, a helper returning the value or a small struct)
					ok := false
					eachInstr(f, func(ins ssa.Instruction) {
						b, isB := ins.(*ssa.BinOp)
						if !isB || !isComparison(b.Op) || ok {
							return
						}
						z, isZ := constInt(b.Y)
						if !isZ || z != 0 {
							return
						}
						cases := splitPhiCases(stripConv(b.X), b.Block(), nil, 0)
						if os.Getenv("SG_DEBUG_HS") != "" {
							fmt.Fprintf(os.Stderr, "DEBUG %s cmp0 X=%T %v cases=%d\n", fnKey(f), stripConv(b.X), stripConv(b.X), len(cases))
							if u, ok := stripConv(b.X).(*ssa.UnOp); ok {
								fmt.Fprintf(os.Stderr, "   UnOp X=%T %v\n", u.X, u.X)
								if fa, ok := u.X.(*ssa.FieldAddr); ok {
									fmt.Fprintf(os.Stderr, "   FieldAddr X=%T %v\n", fa.X, fa.X)
									if al, ok := fa.X.(*ssa.Alloc); ok {
										for _, r := range refsOf(al) {
											fmt.Fprintf(os.Stderr, "      ref %T %v\n", r, r)
											if st, ok := r.(*ssa.Store); ok {
												fmt.Fprintf(os.Stderr, "        val %T %v\n", st.Val, st.Val)
												if ph, ok := st.Val.(*ssa.Phi); ok {
													for _, e := range ph.Edges {
														fmt.Fprintf(os.Stderr, "          edge %T %v\n", e, e)
														if u2, ok := e.(*ssa.UnOp); ok {
															fmt.Fprintf(os.Stderr, "            X %T %v\n", u2.X, u2.X)
															if a2, ok := u2.X.(*ssa.Alloc); ok {
																for _, r2 := range refsOf(a2) {
																	fmt.Fprintf(os.Stderr, "              ref %T %v\n", r2, r2)
																}
															}
														}
													}
												}
											}
										}
									}
								}
							}
						}
						if len(cases) < 2 {
							return
						}
						gen, spec, other := false, false, false
						for _, cs := range cases {
							p := accessPath(cs.val)
							fs := canonFacts(cs.block, cs.extra...)
							switch {
							case strings.HasSuffix(p, ".threshold") && !strings.Contains(p, "specificItems"):
								gen = true
							case strings.HasSuffix(p, ".specificItems[{any}]#0") && fs[strings.TrimSuffix(p, "#0")+"#1"]:
								spec = true
							default:
								other = true
							}
						}
						if gen && spec && !other {
							ok = true
						}
					})
					c.Check(ok, fnKey(f)+" / token-count", f.Pos(), "token count = specificItems[arg] when present, else the rule threshold")
					// the general threshold is used nowhere else: every read of it feeds that choice
					stray := ""
					eachInstr(f, func(ins ssa.Instruction) {
						ld, isLd := ins.(*ssa.UnOp)
						if !isLd || ld.Op != token.MUL {
							return
						}
						if p := accessPath(ld); !strings.HasSuffix(p, ".threshold") || strings.Contains(p, "specificItems") {
							return
						}
						// a field named threshold of a small local struct (the per-value choice handed back by a helper) is
						// not the rule's general threshold
						if fa, ok := ld.X.(*ssa.FieldAddr); ok {
							if _, local := fa.X.(*ssa.Alloc); local {
								return
							}
						}
						for _, r := range refsOf(ld) {
							switch x := r.(type) {
							case *ssa.Phi, *ssa.DebugRef:
							case *ssa.Store:
								// parked in a local (a result variable or the field of a result struct of an inlined helper)
								root := x.Addr
								if fa, ok := root.(*ssa.FieldAddr); ok {
									root = fa.X
								}
								if _, local := root.(*ssa.Alloc); !local || x.Val != ssa.Value(ld) {
									stray = c.P.Pos(r.Pos())
								}
							default:
								stray = c.P.Pos(r.Pos())
							}
						}
					})
					// helpers called from the checker must not read the general threshold at all
					checkers := map[*ssa.Function]bool{}
					for _, h := range hotspotCheckers(c.P) {
						checkers[h] = true
					}
					seenH := map[*ssa.Function]bool{}
					var visit func(g *ssa.Function, d int)
					visit = func(g *ssa.Function, d int) {
						for _, ci := range callsIn(g) {
							cal := ci.Common().StaticCallee()
							if cal == nil || checkers[cal] || seenH[cal] || relPkg(fnPkgPath(cal)) != "core/hotspot" || d > 2 {
								continue
							}
							seenH[cal] = true
							eachInstr(cal, func(ins ssa.Instruction) {
								if ld, ok := ins.(*ssa.UnOp); ok && ld.Op == token.MUL {
									if p := accessPath(ld); strings.HasSuffix(p, ".threshold") && !strings.Contains(p, "specificItems") {
										stray = c.P.Pos(ld.Pos()) + " (in " + fnKey(cal) + ")"
									}
								}
							})
							visit(cal, d+1)
						}
					}
					visit(f, 0)
					c.Check(stray == "", fnKey(f)+" / general-threshold-only-as-default", f.Pos(), "the rule's general threshold is read only as the default of the per-value choice (stray use: %s)", stray)
					continue
				}
				// concurrency: pass returns
				okSpec, okGen := false, false
				for _, r := range returnsOf(f) {
					if !isNilConst(r.Results[0]) {
						continue
					}
					base := canonFacts(r.Block())
					for _, ft := range condFacts(r.Block()) {
						bo, ok := ft.Cond.(*ssa.BinOp)
						if !ok || !isComparison(bo.Op) {
							continue
						}
						// in-flight+1 <= T (in any spelling): find the side that is not the gauge
						k := canonCond(bo, ft.Truth)
						if !strings.Contains(k, "LoadInt64(") || !strings.Contains(k, " <= ") {
							continue
						}
						var t ssa.Value
						if strings.Contains(accessPath(bo.X), "LoadInt64(") {
							t = bo.Y
						} else {
							t = bo.X
						}
						if !strings.HasPrefix(k, "(") && !strings.Contains(strings.SplitN(k, " <= ", 2)[0], "LoadInt64(") {
							continue // the gauge must be on the small side
						}
						for _, cs := range splitPhiCases(t, bo.Block(), nil, 0) {
							p := accessPath(cs.val)
							fs := canonFacts(cs.block, cs.extra...)
							for kk := range base {
								fs[kk] = true
							}
							if strings.HasSuffix(p, ".specificItems[{any}]#0") && fs["{baseTrafficShapingController}.specificItems[{any}]#1"] {
								okSpec = true
							}
							if strings.HasSuffix(p, "{baseTrafficShapingController}.threshold") && fs["!{baseTrafficShapingController}.specificItems[{any}]#1"] {
								okGen = true
							}
						}
					}
				}
				c.Check(okSpec && okGen, fnKey(f)+" / compared-threshold", f.Pos(), "in-flight+1 is compared with the specific threshold under ok (%v) and with the general one under !ok (%v)", okSpec, okGen)
			}
		},
	})

	register(&Rule{
		ID: "hotspot.guarded-division", Props: []string{"C05"}, Floor: 2,
		Doc: "integer divisions on the hot-parameter check path have divisors proven non-zero: the token count by the dominating `<= 0 -> blocked` test, durationInSec*1000 by the field invariant 'copied only in the constructor from Rule.DurationInSec, which IsValidRule rejects when <= 0 for QPS rules', the division being reached only for QPS",
		Run: func(c *Ctx) {
			valid := c.P.Func(hsPkg + ".IsValidRule")
			base := c.P.Named(hsPkg + ".baseTrafficShapingController")
			if valid == nil || base == nil {
				c.AnchorLost("hotspot.IsValidRule / baseTrafficShapingController")
				return
			}
			qps, _ := constValue(c.P, hsPkg+".QPS")
			// frozen table instance, verified structurally below
			durOK := false
			// (i) IsValidRule rejects DurationInSec <= 0 under MetricType == QPS
			for _, r := range returnsOf(valid) {
				if len(r.Results) == 1 && !isNilConst(r.Results[0]) {
					fs := canonFacts(r.Block())
					if fs[fmt.Sprintf("%d == {Rule}.MetricType", qps)] && fs["{Rule}.DurationInSec <= 0"] {
						durOK = true
					}
				}
			}
			// (ii) the only stores to durationInSec copy r.DurationInSec into a fresh controller
			for _, s := range fieldStores(c.P, base, "durationInSec") {
				if !rootIsAlloc(s.fa.X) || !strings.HasSuffix(accessPath(s.st.Val), ".DurationInSec") {
					durOK = false
				}
			}
			c.Check(durOK, hsPkg+".baseTrafficShapingController.durationInSec / invariant", valid.Pos(), "durationInSec > 0 for QPS controllers: IsValidRule rejects MetricType==QPS && DurationInSec<=0 and the field is only copied from the rule in the constructor")
			z := newSignProver(c.P)
			for _, f := range hotspotCheckers(c.P) {
				ord := 0
				eachInstr(f, func(ins ssa.Instruction) {
					b, ok := ins.(*ssa.BinOp)
					if !ok || (b.Op != token.QUO && b.Op != token.REM) || !isIntegerT(b.Type()) {
						return
					}
					ord++
					key := fmt.Sprintf("%s / div#%d", fnKey(f), ord)
					if r, ok := z.nonZero(b.Y, b.Block()); ok {
						c.Hold(key, b.Pos(), "divisor %s: %s", accessPath(b.Y), r)
						return
					}
					dp := accessPath(b.Y)
					if strings.HasPrefix(dp, "({") && strings.HasSuffix(dp, "durationInSec * 1000)") && durOK {
						fs := canonFacts(b.Block())
						conc, _ := constValue(c.P, hsPkg+".Concurrency")
						_, s1 := anyFact(fs, fmt.Sprintf("%d != {", conc), ".metricType")
						_, s2 := anyFact(fs, "metricType <= "+fmt.Sprint(qps))
						site := s1 && s2
						c.Check(site, key, b.Pos(), "divisor %s: non-zero by the durationInSec invariant; site reached only for QPS rules (metricType != Concurrency && metricType <= QPS): %v", dp, site)
						return
					}
					c.Violate(key, b.Pos(), "integer division by %s which is not proven non-zero: a valid rule can make the rule check panic (recovered: the request passes unmetered)", dp)
				})
			}
		},
	})

	register(&Rule{
		ID: "hotspot.extract-order", Props: []string{"C05"}, Floor: 3,
		Doc: "ExtractArgs (with the helpers it calls: they are inlined before analysis, whatever they are called) consults the attachment key first and the positional index only when that yields nil; a negative index is mapped by len(args)+idx and the argument list is indexed only under 0 <= idx < len(args)",
		Run: func(c *Ctx) {
			ex := c.P.Func(hsPkg + ".(*baseTrafficShapingController).ExtractArgs")
			if ex == nil {
				c.AnchorLost("hotspot ExtractArgs")
				return
			}
			scope := withNewHelpers([]*ssa.Function{ex})
			// attachment lookup keyed by paramKey
			var look *ssa.Lookup
			m := 0
			for _, f := range scope {
				eachInstr(f, func(ins ssa.Instruction) {
					lk, ok := ins.(*ssa.Lookup)
					if !ok || !strings.HasSuffix(accessPath(lk.X), "{EntryContext}.Input.Attachments") {
						return
					}
					m++
					look = lk
					c.Check(accessPath(resolve(lk.Index)) == "{baseTrafficShapingController}.paramKey", fmt.Sprintf("%s / lookup#%d", fnKey(ex), m), lk.Pos(), "attachment looked up by the rule's paramKey")
				})
			}
			n := 0
			// checkIndex judges one indexing of the argument list; env renders the values of a callee (an accessor of the
			// input added later, possibly in another package) in the caller's terms; at is the instruction of the scope
			// that stands for the positional lookup when ordering it against the attachment lookup
			checkIndex := func(ia *ssa.IndexAddr, env map[ssa.Value]string, at ssa.Instruction) {
				var ip string
				var fs map[string]bool
				withPathEnv(env, func() {
					ip = accessPath(ia.Index)
					fs = canonFacts(ia.Block())
				})
				n++
				lo := fs["0 <= "+ip]
				hi := fs[ip+" < builtin len({EntryContext}.Input.Args)"]
				neg := false
				for _, idx := range []string{"{baseTrafficShapingController}.BoundParamIndex()", "{baseTrafficShapingController}.paramIndex"} {
					if strings.Contains(ip, "(builtin len({EntryContext}.Input.Args) + "+idx+")") || strings.Contains(ip, "("+idx+" + builtin len({EntryContext}.Input.Args))") {
						neg = true
					}
				}
				c.Check(lo && hi && neg, fmt.Sprintf("%s / index#%d", fnKey(ex), n), ia.Pos(), "args[%s] under 0<=idx (%v), idx<len(args) (%v), negative index mapped by len+idx (%v)", ip, lo, hi, neg)
				// positional lookup only after the attachment lookup yielded nil
				if look != nil && at.Parent() == look.Parent() {
					after := !instrReaches(at, look) && instrReaches(look, at)
					nilFact := false
					for k := range canonFacts(at.Block()) {
						if strings.Contains(k, ".Input.Attachments") && (strings.HasSuffix(k, " == nil") || strings.HasPrefix(k, "nil == ")) {
							nilFact = true
						}
					}
					c.Check(after && nilFact, fmt.Sprintf("%s / attachment-first#%d", fnKey(ex), n), ia.Pos(), "positional lookup only after the attachment lookup (%v) and under 'attachment value == nil' (%v)", after, nilFact)
				}
			}
			for _, f := range scope {
				eachInstr(f, func(ins ssa.Instruction) {
					switch x := ins.(type) {
					case *ssa.IndexAddr:
						if strings.HasSuffix(accessPath(x.X), "{EntryContext}.Input.Args") {
							checkIndex(x, nil, x)
						}
					case *ssa.Call:
						// a new accessor of the input (e.g. SentinelInput.ArgAt(idx)) does the indexing
						cal := x.Call.StaticCallee()
						if cal == nil || !isNewFunc(cal) || cal.Blocks == nil || len(cal.Params) != len(x.Call.Args) {
							return
						}
						env := map[ssa.Value]string{}
						for k, prm := range cal.Params {
							env[prm] = accessPath(x.Call.Args[k])
						}
						eachInstr(cal, func(in2 ssa.Instruction) {
							if ia, ok := in2.(*ssa.IndexAddr); ok {
								var base string
								withPathEnv(env, func() { base = accessPath(ia.X) })
								if strings.HasSuffix(base, "{EntryContext}.Input.Args") {
									checkIndex(ia, env, x)
								}
							}
						})
					}
				})
			}
			if n == 0 || m == 0 {
				c.Violate(fnKey(ex)+" / sources", ex.Pos(), "ExtractArgs must consult both the attachment key (%d lookups) and the positional index (%d)", m, n)
			}
		},
	})

	// ------------------------------------------------------------------------------------ C06

	register(&Rule{
		ID: "hotspot.inc-dec-siblings", Props: []string{"C06"}, Floor: 3,
		Doc: "ConcurrencyStatSlot.OnEntryPassed and OnCompleted have the same shape: the same guards (concurrency rule, argument present, cell found), the same cell (ConcurrencyCounter.Get of the argument extracted from the context) and one atomic.AddInt64 with +1 resp. -1, outside which they differ in nothing",
		Run: func(c *Ctx) {
			type shape struct {
				fn     *ssa.Function
				ptr    string
				delta  int64
				guards []string
				n      int
				pos    token.Pos
			}
			get := func(name string) *shape {
				f := c.P.Func(hsPkg + ".(*ConcurrencyStatSlot)." + name)
				if f == nil {
					c.AnchorLost("ConcurrencyStatSlot." + name)
					return nil
				}
				s := &shape{fn: f}
				for _, ci := range callsIn(f) {
					an, ok := atomicFuncName(ci)
					if !ok || an != "AddInt64" {
						continue
					}
					s.n++
					s.ptr = accessPath(ci.Common().Args[0])
					s.delta, _ = constInt(ci.Common().Args[1])
					s.pos = ci.Pos()
					for k := range canonFacts(ci.Block()) {
						s.guards = append(s.guards, k)
					}
					sort.Strings(s.guards)
				}
				return s
			}
			a, b := get("OnEntryPassed"), get("OnCompleted")
			if a == nil || b == nil {
				return
			}
			c.Check(a.n == 1 && a.delta == 1, fnKey(a.fn)+" / one-increment", a.pos, "%d atomic adds, delta %d (want one add of +1)", a.n, a.delta)
			c.Check(b.n == 1 && b.delta == -1, fnKey(b.fn)+" / one-decrement", b.pos, "%d atomic adds, delta %d (want one add of -1)", b.n, b.delta)
			same := a.ptr == b.ptr && strings.Join(a.guards, ";") == strings.Join(b.guards, ";")
			wantCell := strings.Contains(a.ptr, ".ConcurrencyCounter.Get(") && strings.Contains(a.ptr, ".ExtractArgs({EntryContext})")
			c.Check(same && wantCell, hsPkg+".ConcurrencyStatSlot / siblings", b.pos, "increment and decrement address the same cell under the same guards: cell %q vs %q; guards equal: %v", a.ptr, b.ptr, strings.Join(a.guards, ";") == strings.Join(b.guards, ";"))
			// the check reads the same cell
			f := c.P.Func(hsPkg + ".(*baseTrafficShapingController).performCheckingForConcurrencyMetric")
			if f == nil {
				c.AnchorLost("performCheckingForConcurrencyMetric")
				return
			}
			okCell := false
			for _, ci := range callsIn(f) {
				if an, ok := atomicFuncName(ci); ok && an == "LoadInt64" {
					p := accessPath(ci.Common().Args[0])
					okCell = strings.Contains(p, ".metric.ConcurrencyCounter.AddIfAbsent({any},")
				}
			}
			c.Check(okCell, fnKey(f)+" / reads-cell", f.Pos(), "the admission test loads the ConcurrencyCounter cell of the checked value")
		},
	})
}
