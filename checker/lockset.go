package main

import (
	"fmt"
	"sort"
	"strings"

	"golang.org/x/tools/go/ssa"
)

// E2: lockset analysis. Must-hold sets of (mutex, mode) per instruction, with entry locksets of unexported
// helpers computed as the intersection over their static call sites.

type lockSet map[string]byte // mutex key -> 'R' | 'W'

func (l lockSet) clone() lockSet {
	o := lockSet{}
	for k, v := range l {
		o[k] = v
	}
	return o
}

func meet(a, b lockSet) lockSet {
	o := lockSet{}
	for k, v := range a {
		if w, ok := b[k]; ok {
			if v == 'R' || w == 'R' {
				o[k] = 'R'
				if v == 'W' && w == 'W' {
					o[k] = 'W'
				}
			} else {
				o[k] = 'W'
			}
		}
	}
	return o
}

func eqLS(a, b lockSet) bool {
	if len(a) != len(b) {
		return false
	}
	for k, v := range a {
		if b[k] != v {
			return false
		}
	}
	return true
}

func (l lockSet) String() string {
	var s []string
	for k, v := range l {
		s = append(s, k+":"+string(v))
	}
	sort.Strings(s)
	return "{" + strings.Join(s, ", ") + "}"
}

// mutexKey names the mutex a Lock/Unlock call operates on: a package-level variable or a Type.field.
func mutexKey(v ssa.Value) string {
	v = stripConv(v)
	switch x := v.(type) {
	case *ssa.UnOp: // load of a pointer-typed variable / field
		switch y := x.X.(type) {
		case *ssa.Global:
			return relPkg(y.Pkg.Pkg.Path()) + "." + y.Name()
		case *ssa.FieldAddr:
			o, f := fieldOf(y)
			return o + "." + f
		}
	case *ssa.FieldAddr:
		o, f := fieldOf(x)
		if f == "Mutex" || f == "RWMutex" { // embedded
			if in, ok := x.X.(*ssa.FieldAddr); ok {
				o2, f2 := fieldOf(in)
				return o2 + "." + f2
			}
		}
		return o + "." + f
	case *ssa.Global:
		return relPkg(x.Pkg.Pkg.Path()) + "." + x.Name()
	}
	return "?" + accessPath(v)
}

// mutexOp classifies a call as a lock operation.
func mutexOp(ci ssa.CallInstruction) (key string, op string, ok bool) {
	f := ci.Common().StaticCallee()
	if f == nil {
		return "", "", false
	}
	n := extFuncName(f)
	switch n {
	case "sync.(RWMutex).Lock", "sync.(Mutex).Lock":
		op = "Lock"
	case "sync.(RWMutex).RLock":
		op = "RLock"
	case "sync.(RWMutex).Unlock", "sync.(Mutex).Unlock":
		op = "Unlock"
	case "sync.(RWMutex).RUnlock":
		op = "RUnlock"
	default:
		return "", "", false
	}
	if len(ci.Common().Args) == 0 {
		return "", "", false
	}
	return mutexKey(ci.Common().Args[0]), op, true
}

type lockAnalysis struct {
	P     *Program
	entry map[*ssa.Function]lockSet
	at    map[ssa.Instruction]lockSet // state before the instruction
	funcs []*ssa.Function
}

func applyOp(ls lockSet, key, op string) {
	switch op {
	case "Lock":
		ls[key] = 'W'
	case "RLock":
		if ls[key] != 'W' {
			ls[key] = 'R'
		}
	case "Unlock", "RUnlock":
		delete(ls, key)
	}
}

func newLockAnalysis(P *Program) *lockAnalysis {
	la := &lockAnalysis{P: P, entry: map[*ssa.Function]lockSet{}, at: map[ssa.Instruction]lockSet{}}
	for _, f := range P.ModuleFuncs() {
		if isTestOrExample(f) {
			continue
		}
		la.funcs = append(la.funcs, f)
	}
	// candidates for non-empty entry lockset: unexported package-level functions / methods with only static callers
	top := lockSet{"⊤": 'W'}
	cand := map[*ssa.Function]bool{}
	for _, f := range la.funcs {
		if f.Parent() != nil {
			continue
		}
		obj := f.Object()
		if obj == nil || obj.Exported() {
			continue
		}
		if len(P.StaticCallers(f)) == 0 {
			continue
		}
		// address taken? (function used as a value)
		used := false
		if r := f.Referrers(); r != nil {
			for _, x := range *r {
				if c, ok := x.(ssa.CallInstruction); ok && c.Common().Value == ssa.Value(f) {
					continue
				}
				used = true
			}
		}
		if used {
			continue
		}
		cand[f] = true
		la.entry[f] = top
	}
	for iter := 0; iter < 6; iter++ {
		la.at = map[ssa.Instruction]lockSet{}
		for _, f := range la.funcs {
			la.flow(f)
		}
		changed := false
		for f := range cand {
			var m lockSet
			first := true
			for _, cs := range P.StaticCallers(f) {
				if isTestOrExample(cs.Parent()) {
					continue
				}
				st, ok := la.at[cs.(ssa.Instruction)]
				if !ok {
					st = lockSet{}
				}
				if _, isTop := st["⊤"]; isTop {
					continue // caller itself still at top
				}
				if first {
					m = st.clone()
					first = false
				} else {
					m = meet(m, st)
				}
			}
			if first {
				m = lockSet{}
			}
			if !eqLS(m, la.entry[f]) {
				la.entry[f] = m
				changed = true
			}
		}
		if !changed {
			break
		}
	}
	// any remaining top -> empty
	for f, e := range la.entry {
		if _, isTop := e["⊤"]; isTop {
			la.entry[f] = lockSet{}
		}
	}
	la.at = map[ssa.Instruction]lockSet{}
	for _, f := range la.funcs {
		la.flow(f)
	}
	return la
}

func (la *lockAnalysis) flow(f *ssa.Function) {
	if len(f.Blocks) == 0 {
		return
	}
	in := map[*ssa.BasicBlock]lockSet{}
	out := map[*ssa.BasicBlock]lockSet{}
	e := la.entry[f]
	if e == nil {
		e = lockSet{}
	}
	// closures run with the lockset of their creation point only if invoked synchronously; be conservative: empty
	in[f.Blocks[0]] = e.clone()
	work := []*ssa.BasicBlock{f.Blocks[0]}
	visited := map[*ssa.BasicBlock]bool{}
	for len(work) > 0 {
		b := work[0]
		work = work[1:]
		st := in[b].clone()
		for _, ins := range b.Instrs {
			la.at[ins] = st.clone()
			if ci, ok := ins.(*ssa.Call); ok {
				if key, op, ok := mutexOp(ci); ok {
					applyOp(st, key, op)
				}
			}
		}
		if o, ok := out[b]; ok && eqLS(o, st) && visited[b] {
			continue
		}
		visited[b] = true
		out[b] = st
		for _, s := range b.Succs {
			var n lockSet
			if prev, ok := in[s]; ok {
				n = meet(prev, st)
				if eqLS(n, prev) && visited[s] {
					continue
				}
			} else {
				n = st.clone()
			}
			in[s] = n
			work = append(work, s)
		}
	}
}

func (la *lockAnalysis) held(ins ssa.Instruction) lockSet {
	if s, ok := la.at[ins]; ok {
		return s
	}
	return lockSet{}
}

// ---------------------------------------------------------------------------------------------
// guarded variables

type guardSpec struct {
	pkg    string // relative package
	name   string // global variable (or Type.field when field==true)
	field  bool
	data   string // mutex key protecting it
	update string // module update mutex that every writer also holds ("" when none)
}

type varAccess struct {
	fn    *ssa.Function
	ins   ssa.Instruction
	write bool
	what  string
}

// accessesOfGlobal lists reads / writes of the map (or slice) held in a package-level variable.
func accessesOfGlobal(P *Program, g *ssa.Global, funcs []*ssa.Function) []varAccess {
	var out []varAccess
	for _, f := range funcs {
		if strings.HasPrefix(f.Name(), "init") && f.Parent() == nil {
			continue
		}
		eachInstr(f, func(ins ssa.Instruction) {
			switch x := ins.(type) {
			case *ssa.Store:
				if x.Addr == ssa.Value(g) {
					out = append(out, varAccess{f, x, true, "replace"})
				}
			case *ssa.UnOp:
				if x.X != ssa.Value(g) {
					return
				}
				out = append(out, valueAccesses(f, x, 0)...)
			}
		})
	}
	return out
}

func accessesOfField(P *Program, ownerRel, field string, funcs []*ssa.Function) []varAccess {
	var out []varAccess
	for _, f := range funcs {
		eachInstr(f, func(ins ssa.Instruction) {
			fa, ok := ins.(*ssa.FieldAddr)
			if !ok {
				return
			}
			o, fn := fieldOf(fa)
			if o != ownerRel || fn != field || rootIsAlloc(fa.X) {
				return
			}
			for _, r := range refsOf(fa) {
				switch x := r.(type) {
				case *ssa.Store:
					if x.Addr == ssa.Value(fa) {
						out = append(out, varAccess{f, x, true, "replace"})
					}
				case *ssa.UnOp:
					out = append(out, valueAccesses(f, x, 0)...)
				}
			}
		})
	}
	return out
}

// valueAccesses classifies the uses of a loaded container value.
func valueAccesses(f *ssa.Function, v ssa.Value, depth int) []varAccess {
	var out []varAccess
	for _, r := range refsOf(v) {
		switch x := r.(type) {
		case *ssa.MapUpdate:
			if x.Map == v {
				out = append(out, varAccess{f, x, true, "map store"})
			}
		case *ssa.Lookup:
			if x.X == v {
				out = append(out, varAccess{f, x, false, "map lookup"})
				// inner containers mutated in place count as writes of the outer variable
				if depth == 0 {
					out = append(out, innerWrites(f, x)...)
				}
			}
		case *ssa.Range:
			if x.X == v {
				out = append(out, varAccess{f, x, false, "range"})
				for _, r2 := range refsOf(x) {
					if nx, ok := r2.(*ssa.Next); ok {
						out = append(out, varAccess{f, nx, false, "range step"})
					}
				}
			}
		case ssa.CallInstruction:
			if b, ok := x.Common().Value.(*ssa.Builtin); ok {
				switch b.Name() {
				case "delete":
					if x.Common().Args[0] == v {
						out = append(out, varAccess{f, x, true, "delete"})
					}
				case "len":
					out = append(out, varAccess{f, x, false, "len"})
				default:
					out = append(out, varAccess{f, x, false, b.Name()})
				}
			} else {
				out = append(out, varAccess{f, x, false, "passed to " + calleeDesc(x)})
			}
		case *ssa.Extract:
		default:
			if _, isIns := r.(ssa.Instruction); isIns {
				out = append(out, varAccess{f, r, false, "use"})
			}
		}
	}
	return out
}

// innerWrites: in-place mutations of a container obtained by looking up the guarded map.
func innerWrites(f *ssa.Function, inner ssa.Value) []varAccess {
	var out []varAccess
	for _, r := range refsOf(inner) {
		switch x := r.(type) {
		case *ssa.Extract:
			if x.Index == 0 {
				out = append(out, innerWrites(f, x)...)
			}
		case *ssa.MapUpdate:
			if x.Map == inner {
				out = append(out, varAccess{f, x, true, "inner map store"})
			}
		case ssa.CallInstruction:
			if b, ok := x.Common().Value.(*ssa.Builtin); ok && b.Name() == "delete" && x.Common().Args[0] == inner {
				out = append(out, varAccess{f, x, true, "inner map delete"})
			}
		}
	}
	return out
}

func describeAccess(a varAccess) string {
	return fmt.Sprintf("%s (%s)", map[bool]string{true: "write", false: "read"}[a.write], a.what)
}
