package main

import (
	"fmt"
	"go/token"
	"go/types"
	"strings"

	"golang.org/x/tools/go/ssa"
)

// Rules added after the sixth round of independently seeded changes.

func init() {
	register(&Rule{
		ID: "outlier.status-not-downgraded", Props: []string{"C20"}, Floor: 1,
		Doc: "the recycler's per-node status is set to 'not recovered' only when the node is entered into the table (under a lookup that found it absent): a node that has meanwhile completed a request successfully (status recovered) is never put back to 'not recovered' by a stale outlier report, so the pending timer does not recycle it",
		Run: func(c *Ctx) {
			n := 0
			for _, f := range c.P.FuncsIn(modPath + "/core/outlier") {
				if isTestOrExample(f) {
					continue
				}
				eachInstr(f, func(ins ssa.Instruction) {
					mu, ok := ins.(*ssa.MapUpdate)
					if !ok {
						return
					}
					mp := accessPath(mu.Map)
					if !strings.HasSuffix(mp, "{Recycler}.status") && !strings.HasSuffix(mp, "Recycler}.status") {
						return
					}
					k, isConst := mu.Value.(*ssa.Const)
					if !isConst || k.Value == nil || k.Value.String() != "false" {
						return
					}
					n++
					key := fmt.Sprintf("%s / status=false#%d", fnKey(f), n)
					absent := false
					eachInstr(f, func(i2 ssa.Instruction) {
						lk, ok := i2.(*ssa.Lookup)
						if !ok || accessPath(lk.X) != mp || accessPath(lk.Index) != accessPath(mu.Key) {
							return
						}
						if reachedOnlyIfAbsent(lk, mu) {
							absent = true
						}
					})
					c.Check(absent, key, mu.Pos(), "status[%s] = false only on paths where the node was found absent from the table: otherwise a node that recovered (completed a request successfully) is marked not-recovered again by a late report and the armed timer removes it", accessPath(mu.Key))
				})
			}
			if n == 0 {
				c.Violate("core/outlier.Recycler / status=false", token.NoPos, "no place enters a node as not-recovered: the recycler never recycles")
			}
		},
	})
}

var _ = types.Typ

func init() {
	register(&Rule{
		ID: "hotspot.capacity-honoured", Props: []string{"C05", "C06"}, Floor: 3,
		Doc: "the size of every per-value cache a hot-parameter controller is built with is the rule's ParamsMaxCapacity whenever that is positive; the built-in defaults are used only when it is not (or as the fallback for a non-positive computed size): traffic on other values must not evict a live value while the configured capacity is not exceeded",
		Run: func(c *Ctx) {
			f := c.P.Func(hsPkg + ".newBaseTrafficShapingController")
			if f == nil {
				c.AnchorLost("hotspot newBaseTrafficShapingController")
				return
			}
			const capPath = "{Rule}.ParamsMaxCapacity"
			n := 0
			for _, g := range withNewHelpers([]*ssa.Function{f}) {
				for _, ci := range callsIn(g) {
					cal := ci.Common().StaticCallee()
					if cal == nil || cal.Name() != "NewLRUCacheMap" || len(ci.Common().Args) != 1 {
						continue
					}
					n++
					key := fmt.Sprintf("%s / cache-size#%d", fnKey(f), n)
					var okCase func(cs retCase, depth int) (bool, string)
					okCase = func(cs retCase, depth int) (bool, string) {
						v := stripConv(cs.val)
						if accessPath(v) == capPath {
							return true, ""
						}
						fs := canonFacts(cs.block, cs.extra...)
						for k := range canonFacts(ci.Block()) {
							fs[k] = true
						}
						if fs[capPath+" <= 0"] || fs[capPath+" < 1"] || fs[capPath+" == 0"] {
							return true, ""
						}
						// fallback for an invalid computed size: `if size <= 0 { size = default }` where every alternative
						// of that size is itself fine (a positive configured capacity never yields size <= 0)
						if depth < 2 {
							for _, ft := range append(append([]Fact{}, condFacts(cs.block)...), cs.extra...) {
								bo, ok := ft.Cond.(*ssa.BinOp)
								if !ok {
									continue
								}
								z, isZ := constInt(bo.Y)
								if !isZ || z != 0 || !((bo.Op == token.LEQ && ft.Truth) || (bo.Op == token.GTR && !ft.Truth)) {
									continue
								}
								all := true
								for _, c2 := range splitPhiCases(stripConv(bo.X), bo.Block(), nil, 0) {
									if ok2, _ := okCase(c2, depth+1); !ok2 {
										all = false
									}
								}
								if all {
									return true, ""
								}
							}
						}
						return false, accessPath(v)
					}
					bad := ""
					for _, cs := range splitPhiCases(stripConv(ci.Common().Args[0]), ci.Block(), nil, 0) {
						if ok, why := okCase(cs, 0); !ok && bad == "" {
							bad = why
						}
					}
					c.Check(bad == "", key, ci.Pos(), "the cache is sized by the rule's ParamsMaxCapacity when that is positive (alternative not tied to it: %s)", bad)
				}
			}
		},
	})
}

// poolNewFuncs: the functions installed as New of a sync.Pool anywhere in the module, with the pooled struct type.
func poolNewFuncs(P *Program) map[*types.Named]*ssa.Function {
	out := map[*types.Named]*ssa.Function{}
	scan := append([]*ssa.Function{}, P.ModuleFuncs()...)
	for _, pk := range P.Prog.AllPackages() {
		if pk.Pkg != nil && inModule(pk.Pkg.Path()) {
			if ini := pk.Func("init"); ini != nil {
				scan = append(scan, ini) // package-level `var pool = sync.Pool{New: ...}`
			}
		}
	}
	for _, f := range scan {
		eachInstr(f, func(ins ssa.Instruction) {
			st, ok := ins.(*ssa.Store)
			if !ok {
				return
			}
			fa, ok := st.Addr.(*ssa.FieldAddr)
			if !ok {
				return
			}
			n := namedOf(fa.X.Type())
			if n == nil || n.Obj().Pkg() == nil || n.Obj().Pkg().Path() != "sync" || n.Obj().Name() != "Pool" || fieldName(fa.X.Type(), fa.Field) != "New" {
				return
			}
			var fn *ssa.Function
			switch v := stripConv(st.Val).(type) {
			case *ssa.MakeClosure:
				fn, _ = v.Fn.(*ssa.Function)
			case *ssa.Function:
				fn = v
			}
			if fn == nil {
				return
			}
			for _, r := range returnsOf(fn) {
				if len(r.Results) != 1 {
					continue
				}
				v := stripConv(r.Results[0])
				if call, ok := v.(*ssa.Call); ok && call.Call.StaticCallee() != nil && inModule(fnPkgPath(call.Call.StaticCallee())) {
					// New: func() interface{} { return newThing() }
					for _, r2 := range returnsOf(call.Call.StaticCallee()) {
						if len(r2.Results) == 1 {
							if pn := namedOf(stripConv(r2.Results[0]).Type()); pn != nil {
								out[pn] = call.Call.StaticCallee()
							}
						}
					}
					continue
				}
				if pn := namedOf(v.Type()); pn != nil {
					out[pn] = fn
				}
			}
		})
	}
	return out
}

// constFieldStores: for stores `x.f = const` in fn where x is (an alias of) root, the constant per field index; a
// field stored more than once with different constants, or with a non-constant, is marked unknown (nil entry).
func constFieldStores(fn *ssa.Function, isRoot func(ssa.Value) bool) (map[int]*ssa.Const, map[int]bool) {
	vals := map[int]*ssa.Const{}
	touched := map[int]bool{}
	eachInstr(fn, func(ins ssa.Instruction) {
		st, ok := ins.(*ssa.Store)
		if !ok {
			return
		}
		fa, ok := st.Addr.(*ssa.FieldAddr)
		if !ok || !isRoot(fa.X) {
			return
		}
		k, isK := stripConv(st.Val).(*ssa.Const)
		if touched[fa.Field] {
			if !isK || vals[fa.Field] == nil || vals[fa.Field].Value == nil != (k.Value == nil) || (k.Value != nil && vals[fa.Field].Value.ExactString() != k.Value.ExactString()) {
				vals[fa.Field] = nil
			}
			return
		}
		touched[fa.Field] = true
		if isK {
			vals[fa.Field] = k
		}
	})
	return vals, touched
}

func init() {
	register(&Rule{
		ID: "pool.reset-restores-new", Props: []string{"C07", "C01", "C16"}, Floor: 4,
		Doc: "for every pooled type with a Reset method, each field of a basic type ends Reset with the same constant the pool's New gives a fresh object (a field New does not mention is zero; a field Reset does not mention after a whole-struct assignment is zero): a recycled object must be indistinguishable from a new one - e.g. the default traffic type of EntryOptions stays Outbound, so system rules keep ignoring entries that do not say otherwise",
		Run: func(c *Ctx) {
			for pn, newFn := range poolNewFuncs(c.P) {
				st, ok := pn.Underlying().(*types.Struct)
				if !ok {
					continue
				}
				var reset *ssa.Function
				for _, f := range c.P.ModuleFuncs() {
					if f.Name() == "Reset" && f.Signature.Recv() != nil && namedOf(f.Signature.Recv().Type()) == pn && f.Parent() == nil {
						reset = f
					}
				}
				if reset == nil {
					continue
				}
				// New: the allocated object
				var obj ssa.Value
				eachInstr(newFn, func(ins ssa.Instruction) {
					if al, ok := ins.(*ssa.Alloc); ok && namedOf(al.Type()) == pn {
						obj = al
					}
				})
				var newVals map[int]*ssa.Const
				var newTouched map[int]bool
				if obj == nil {
					// the object comes from a constructor the New function calls: its constant stores, then New's own
					var ctorCall *ssa.Call
					eachInstr(newFn, func(ins ssa.Instruction) {
						if call, ok := ins.(*ssa.Call); ok && namedOf(call.Type()) == pn && call.Call.StaticCallee() != nil && inModule(fnPkgPath(call.Call.StaticCallee())) {
							ctorCall = call
						}
					})
					if ctorCall == nil {
						c.Info(relPkg(pn.Obj().Pkg().Path())+"."+pn.Obj().Name()+" / pool-new", newFn.Pos(), "the pool's New neither allocates the object nor obtains it from a constructor of the module: fresh values unknown")
						continue
					}
					ctor := ctorCall.Call.StaticCallee()
					var inner ssa.Value
					eachInstr(ctor, func(ins ssa.Instruction) {
						if al, ok := ins.(*ssa.Alloc); ok && namedOf(al.Type()) == pn {
							inner = al
						}
					})
					if inner == nil {
						c.Info(relPkg(pn.Obj().Pkg().Path())+"."+pn.Obj().Name()+" / pool-new", newFn.Pos(), "the constructor %s does not allocate the object itself: fresh values unknown", fnKey(ctor))
						continue
					}
					newVals, newTouched = constFieldStores(ctor, func(v ssa.Value) bool { return v == inner })
					ov, ot := constFieldStores(newFn, func(v ssa.Value) bool { return resolve(v) == ssa.Value(ctorCall) })
					for k, t := range ot {
						if t {
							newTouched[k] = true
							newVals[k] = ov[k]
						}
					}
				} else {
					newVals, newTouched = constFieldStores(newFn, func(v ssa.Value) bool { return v == obj })
				}
				// Reset: direct field stores through the receiver, and a whole-struct assignment `*o = T{...}`
				recv := ssa.Value(reset.Params[0])
				resetVals, resetTouched := constFieldStores(reset, func(v ssa.Value) bool { return resolve(v) == recv })
				var lit ssa.Value
				whole, wholeZero := false, false
				eachInstr(reset, func(ins ssa.Instruction) {
					if s, ok := ins.(*ssa.Store); ok && resolve(s.Addr) == recv {
						whole = true
						if ld, ok := s.Val.(*ssa.UnOp); ok && ld.Op == token.MUL {
							lit = ld.X
						}
						// `*o = T{...}` built in place: the object is zeroed, then the named fields are stored
						if k, ok := s.Val.(*ssa.Const); ok && k.Value == nil {
							wholeZero = true
						}
					}
				})
				var litVals map[int]*ssa.Const
				var litTouched map[int]bool
				if whole && lit != nil {
					litVals, litTouched = constFieldStores(reset, func(v ssa.Value) bool { return v == lit })
				}
				tname := relPkg(pn.Obj().Pkg().Path()) + "." + pn.Obj().Name()
				for i := 0; i < st.NumFields(); i++ {
					bt, isBasic := st.Field(i).Type().Underlying().(*types.Basic)
					if !isBasic || bt.Info()&(types.IsInteger|types.IsBoolean|types.IsFloat|types.IsString) == 0 {
						continue
					}
					render := func(touched bool, k *ssa.Const) (string, bool) {
						if !touched {
							return "0", true // zero value
						}
						if k == nil {
							return "", false
						}
						if k.Value == nil {
							return "0", true
						}
						s := k.Value.ExactString()
						if s == "false" || s == `""` {
							s = "0"
						}
						return s, true
					}
					nv, nok := render(newTouched[i], newVals[i])
					var rv string
					var rok bool
					switch {
					case resetTouched[i]:
						rv, rok = render(true, resetVals[i])
					case whole && lit != nil:
						rv, rok = render(litTouched[i], litVals[i])
					case whole && wholeZero:
						rv, rok = "0", true
					case whole:
						rv, rok = "", false
					default:
						// Reset leaves the field alone: it keeps whatever the last user stored
						rv, rok = "<kept>", true
					}
					key := fmt.Sprintf("%s / reset %s", tname, st.Field(i).Name())
					if !nok || !rok {
						c.Info(key, reset.Pos(), "not a constant in New or Reset")
						continue
					}
					c.Check(nv == rv, key, reset.Pos(), "a fresh %s has %s = %s, a recycled one %s", pn.Obj().Name(), st.Field(i).Name(), nv, rv)
				}
			}
		},
	})
}

func init() {
	register(&Rule{
		ID: "window.view-geometry-consistent", Props: []string{"C08"}, Floor: 1,
		Doc: "the bucket length a SlidingWindowMetric is constructed with is the quotient of the interval and the sample count stored in the same object (the view's own geometry, which GetPreviousQPS steps back by), not the bucket length of the parent array - the two differ whenever a view bucket spans several array buckets",
		Run: func(c *Ctx) {
			swm := c.P.Named(sbPkg + ".SlidingWindowMetric")
			if swm == nil {
				c.AnchorLost("SlidingWindowMetric")
				return
			}
			n := 0
			for _, f := range c.P.FuncsIn(modPath + "/" + sbPkg) {
				if isTestOrExample(f) {
					continue
				}
				// allocations of the view with their field stores
				eachInstr(f, func(ins ssa.Instruction) {
					al, ok := ins.(*ssa.Alloc)
					if !ok || namedOf(al.Type()) != swm {
						return
					}
					stored := map[string]ssa.Value{}
					for _, r := range refsOf(al) {
						if fa, ok := r.(*ssa.FieldAddr); ok {
							for _, r2 := range refsOf(fa) {
								if st, ok := r2.(*ssa.Store); ok && st.Addr == ssa.Value(fa) {
									stored[fieldName(fa.X.Type(), fa.Field)] = st.Val
								}
							}
						}
					}
					bl, iv, sc := stored["bucketLengthInMs"], stored["intervalInMs"], stored["sampleCount"]
					if bl == nil {
						return
					}
					n++
					ok2 := false
					if q, isQ := stripConv(bl).(*ssa.BinOp); isQ && q.Op == token.QUO && iv != nil && sc != nil {
						ok2 = accessPath(q.X) == accessPath(iv) && accessPath(q.Y) == accessPath(sc)
					}
					c.Check(ok2, fmt.Sprintf("%s / bucket-length#%d", fnKey(f), n), al.Pos(), "bucketLengthInMs = intervalInMs / sampleCount of the same view (stored: %s; interval %s, samples %s)", accessPath(bl), accessPath(iv), accessPath(sc))
				})
			}
		},
	})
}

func init() {
	register(&Rule{
		ID: "rules.resource-entry-replaced", Props: []string{"C13"}, Floor: 4,
		Doc: "in the per-resource update of the list-based rule modules (flow, isolation, hotspot, circuit breaker) every path that returns without an error has written the entry of that resource in every enforced / reported map - stored the new list or deleted the key: a load whose rules all fail to build must not leave the previously loaded rules of the resource in force",
		Run: func(c *Ctx) {
			for _, m := range ruleModules {
				var upd *ssa.Function
				for _, u := range m.updaters {
					if strings.HasSuffix(u, ".onResourceRuleUpdate") {
						upd = c.P.Func(u)
						if upd == nil {
							c.AnchorLost(u)
						}
					}
				}
				if upd == nil || m.pkg == "core/outlier" || len(upd.Params) == 0 {
					continue
				}
				maps := map[string]bool{}
				for _, g := range append(append([]string{}, m.enforced...), m.reported...) {
					maps[g] = true
				}
				res := ssa.Value(upd.Params[0])
				for g := range maps {
					glob := c.P.Global(g)
					if glob == nil {
						c.AnchorLost(g)
						continue
					}
					isWrite := func(ins ssa.Instruction) bool {
						switch x := ins.(type) {
						case *ssa.MapUpdate:
							if ld, ok := x.Map.(*ssa.UnOp); ok && ld.X == ssa.Value(glob) && resolve(x.Key) == res {
								return true
							}
						case ssa.CallInstruction:
							if b, ok := x.Common().Value.(*ssa.Builtin); ok && b.Name() == "delete" && len(x.Common().Args) == 2 {
								if ld, ok := x.Common().Args[0].(*ssa.UnOp); ok && ld.X == ssa.Value(glob) && resolve(x.Common().Args[1]) == res {
									return true
								}
							}
						case *ssa.Store:
							// an error result: `err = <non-nil>` before returning
							if al, ok := x.Addr.(*ssa.Alloc); ok && al.Comment == upd.Signature.Results().At(upd.Signature.Results().Len()-1).Name() && al.Comment != "" && types.Identical(al.Type().(*types.Pointer).Elem(), upd.Signature.Results().At(upd.Signature.Results().Len()-1).Type()) && !isNilConst(stripConv(x.Val)) {
								if _, isConst := stripConv(x.Val).(*ssa.Const); !isConst {
									return true
								}
							}
						case *ssa.Return:
							if n := len(x.Results); n > 0 {
								if _, isLoad := x.Results[n-1].(*ssa.UnOp); !isLoad && !isNilConst(stripConv(x.Results[n-1])) {
									return true // returns an error value directly
								}
							}
						}
						return false
					}
					if len(upd.Blocks) == 0 {
						continue
					}
					first := upd.Blocks[0].Instrs[0]
					ok, at := mustPassAssuming(first, func(*ssa.If) (bool, bool) { return true, true }, isWrite)
					where := ""
					if at != nil {
						where = c.P.Pos(at.Pos())
					}
					c.Check(ok, fmt.Sprintf("%s / writes %s[res]", fnKey(upd), strings.TrimPrefix(g, m.pkg+".")), upd.Pos(), "every successful return is preceded by a store to or a delete from %s under the resource's key (offending return: %s)", g, where)
				}
			}
		},
	})
}

// globalsWritten: package-level variables of pkg that fn (with the new helpers it calls) writes: stores to the variable,
// map updates / deletes on the map it holds, and calls that receive the variable's address (atomic.Value.Store, ...),
// mutexes excepted.
func globalsWritten(P *Program, fns []*ssa.Function, pkg string) map[string]bool {
	out := map[string]bool{}
	globOf := func(v ssa.Value) *ssa.Global {
		v = stripConv(v)
		if g, ok := v.(*ssa.Global); ok {
			return g
		}
		if u, ok := v.(*ssa.UnOp); ok && u.Op == token.MUL {
			if g, ok := u.X.(*ssa.Global); ok {
				return g
			}
		}
		if fa, ok := v.(*ssa.FieldAddr); ok {
			if g, ok := fa.X.(*ssa.Global); ok {
				return g
			}
		}
		return nil
	}
	isMutex := func(g *ssa.Global) bool {
		t := g.Type().(*types.Pointer).Elem()
		if p, ok := t.(*types.Pointer); ok {
			t = p.Elem()
		}
		if n, ok := t.(*types.Named); ok && n.Obj().Pkg() != nil && n.Obj().Pkg().Path() == "sync" && (n.Obj().Name() == "Mutex" || n.Obj().Name() == "RWMutex") {
			return true
		}
		return false
	}
	add := func(g *ssa.Global) {
		if g != nil && g.Pkg != nil && relPkg(g.Pkg.Pkg.Path()) == pkg && !isMutex(g) {
			out[g.Name()] = true
		}
	}
	// the functions themselves and what they statically call in the same package (depth 3), closures included
	seenF := map[*ssa.Function]bool{}
	var all []*ssa.Function
	var addF func(f *ssa.Function, d int)
	addF = func(f *ssa.Function, d int) {
		if f == nil || seenF[f] || f.Blocks == nil {
			return
		}
		seenF[f] = true
		all = append(all, f)
		if d >= 3 {
			return
		}
		for _, a := range f.AnonFuncs {
			addF(a, d)
		}
		for _, ci := range callsIn(f) {
			if cal := ci.Common().StaticCallee(); cal != nil && relPkg(fnPkgPath(cal)) == pkg {
				addF(cal, d+1)
			}
		}
	}
	for _, f := range fns {
		addF(f, 0)
	}
	for _, f := range all {
		eachInstr(f, func(ins ssa.Instruction) {
			switch x := ins.(type) {
			case *ssa.Store:
				if g, ok := x.Addr.(*ssa.Global); ok {
					add(g)
				}
			case *ssa.MapUpdate:
				add(globOf(x.Map))
			case ssa.CallInstruction:
				cc := x.Common()
				if b, ok := cc.Value.(*ssa.Builtin); ok {
					if b.Name() == "delete" && len(cc.Args) > 0 {
						add(globOf(cc.Args[0]))
					}
					return
				}
				cal := cc.StaticCallee()
				if cal != nil && inModule(fnPkgPath(cal)) {
					return // module functions are looked at themselves when they are new helpers
				}
				for _, a := range cc.Args {
					if g, ok := stripConv(a).(*ssa.Global); ok {
						// &global handed to external code: a write unless the callee is a known reader
						n := ""
						if cal != nil {
							n = cal.Name()
						}
						if n == "Load" || n == "RLock" || n == "RUnlock" || n == "Lock" || n == "Unlock" || strings.HasPrefix(n, "Load") {
							continue
						}
						add(g)
					}
				}
			}
		})
	}
	return out
}

func init() {
	register(&Rule{
		ID: "rules.update-paths-write-same-state", Props: []string{"C13", "C02", "C15"}, Floor: 4,
		Doc: "in every rule module the whole-set load path (LoadRules with onRuleUpdate) and the per-resource load path (LoadRulesOfResource with onResourceRuleUpdate) write the same package-level variables: derived state kept beside the enforced map (an index, a snapshot consulted by a slot) that only one path maintains goes stale after a load through the other",
		Run: func(c *Ctx) {
			for _, m := range ruleModules {
				if len(m.loaders) != 2 || len(m.updaters) != 2 {
					continue
				}
				side := func(i int) ([]*ssa.Function, bool) {
					l, u := c.P.Func(m.loaders[i]), c.P.Func(m.updaters[i])
					if l == nil || u == nil {
						c.AnchorLost(m.loaders[i] + " / " + m.updaters[i])
						return nil, false
					}
					return []*ssa.Function{l, u}, true
				}
				a, ok1 := side(0)
				b, ok2 := side(1)
				if !ok1 || !ok2 {
					continue
				}
				wa, wb := globalsWritten(c.P, a, m.pkg), globalsWritten(c.P, b, m.pkg)
				// state nobody else consumes (a counter, a timestamp kept for debugging) cannot make a decision go stale:
				// only variables that some other function of the package reads are compared
				readElsewhere := map[string]bool{}
				inPaths := map[*ssa.Function]bool{}
				for _, f := range append(append([]*ssa.Function{}, a...), b...) {
					for _, g := range withAnon(f) {
						inPaths[g] = true
					}
				}
				for _, f := range c.P.FuncsIn(modPath + "/" + m.pkg) {
					if inPaths[f] || isTestOrExample(f) || !c.P.LiveFuncs()[f] {
						continue
					}
					eachInstr(f, func(ins ssa.Instruction) {
						for _, op := range ins.Operands(nil) {
							if g, ok := (*op).(*ssa.Global); ok && g.Pkg != nil && relPkg(g.Pkg.Pkg.Path()) == m.pkg {
								if st, isStore := ins.(*ssa.Store); isStore && st.Addr == ssa.Value(g) {
									continue
								}
								readElsewhere[g.Name()] = true
							}
						}
					})
				}
				for g := range wa {
					if !readElsewhere[g] {
						delete(wa, g)
					}
				}
				for g := range wb {
					if !readElsewhere[g] {
						delete(wb, g)
					}
				}
				var onlyA, onlyB []string
				for g := range wa {
					if !wb[g] {
						onlyA = append(onlyA, g)
					}
				}
				for g := range wb {
					if !wa[g] {
						onlyB = append(onlyB, g)
					}
				}
				sortStrings(onlyA)
				sortStrings(onlyB)
				c.Check(len(onlyA) == 0 && len(onlyB) == 0, m.pkg+" / load-paths-write-same-globals", a[1].Pos(), "whole-set path writes %v, per-resource path writes %v (only whole-set: %v; only per-resource: %v)", boolKeys(wa), boolKeys(wb), onlyA, onlyB)
			}
		},
	})
}

// runsUserCode: fn, or a module function it statically calls (depth <= 4), calls a function value that is not a
// function literal or a named function - a generator / callback registered by the user, which may panic.
func runsUserCode(fn *ssa.Function, depth int, seen map[*ssa.Function]bool) (bool, string) {
	if fn == nil || fn.Blocks == nil || depth > 4 || seen[fn] {
		return false, ""
	}
	seen[fn] = true
	for _, ci := range callsIn(fn) {
		cc := ci.Common()
		if cc.IsInvoke() {
			continue
		}
		switch v := cc.Value.(type) {
		case *ssa.Builtin, *ssa.MakeClosure:
			continue
		case *ssa.Function:
			if inModule(fnPkgPath(v)) {
				if ok, why := runsUserCode(v, depth+1, seen); ok {
					return true, why
				}
			}
			continue
		}
		return true, fnKey(fn) + " calls the function value " + accessPath(cc.Value)
	}
	return false, ""
}

func init() {
	register(&Rule{
		ID: "race.no-user-code-under-explicit-lock", Props: []string{"C15"}, Floor: 10,
		Doc: "in a function that swallows panics with a deferred recover, a mutex released by an explicit (not deferred) Unlock is not held while user-registered code (a generator or callback invoked through a function value) can run: its panic would be recovered, the Unlock skipped, and every later Entry, Exit and rule load on that mutex would block for ever",
		Run: func(c *Ctx) {
			n := 0
			la := newLockAnalysis(c.P)
			for _, f := range c.P.ModuleFuncs() {
				if isTestOrExample(f) || f.Blocks == nil || !hasDeferredRecover(f) {
					continue
				}
				k := 0
				for _, ci := range callsIn(f) {
					if _, isDefer := ci.(*ssa.Defer); isDefer {
						continue
					}
					key, op, ok := mutexOp(ci)
					if !ok || (op != "Lock" && op != "RLock") {
						continue
					}
					// is the matching release deferred? then a panic unlocks as well
					deferred := false
					want := "Unlock"
					if op == "RLock" {
						want = "RUnlock"
					}
					for _, c2 := range callsIn(f) {
						if d, isDefer := c2.(*ssa.Defer); isDefer {
							if k2, op2, ok2 := mutexOp(d); ok2 && k2 == key && op2 == want && instrReaches(ci.(ssa.Instruction), d) {
								deferred = true
							}
						}
					}
					if deferred {
						continue
					}
					n++
					k++
					bad := ""
					for _, c3 := range callsIn(f) {
						x := c3.(ssa.Instruction)
						if x == ci.(ssa.Instruction) || !instrReaches(ci.(ssa.Instruction), x) {
							continue
						}
						// held at x on every path (must-hold lockset of the forward dataflow)
						if _, held := la.held(x)[key]; !held {
							continue
						}
						if _, _, isMu := mutexOp(c3); isMu {
							continue
						}
						cc := c3.Common()
						if cc.IsInvoke() {
							continue
						}
						switch v := cc.Value.(type) {
						case *ssa.Builtin, *ssa.MakeClosure:
						case *ssa.Function:
							if inModule(fnPkgPath(v)) {
								if yes, why := runsUserCode(v, 0, map[*ssa.Function]bool{}); yes && bad == "" {
									bad = fmt.Sprintf("%s at %s (%s)", calleeDesc(c3), c.P.Pos(c3.Pos()), why)
								}
							}
						default:
							if bad == "" {
								bad = fmt.Sprintf("call of the function value %s at %s", accessPath(cc.Value), c.P.Pos(c3.Pos()))
							}
						}
					}
					c.Check(bad == "", fmt.Sprintf("%s / %s %s#%d / no-user-code", fnKey(f), op, key, k), ci.Pos(), "between this %s and its explicit %s no user-registered code runs %s", op, want, bad)
				}
			}
			c.Stat("explicit lock regions in recovering functions", n)
		},
	})
}

func init() {
	register(&Rule{
		ID: "check.result-fresh-or-own", Props: []string{"C01", "C16", "C02"}, Floor: 20,
		Doc: "every *TokenResult a function of the module returns (rule-check slots, controllers, checkers, constructors) is nil, freshly allocated, the result of another such function, one of its own parameters, or the result object of the entry's own context (ctx.RuleCheckResult) - never an object kept in a field of a long-lived structure or in a package-level variable: the slot chain stores a blocked result in the pooled context, so a shared object would become the rule-check result of unrelated entries, and resetting it for one entry would change the outcome of another",
		Run: func(c *Ctx) {
			tr := c.P.Named("core/base.TokenResult")
			if tr == nil {
				c.AnchorLost("core/base.TokenResult")
				return
			}
			isTR := func(t types.Type) bool {
				p, ok := t.(*types.Pointer)
				return ok && namedOf(p.Elem()) == tr
			}
			for _, f := range c.P.ModuleFuncs() {
				if isTestOrExample(f) || f.Blocks == nil || !c.P.LiveFuncs()[f] {
					continue
				}
				res := f.Signature.Results()
				for ri := 0; ri < res.Len(); ri++ {
					if !isTR(res.At(ri).Type()) {
						continue
					}
					bad := ""
					{
						for _, cs := range returnedCases(f, ri) {
							r := cs.block.Instrs[len(cs.block.Instrs)-1]
							v := resolve(cs.val)
							switch x := v.(type) {
							case *ssa.Const, *ssa.Alloc, *ssa.Parameter, *ssa.Call, *ssa.Extract, *ssa.FreeVar, *ssa.TypeAssert, *ssa.Lookup:
								// nil, fresh, own parameter, another function's result (judged there), a captured variable of
								// the enclosing function (judged there)
							case *ssa.UnOp:
								if x.Op != token.MUL {
									break
								}
								switch a := x.X.(type) {
								case *ssa.FieldAddr:
									if typeIs(a.X.Type(), "core/base", "EntryContext") {
										break // the context's own result object
									}
									if _, isParamTR := resolve(a.X).(*ssa.Parameter); isParamTR && isTR(a.X.Type()) {
										break
									}
									if _, local := resolve(a.X).(*ssa.Alloc); local {
										break // a field of an object built in this very function
									}
									if bad == "" {
										bad = fmt.Sprintf("%s (a field of %s) at %s", accessPath(x), types.TypeString(a.X.Type(), shortQual), c.P.Pos(r.Pos()))
									}
								case *ssa.Global:
									if bad == "" {
										bad = fmt.Sprintf("the package-level variable %s at %s", accessPath(a), c.P.Pos(r.Pos()))
									}
								}
							}
						}
					}
					c.Check(bad == "", fmt.Sprintf("%s / result#%d", fnKey(f), ri), f.Pos(), "returns only nil, fresh, parameter-derived or context-owned results %s", func() string {
						if bad != "" {
							return "- but also " + bad + ": that object outlives the entry and is shared by every entry that is handed it"
						}
						return ""
					}())
				}
			}
		},
	})
}

func init() {
	register(&Rule{
		ID: "datasource.payload-bytes-stable", Props: []string{"C18"}, Floor: 1,
		Doc: "the bytes of a payload are not shared between deliveries: either no property handler keeps the []byte it was given (uncopied) in a field, or no data source of the module hands out bytes of a buffer it reuses for the next read. Both together make the kept 'last payload' change under the handler's feet, so that a new payload of the same length compares equal to itself and is dropped",
		Run: func(c *Ctx) {
			isBytes := func(t types.Type) bool {
				s, ok := t.Underlying().(*types.Slice)
				if !ok {
					return false
				}
				b, ok := s.Elem().Underlying().(*types.Basic)
				return ok && b.Kind() == types.Uint8
			}
			var keeps, reuses []string
			for _, f := range c.P.ModuleFuncs() {
				if isTestOrExample(f) || f.Blocks == nil || !strings.HasPrefix(relPkg(fnPkgPath(f)), "ext/datasource") {
					continue
				}
				// (B) a []byte parameter stored, as it is, into a field of a receiver / long-lived object
				eachInstr(f, func(ins ssa.Instruction) {
					st, ok := ins.(*ssa.Store)
					if !ok || !isBytes(st.Val.Type()) {
						return
					}
					fa, ok := st.Addr.(*ssa.FieldAddr)
					if !ok {
						return
					}
					if _, fresh := resolve(fa.X).(*ssa.Alloc); fresh {
						return
					}
					v := resolve(st.Val)
					if sl, isSl := v.(*ssa.Slice); isSl {
						v = resolve(sl.X)
					}
					if p, isParam := v.(*ssa.Parameter); isParam && isBytes(p.Type()) {
						keeps = append(keeps, fmt.Sprintf("%s keeps its parameter %s in %s (%s)", fnKey(f), p.Name(), accessPath(fa), c.P.Pos(st.Pos())))
					}
				})
				// (A) a function returning []byte that comes from a buffer held in a field
				if f.Signature.Results().Len() > 0 && isBytes(f.Signature.Results().At(0).Type()) {
					{
						for _, cs := range returnedCases(f, 0) {
							r := cs.block.Instrs[len(cs.block.Instrs)-1]
							v := resolve(cs.val)
							if sl, isSl := v.(*ssa.Slice); isSl {
								v = resolve(sl.X)
							}
							fromField := func(x ssa.Value) bool {
								for i := 0; i < 6; i++ {
									x = resolve(x)
									switch y := x.(type) {
									case *ssa.FieldAddr:
										if _, fresh := resolve(y.X).(*ssa.Alloc); fresh {
											return false
										}
										return true
									case *ssa.UnOp:
										x = y.X
									default:
										return false
									}
								}
								return false
							}
							if call, isCall := v.(*ssa.Call); isCall {
								if cal := call.Call.StaticCallee(); cal != nil && extFuncName(cal) == "bytes.(Buffer).Bytes" && len(call.Call.Args) == 1 && fromField(call.Call.Args[0]) {
									reuses = append(reuses, fmt.Sprintf("%s returns the bytes of the reused buffer %s (%s)", fnKey(f), accessPath(call.Call.Args[0]), c.P.Pos(r.Pos())))
								}
							} else if u, isLoad := v.(*ssa.UnOp); isLoad && fromField(u) {
								reuses = append(reuses, fmt.Sprintf("%s returns the slice held in %s (%s)", fnKey(f), accessPath(u), c.P.Pos(r.Pos())))
							}
						}
					}
				}
			}
			sortStrings(keeps)
			sortStrings(reuses)
			switch {
			case len(keeps) > 0 && len(reuses) > 0:
				c.Violate("ext/datasource / payload-bytes-shared", token.NoPos, "%s; and %s: the kept payload is overwritten by the next read", strings.Join(keeps, "; "), strings.Join(reuses, "; "))
			default:
				c.Hold("ext/datasource / payload-bytes-shared", token.NoPos, "handlers keeping the caller's bytes: %d; sources handing out reused buffers: %d (not both)", len(keeps), len(reuses))
			}
		},
	})
}

func init() {
	register(&Rule{
		ID: "cb.deadline-written-only-when-opening", Props: []string{"C12", "C03"}, Floor: 2,
		Doc: "outside the constructors the retry deadline of a breaker is written only as the arming step of a transition to Open: every write (updateNextRetryTimestamp or an atomic store / add / swap on nextRetryTimestampMs) dominates a CAS to Open in the same function. A write by any other transition (e.g. clearing it when the breaker closes) can land after a concurrent re-opening and wipe the deadline that one armed, so that a request is admitted before the retry timeout has elapsed",
		Run: func(c *Ctx) {
			_, sites := cbCasSites(c.P)
			upd := c.P.Func(cbPkg + ".(*circuitBreakerBase).updateNextRetryTimestamp")
			if upd == nil {
				c.AnchorLost("updateNextRetryTimestamp")
				return
			}
			n := 0
			for _, f := range c.P.FuncsIn(modPath + "/" + cbPkg) {
				if isTestOrExample(f) || f == upd || f.Blocks == nil {
					continue
				}
				k := 0
				for _, ci := range callsIn(f) {
					writes := isStaticCallTo(ci, upd)
					if an, ok := atomicFuncName(ci); ok && !strings.HasPrefix(an, "Load") && len(ci.Common().Args) > 0 {
						if fa, ok := ci.Common().Args[0].(*ssa.FieldAddr); ok {
							if _, fn := fieldOf(fa); fn == "nextRetryTimestampMs" {
								writes = true
							}
						}
					}
					if !writes {
						continue
					}
					n++
					k++
					arming := false
					for _, s := range sites {
						if s.ok && s.to == "Open" && s.fn == f && s.call != nil && instrDominates(ci.(ssa.Instruction), s.call) {
							arming = true
						}
					}
					c.Check(arming, fmt.Sprintf("%s / deadline-write#%d", fnKey(f), k), ci.Pos(), "this write of the retry deadline is followed by a CAS to Open in the same function (it arms the opening it belongs to)")
				}
			}
		},
	})
}

func init() {
	register(&Rule{
		ID: "cb.arming-transition-called-in-source-state", Props: []string{"C03", "C12"}, Floor: 6,
		Doc: "a transition function that arms the retry deadline before its CAS to Open (fromClosedToOpen, fromHalfOpenToOpen) is called only where a state read has established the CAS's source state (`state == Closed`, a switch case, or the exclusion of the other two states): called in state Open by a straggler, the CAS fails but the deadline has already been pushed back, and requests stay rejected after the retry timeout has elapsed",
		Run: func(c *Ctx) {
			_, sites := cbCasSites(c.P)
			upd := c.P.Func(cbPkg + ".(*circuitBreakerBase).updateNextRetryTimestamp")
			names := cbStateNames(c.P)
			if upd == nil || len(names) == 0 {
				c.AnchorLost("updateNextRetryTimestamp / State constants")
				return
			}
			isStateRead := func(v ssa.Value) bool {
				call, ok := resolve(v).(*ssa.Call)
				if !ok {
					return false
				}
				cal := call.Call.StaticCallee()
				if cal == nil || relPkg(fnPkgPath(cal)) != cbPkg {
					return false
				}
				return cal.Name() == "CurrentState" || (cal.Name() == "get" && cal.Signature.Recv() != nil && typeIs(cal.Signature.Recv().Type(), cbPkg, "State"))
			}
			for _, s := range sites {
				if !s.ok || s.to != "Open" || s.call == nil || isExitHookClosure(c.P, s.fn) {
					continue
				}
				arms := false
				for _, ci := range callsIn(s.fn) {
					if storesDeadline(ci, upd) && instrDominates(ci.(ssa.Instruction), s.call) {
						arms = true
					}
				}
				if !arms {
					continue
				}
				ord := map[*ssa.Function]int{}
				for _, site := range c.P.StaticCallers(s.fn) {
					f := site.Parent()
					if isTestOrExample(f) {
						continue
					}
					ord[f]++
					k := ord[f]
					// per state read: which states remain possible under the dominating facts
					possible := map[ssa.Value]map[string]bool{}
					for _, ft := range condFacts(site.Block()) {
						bo, ok := ft.Cond.(*ssa.BinOp)
						if !ok || (bo.Op != token.EQL && bo.Op != token.NEQ) {
							continue
						}
						var rd ssa.Value
						var kv int64
						if v, isK := constInt(bo.Y); isK && isStateRead(bo.X) {
							rd, kv = resolve(bo.X), v
						} else if v, isK := constInt(bo.X); isK && isStateRead(bo.Y) {
							rd, kv = resolve(bo.Y), v
						} else {
							continue
						}
						if possible[rd] == nil {
							possible[rd] = map[string]bool{}
							for _, nm := range names {
								possible[rd][nm] = true
							}
						}
						eq := (bo.Op == token.EQL) == ft.Truth
						for nm := range possible[rd] {
							if eq && nm != names[kv] {
								delete(possible[rd], nm)
							}
							if !eq && nm == names[kv] {
								delete(possible[rd], nm)
							}
						}
					}
					ok := false
					for _, set := range possible {
						if len(set) == 1 && set[s.from] {
							ok = true
						}
					}
					c.Check(ok, fmt.Sprintf("%s / call %s#%d", fnKey(f), s.fn.Name(), k), site.Pos(), "%s (which arms the retry deadline and then tries %s->Open) is called where a state read is known to be %s", s.fn.Name(), s.from, s.from)
				}
			}
		},
	})
}

// Rules added after the seventh round of independently seeded changes.

func init() {
	register(&Rule{
		ID: "outlier.recycle-decision-atomic", Props: []string{"C20"}, Floor: 1,
		Doc: "in Recycler.recycle the removal of the node's breaker happens inside the critical section (the recycler's mutex) in which the node's status was read as 'not recovered': a successful completion reported through recover(), which takes the same mutex, either is seen by the decision or comes after the removal, never in between",
		Run: func(c *Ctx) {
			f := c.P.Func("core/outlier.(*Recycler).recycle")
			del := c.P.Func("core/outlier.deleteNodeBreakerOfResource")
			if f == nil || del == nil {
				c.AnchorLost("outlier Recycler.recycle / deleteNodeBreakerOfResource")
				return
			}
			la := newLockAnalysis(c.P)
			n := 0
			for _, g := range withNewHelpers([]*ssa.Function{f}) {
				for _, ci := range callsIn(g) {
					if !isStaticCallTo(ci, del) {
						continue
					}
					n++
					key := fmt.Sprintf("%s / remove#%d", fnKey(f), n)
					held := la.held(ci.(ssa.Instruction))
					mu := ""
					for k := range held {
						if strings.Contains(k, "Recycler.mtx") || strings.Contains(k, "Recycler}.mtx") {
							mu = k
						}
					}
					// the status read that guards it, under the same mutex
					readUnder := false
					eachInstr(g, func(ins ssa.Instruction) {
						lk, ok := ins.(*ssa.Lookup)
						if !ok || !strings.HasSuffix(accessPath(lk.X), "Recycler}.status") {
							return
						}
						if _, h := la.held(lk)[mu]; h && mu != "" && instrReaches(lk, ci.(ssa.Instruction)) {
							readUnder = true
						}
					})
					c.Check(mu != "" && readUnder, key, ci.Pos(), "the breaker is removed while the recycler's mutex is held (held here: %v) and the status was read under it (%v)", held.String(), readUnder)
				}
			}
			if n == 0 {
				c.Violate(fnKey(f)+" / remove", f.Pos(), "recycle no longer removes the node's breaker")
			}
		},
	})
}

func init() {
	register(&Rule{
		ID: "cb.deadline-no-wrapping-arith", Props: []string{"C12", "C03"}, Floor: 1,
		Doc: "the retry deadline loaded from nextRetryTimestampMs is compared with the clock directly; it does not enter an unsigned subtraction without a dominating guard that orders the operands (a caller whose clock sample is older than a deadline re-armed in between would read the wrapped difference as 'deadline passed' and be admitted right after the breaker opened)",
		Run: func(c *Ctx) {
			n := 0
			for _, f := range c.P.FuncsIn(modPath + "/core/circuitbreaker") {
				if isTestOrExample(f) || f.Blocks == nil {
					continue
				}
				k := 0
				for _, ci := range callsIn(f) {
					an, ok := atomicFuncName(ci)
					if !ok || an != "LoadUint64" || len(ci.Common().Args) != 1 {
						continue
					}
					fa, ok := ci.Common().Args[0].(*ssa.FieldAddr)
					if !ok || fieldName(fa.X.Type(), fa.Field) != "nextRetryTimestampMs" {
						continue
					}
					v, ok := ci.(ssa.Value)
					if !ok {
						continue
					}
					n++
					k++
					bad := ""
					seen := map[ssa.Value]bool{}
					var walk func(x ssa.Value, d int)
					walk = func(x ssa.Value, d int) {
						if seen[x] || d > 6 {
							return
						}
						seen[x] = true
						for _, r := range refsOf(x) {
							switch u := r.(type) {
							case *ssa.Convert:
								walk(u, d+1)
							case *ssa.ChangeType:
								walk(u, d+1)
							case *ssa.Phi:
								walk(u, d+1)
							case *ssa.BinOp:
								if u.Op != token.SUB {
									continue
								}
								if bt, isB := u.Type().Underlying().(*types.Basic); !isB || bt.Info()&types.IsUnsigned == 0 {
									continue
								}
								xs, ys := accessPath(u.X), accessPath(u.Y)
								fs := canonFacts(u.Block())
								if fs[ys+" <= "+xs] || fs[ys+" < "+xs] {
									continue
								}
								if bad == "" {
									bad = fmt.Sprintf("%s - %s at %s", xs, ys, c.P.Pos(u.Pos()))
								}
							}
						}
					}
					walk(v, 0)
					c.Check(bad == "", fmt.Sprintf("%s / deadline-load#%d", fnKey(f), k), ci.Pos(), "the loaded retry deadline is not used in an unguarded unsigned subtraction (%s)", bad)
				}
			}
			if n == 0 {
				c.AnchorLost("atomic load of circuitBreakerBase.nextRetryTimestampMs")
			}
		},
	})
}

func init() {
	register(&Rule{
		ID: "rules.cache-follows-enforcement", Props: []string{"C13", "C14"}, Floor: 10,
		Doc: "in every update path of a rule manager the cached last input (currentRules, what LoadRules compares a new load against to answer 'unchanged') is written only on executions that also install the enforced rules: the write is dominated by a write of an enforced map, or every path from it to a return passes through one. A load that is rejected (invalid rule, early return) must leave the cache alone, or a later load of the same input is skipped as a repeat while older rules stay in force",
		Run: func(c *Ctx) {
			la := &lockAnalysis{P: c.P}
			for _, f := range c.P.ModuleFuncs() {
				if !isTestOrExample(f) {
					la.funcs = append(la.funcs, f)
				}
			}
			for _, m := range ruleModules {
				cur := c.P.Global(m.current)
				if cur == nil {
					c.AnchorLost(m.current)
					continue
				}
				enfW := map[*ssa.Function][]ssa.Instruction{}
				for _, gname := range m.enforced {
					g := c.P.Global(gname)
					if g == nil {
						c.AnchorLost(gname)
						continue
					}
					for _, a := range accessesOfGlobal(c.P, g, la.funcs) {
						if a.write && !strings.HasPrefix(a.what, "inner") {
							enfW[a.fn] = append(enfW[a.fn], a.ins)
						}
					}
				}
				k := map[*ssa.Function]int{}
				for _, a := range accessesOfGlobal(c.P, cur, la.funcs) {
					if !a.write || strings.HasPrefix(a.what, "inner") {
						continue
					}
					f := a.fn
					if f.Name() == "init" {
						continue
					}
					k[f]++
					key := fmt.Sprintf("%s / cache-write#%d", fnKey(f), k[f])
					ws := enfW[f]
					if len(ws) == 0 {
						// the cache is kept by the caller of the update path (system.LoadRules): the update must have succeeded
						okErr := false
						for _, ft := range condFacts(a.ins.Block()) {
							if bo, ok := ft.Cond.(*ssa.BinOp); ok && (isNilConst(bo.X) || isNilConst(bo.Y)) {
								if (bo.Op == token.EQL && ft.Truth) || (bo.Op == token.NEQ && !ft.Truth) {
									okErr = true
								}
							}
						}
						// or the function is a clearing path that writes nothing else
						c.Check(okErr || len(returnsOf(f)) <= 1, key, a.ins.Pos(), "%s is written in a function that does not install rules itself: only after the update reported no error (%v) or in a function with a single exit", m.current, okErr)
						continue
					}
					dominated := mustPrecede(a.ins, func(x ssa.Instruction) bool {
						for _, e := range ws {
							if e == x {
								return true
							}
						}
						return false
					})
					follows := false
					if !dominated {
						isEnf := func(x ssa.Instruction) bool {
							for _, e := range ws {
								if e == x {
									return true
								}
							}
							return false
						}
						follows, _ = allPathsHit(a.ins, isEnf, nil)
					}
					c.Check(dominated || follows, key, a.ins.Pos(), "%s is written only together with the enforced maps %v (every path to it passes such a write: %v; every path from it to a return passes one: %v)", m.current, m.enforced, dominated, follows)
				}
			}
		},
	})
}

func init() {
	register(&Rule{
		ID: "hotspot.throttle-idle-restarts-at-now", Props: []string{"C05"}, Floor: 1,
		Doc: "in the throttling hot-parameter controller a request admitted without waiting (the value's expected pass time is not in the future) leaves the value's last-pass cell at the current time: the last value written to the cell on that path is the clock reading, not an older time plus the interval, so idle time is not banked as credit that later lets several requests through at the same instant",
		Run: func(c *Ctx) {
			f := c.P.Func(hsPkg + ".(*throttlingTrafficShapingController).PerformChecking")
			if f == nil {
				c.AnchorLost("hotspot throttling PerformChecking")
				return
			}
			n := 0
			{
				g := f
				{
					for _, cs := range returnedCases(f, 0) {
						if !isNilConst(stripConv(cs.val)) {
							continue
						}
						// under a successful CAS on the time cell?
						var cas *ssa.Call
						for _, ft := range append(append([]Fact{}, condFacts(cs.block)...), cs.extra...) {
							call, ok := ft.Cond.(*ssa.Call)
							if !ok || !ft.Truth {
								continue
							}
							if an, isAt := atomicFuncName(call); isAt && an == "CompareAndSwapInt64" {
								cas = call
							}
						}
						if cas == nil {
							continue
						}
						n++
						key := fmt.Sprintf("%s / pass-now#%d", fnKey(f), n)
						last := cas.Call.Args[2]
						// a later store into the same cell on this path
						for _, ci := range callsIn(g) {
							if an, isAt := atomicFuncName(ci); isAt && an == "StoreInt64" && sameValue(ci.Common().Args[0], cas.Call.Args[0]) {
								if instrDominates(cas, ci.(ssa.Instruction)) && ci.Block().Dominates(cs.block) {
									last = ci.Common().Args[1]
								}
							}
						}
						lv := stripConv(resolve(last))
						call, isCall := lv.(*ssa.Call)
						okNow := isCall && strings.Contains(accessPath(call), "CurrentTimeMillis()")
						c.Check(okNow, key, cs.block.Instrs[len(cs.block.Instrs)-1].Pos(), "the request passes at once and the last value written to the value's time cell on that path is %s (want the clock reading)", accessPath(last))
					}
				}
			}
			if n == 0 {
				c.AnchorLost("hotspot throttling: a `pass at once` return under a successful CompareAndSwapInt64")
			}
		},
	})
}

func init() {
	register(&Rule{
		ID: "warmup.balance-not-negative", Props: []string{"C11"}, Floor: 1,
		Doc: "the warm-up calculator never leaves a negative token balance in storedTokens: a value published into it is a constant >= 0, the result of the refill computation, or a difference whose non-negativity a dominating comparison establishes, and a subtraction applied in place (atomic add of a non-constant or negative delta) is followed, on the branch where its result is below zero, by a reset to 0 on every path. A negative balance is a debt the idle refill must first pay off, so the rule would restart at the full threshold instead of cold",
		Run: func(c *Ctx) {
			n := 0
			isCell := func(addr ssa.Value) bool {
				fa, ok := addr.(*ssa.FieldAddr)
				return ok && fieldName(fa.X.Type(), fa.Field) == "storedTokens" && typeIs(fa.X.Type(), "core/flow", "WarmUpTrafficShapingCalculator")
			}
			var okValue func(v ssa.Value, b *ssa.BasicBlock, extra []Fact, d int) (bool, string)
			okValue = func(v ssa.Value, b *ssa.BasicBlock, extra []Fact, d int) (bool, string) {
				if d > 3 {
					return false, "too deep"
				}
				for _, cs := range splitPhiCases(stripConv(v), b, extra, 0) {
					x := stripConv(resolve(cs.val))
					if k, isK := constInt(x); isK {
						if k < 0 {
							return false, fmt.Sprintf("constant %d", k)
						}
						continue
					}
					switch y := x.(type) {
					case *ssa.Call:
						if cal := y.Call.StaticCallee(); cal != nil && inModule(fnPkgPath(cal)) {
							continue // the refill computation (bounded below by the old balance)
						}
						return false, accessPath(x)
					case *ssa.BinOp:
						if y.Op == token.SUB {
							fs := canonFacts(cs.block, cs.extra...)
							xs, ys, ps := accessPath(y.X), accessPath(y.Y), accessPath(y)
							if fs[ys+" <= "+xs] || fs[ys+" < "+xs] || fs["0 <= "+ps] || fs["0 < "+ps] {
								continue
							}
							return false, ps + " (no dominating comparison shows it is not negative)"
						}
						return false, accessPath(x)
					default:
						return false, accessPath(x)
					}
				}
				return true, ""
			}
			for _, f := range c.P.FuncsIn(modPath + "/core/flow") {
				if isTestOrExample(f) || f.Blocks == nil || strings.HasPrefix(f.Name(), "New") {
					continue
				}
				k := 0
				for _, ci := range callsIn(f) {
					an, ok := atomicFuncName(ci)
					if !ok || len(ci.Common().Args) < 2 || !isCell(ci.Common().Args[0]) {
						continue
					}
					args := ci.Common().Args
					switch an {
					case "StoreInt64", "CompareAndSwapInt64":
						n++
						k++
						v := args[len(args)-1]
						good, why := okValue(v, ci.Block(), nil, 0)
						c.Check(good, fmt.Sprintf("%s / %s#%d", fnKey(f), an, k), ci.Pos(), "the balance published here is never negative (%s)", why)
					case "AddInt64":
						n++
						k++
						key := fmt.Sprintf("%s / %s#%d", fnKey(f), an, k)
						if d, isK := constInt(stripConv(args[1])); isK && d >= 0 {
							c.Hold(key, ci.Pos(), "adds the constant %d", d)
							continue
						}
						res, _ := ci.(ssa.Value)
						good := false
						if res != nil {
							eachInstr(f, func(ins ssa.Instruction) {
								ifi, ok := ins.(*ssa.If)
								if !ok || good {
									return
								}
								for e := 0; e < 2; e++ {
									cc := canonCond(ifi.Cond, e == 0)
									rp := accessPath(res)
									if cc != rp+" < 0" && cc != rp+" <= -1" {
										continue
									}
									s := ifi.Block().Succs[e]
									if len(s.Instrs) == 0 {
										continue
									}
									hit := func(x ssa.Instruction) bool {
										c2, ok := x.(ssa.CallInstruction)
										if !ok {
											return false
										}
										a2, ok := atomicFuncName(c2)
										if !ok || a2 != "StoreInt64" || !isCell(c2.Common().Args[0]) {
											return false
										}
										z, isZ := constInt(c2.Common().Args[1])
										return isZ && z == 0
									}
									if hit(s.Instrs[0]) {
										good = true
									} else if okh, _ := allPathsHit(s.Instrs[0], hit, nil); okh {
										good = true
									}
								}
							})
						}
						c.Check(good, key, ci.Pos(), "after the in-place subtraction the branch `result < 0` resets the balance to 0 on every path")
					}
				}
			}
			if n == 0 {
				c.AnchorLost("atomic writes of WarmUpTrafficShapingCalculator.storedTokens")
			}
		},
	})
}

// Rules added after the eighth round of independently seeded changes.

func init() {
	register(&Rule{
		ID: "reload.equality-tested-for-every-candidate", Props: []string{"C14", "C13"}, Floor: 3,
		Doc: "in each calculateReuseIndexFor the equality test of an old rule against the new one is reached for every old candidate until an equal one is found: the call is not control-dependent on the state of the statistic-reuse search (a test skipped once a statistic donor was seen makes an unchanged rule behind that donor lose its controller / breaker)",
		Run: func(c *Ctx) {
			for _, bn := range builderFuncs {
				b := c.P.Func(bn)
				if b == nil {
					c.AnchorLost(bn)
					continue
				}
				pk := relPkg(fnPkgPath(b))
				f := c.P.Func(pk + ".calculateReuseIndexFor")
				if f == nil {
					c.AnchorLost(pk + ".calculateReuseIndexFor")
					continue
				}
				// loop-carried integer variables of the search (index results): phis of int type in loop headers
				loops := loopBlocks(f)
				var carried []ssa.Value
				eachInstr(f, func(ins ssa.Instruction) {
					if ph, ok := ins.(*ssa.Phi); ok && loops[ph.Block()] && isIntegerT(ph.Type()) && ph.Comment != "rangeindex" {
						// the loop counter itself (i = i + 1) is not state of the search
						counter := false
						for _, e := range ph.Edges {
							if bo, ok := e.(*ssa.BinOp); ok && bo.Op == token.ADD && (bo.X == ssa.Value(ph) || bo.Y == ssa.Value(ph)) {
								counter = true
							}
						}
						if !counter {
							carried = append(carried, ph)
						}
					}
				})
				n := 0
				for _, ci := range callsIn(f) {
					cal := ci.Common().StaticCallee()
					if cal == nil || (cal.Name() != "isEqualsTo" && cal.Name() != "Equals") || !loops[ci.Block()] {
						continue
					}
					n++
					bad := ""
					for _, ft := range condFacts(ci.Block()) {
						if ft.If == nil || !loops[ft.If.Block()] {
							continue
						}
						for _, cv := range carried {
							if dependsOnValue(ft.Cond, func(x ssa.Value) bool { return x == cv }) {
								bad = canonCond(ft.Cond, ft.Truth)
							}
						}
					}
					c.Check(bad == "", fmt.Sprintf("%s / equality-test#%d", fnKey(f), n), ci.Pos(), "the equality test runs for every old candidate (it is skipped under %q, a condition on the search's own state)", bad)
				}
				if n == 0 {
					c.Undecided(fnKey(f)+" / equality-test", f.Pos(), "no equality test of old against new rule inside the search loop")
				}
			}
		},
	})

	register(&Rule{
		ID: "rules.unchanged-answer-is-deep", Props: []string{"C13", "C07", "C14"}, Floor: 8,
		Doc: "a load entry point answers 'unchanged, nothing loaded' (false with a nil error, before any update) only under reflect.DeepEqual of the cached last input and its argument: a hand-written comparison that leaves a field out keeps the old rules in force for a load that differs in that field",
		Run: func(c *Ctx) {
			n := 0
			for _, m := range ruleModules {
				for _, ln := range m.loaders {
					f := c.P.Func(ln)
					if f == nil {
						c.AnchorLost(ln)
						continue
					}
					var updCalls []ssa.Instruction
					for _, ci := range callsIn(f) {
						if cal := ci.Common().StaticCallee(); cal != nil && (strings.HasPrefix(cal.Name(), "on") && strings.HasSuffix(cal.Name(), "Update")) {
							updCalls = append(updCalls, ci.(ssa.Instruction))
						}
					}
					k := 0
					if f.Signature.Results().Len() != 2 {
						continue
					}
					errCases := returnedCases(f, 1)
					for _, cs := range returnedCases(f, 0) {
						cv, isC := stripConv(cs.val).(*ssa.Const)
						if !isC || cv.Value == nil || cv.Value.String() != "false" {
							continue
						}
						errNil := false
						for _, ce := range errCases {
							if ce.block == cs.block && isNilConst(stripConv(ce.val)) {
								errNil = true
							}
						}
						if !errNil || len(cs.block.Instrs) == 0 {
							continue
						}
						// after an update call: the update's own answer, not the unchanged short-cut
						after := false
						for _, u := range updCalls {
							if instrReaches(u, cs.block.Instrs[len(cs.block.Instrs)-1]) {
								after = true
							}
						}
						if after {
							continue
						}
						k++
						n++
						deep := false
						for _, ft := range append(append([]Fact{}, condFacts(cs.block)...), cs.extra...) {
							call, ok := ft.Cond.(*ssa.Call)
							if ok && ft.Truth && isExtCall(call, "reflect.DeepEqual") {
								p0, p1 := accessPath(call.Call.Args[0]), accessPath(call.Call.Args[1])
								if strings.Contains(p0+p1, "currentRules") {
									deep = true
								}
							}
						}
						c.Check(deep, fmt.Sprintf("%s / unchanged#%d", fnKey(f), k), cs.block.Instrs[len(cs.block.Instrs)-1].Pos(), "the 'unchanged' answer is given under reflect.DeepEqual(cached input, argument)")
					}
				}
			}
			if n == 0 {
				c.AnchorLost("'unchanged' returns of the rule loaders")
			}
		},
	})
}

func init() {
	register(&Rule{
		ID: "flow.direct-threshold-verbatim", Props: []string{"C02", "C10"}, Floor: 4,
		Doc: "the Direct calculator hands the checker the rule's threshold unchanged: every store into DirectTrafficShapingCalculator.threshold stores the constructor's threshold parameter itself, CalculateAllowedTokens returns that field, and every constructor call passes a rule's Threshold field (a threshold rounded or clamped on the way makes the reject decision differ from `tokens in window + batch <= T` for fractional T)",
		Run: func(c *Ctx) {
			dc := c.P.Named("core/flow.DirectTrafficShapingCalculator")
			ctor := c.P.Func("core/flow.NewDirectTrafficShapingCalculator")
			calc := c.P.Func("core/flow.(*DirectTrafficShapingCalculator).CalculateAllowedTokens")
			if dc == nil || ctor == nil || calc == nil {
				c.AnchorLost("flow DirectTrafficShapingCalculator / constructor / CalculateAllowedTokens")
				return
			}
			n := 0
			for _, s := range fieldStores(c.P, dc, "threshold") {
				n++
				ok := true
				why := ""
				for _, cs := range splitPhiCases(stripConv(s.st.Val), s.st.Block(), nil, 0) {
					v := resolve(cs.val)
					prm, isP := v.(*ssa.Parameter)
					if !isP || !isFloatT(prm.Type()) {
						ok = false
						why = accessPath(cs.val)
					}
				}
				c.Check(ok, fmt.Sprintf("%s / threshold-store#%d", fnKey(s.fn), n), s.st.Pos(), "the stored threshold is the function's threshold parameter itself (%s)", why)
			}
			okRet := false
			for _, cs := range returnedCases(calc, 0) {
				okRet = strings.HasSuffix(accessPath(stripConv(cs.val)), "{DirectTrafficShapingCalculator}.threshold")
				if !okRet {
					break
				}
			}
			c.Check(okRet, fnKey(calc)+" / returns-threshold", calc.Pos(), "CalculateAllowedTokens returns the stored threshold")
			k := 0
			for _, f := range c.P.FuncsIn(modPath + "/core/flow") {
				if isTestOrExample(f) {
					continue
				}
				for _, ci := range callsIn(f) {
					if !isStaticCallTo(ci, ctor) || len(ci.Common().Args) != 2 {
						continue
					}
					k++
					p := accessPath(stripConv(ci.Common().Args[1]))
					c.Check(strings.HasSuffix(p, ".Threshold"), fmt.Sprintf("%s / direct-calculator#%d", fnKey(f), k), ci.Pos(), "the Direct calculator is built with %s (want the rule's Threshold)", p)
				}
			}
		},
	})
}

func init() {
	register(&Rule{
		ID: "system.validity-rejects-negative", Props: []string{"C13", "C07"}, Floor: 1,
		Doc: "IsValidSystemRule accepts a rule (returns nil) only on paths where its TriggerCount was found not negative, whatever the metric type: a negative trigger is below every reading, so such a rule, once loaded, rejects all inbound traffic",
		Run: func(c *Ctx) {
			f := c.P.Func("core/system.IsValidSystemRule")
			if f == nil {
				c.AnchorLost("system.IsValidSystemRule")
				return
			}
			n := 0
			for _, cs := range returnedCases(f, 0) {
				if !isNilConst(stripConv(cs.val)) {
					continue
				}
				n++
				fs := canonFacts(cs.block, cs.extra...)
				ok := fs["0 <= {Rule}.TriggerCount"] || fs["0 < {Rule}.TriggerCount"]
				c.Check(ok, fmt.Sprintf("%s / accepts#%d", fnKey(f), n), cs.block.Instrs[len(cs.block.Instrs)-1].Pos(), "a rule is accepted only where TriggerCount >= 0 was established (facts: %s)", factList(fs))
			}
			if n == 0 {
				c.Violate(fnKey(f)+" / accepts", f.Pos(), "IsValidSystemRule accepts no rule")
			}
		},
	})
}
