package main

import (
	"encoding/json"
	"fmt"
	"go/token"
	"os"
	"path/filepath"
	"sort"
	"strings"
	"time"
)

type Verdict string

const (
	Holds     Verdict = "holds"
	Violated  Verdict = "violated"
	Undecided Verdict = "undecided"
	Info      Verdict = "info" // evidence only, never affects the exit code
)

// Obligation is one instance of a rule on one construct of the source.
type Obligation struct {
	Rule    string  `json:"rule"`
	Key     string  `json:"key"` // stable construct key (function / what / ordinal), never a line number
	Pos     string  `json:"pos"`
	Verdict Verdict `json:"verdict"`
	Detail  string  `json:"detail,omitempty"`
}

// Rule is a static rule. It may serve several properties.
type Rule struct {
	ID    string   // e.g. "pool-ownership"
	Props []string // properties it is a necessary condition of
	Floor int      // minimum number of obligations confirmed by hand on the reference tree
	Doc   string   // the rule in words (goes to evidence)
	Needs string   // "main" (default) | "adapters" | "main+adapters"
	Run   func(c *Ctx)
}

// Ctx collects obligations of one rule run.
type Ctx struct {
	P        *Program
	Adapters []*Program
	Tier     string
	rule     *Rule
	obls     []Obligation
	stats    map[string]int
	notes    []string
}

func (c *Ctx) add(v Verdict, key string, pos token.Pos, format string, a ...interface{}) {
	ps := "-"
	if c.P != nil && pos.IsValid() {
		ps = c.P.Pos(pos)
	}
	c.obls = append(c.obls, Obligation{Rule: c.rule.ID, Key: key, Pos: ps, Verdict: v, Detail: fmt.Sprintf(format, a...)})
}
func (c *Ctx) addAt(v Verdict, key string, pos string, format string, a ...interface{}) {
	c.obls = append(c.obls, Obligation{Rule: c.rule.ID, Key: key, Pos: pos, Verdict: v, Detail: fmt.Sprintf(format, a...)})
}
func (c *Ctx) Hold(key string, pos token.Pos, f string, a ...interface{}) {
	c.add(Holds, key, pos, f, a...)
}
func (c *Ctx) Violate(key string, pos token.Pos, f string, a ...interface{}) {
	c.add(Violated, key, pos, f, a...)
}
func (c *Ctx) Undecided(key string, pos token.Pos, f string, a ...interface{}) {
	c.add(Undecided, key, pos, f, a...)
}
func (c *Ctx) Info(key string, pos token.Pos, f string, a ...interface{}) {
	c.add(Info, key, pos, f, a...)
}
func (c *Ctx) Check(ok bool, key string, pos token.Pos, f string, a ...interface{}) {
	if ok {
		c.add(Holds, key, pos, f, a...)
	} else {
		c.add(Violated, key, pos, f, a...)
	}
}
func (c *Ctx) Stat(name string, n int) {
	if c.stats == nil {
		c.stats = map[string]int{}
	}
	c.stats[name] += n
}
func (c *Ctx) Note(f string, a ...interface{}) { c.notes = append(c.notes, fmt.Sprintf(f, a...)) }

// AnchorLost reports a construct the rule ranges over that no longer resolves.
func (c *Ctx) AnchorLost(what string) {
	c.obls = append(c.obls, Obligation{Rule: c.rule.ID, Key: "anchor/" + what, Pos: "-", Verdict: Undecided, Detail: "ANCHOR-LOST " + what})
}

// ---------------------------------------------------------------------------------------------
// known findings

type Finding struct {
	Property string `json:"property"` // property ids, comma separated
	Rule     string `json:"rule"`
	Key      string `json:"key"`
	Status   string `json:"status"` // "known" | "fixed"
	Commit   string `json:"commit,omitempty"`
	What     string `json:"what"`
}

func loadFindings(path string) ([]Finding, error) {
	b, err := os.ReadFile(path)
	if err != nil {
		if os.IsNotExist(err) {
			return nil, nil
		}
		return nil, err
	}
	var fs []Finding
	if err := json.Unmarshal(b, &fs); err != nil {
		return nil, err
	}
	return fs, nil
}

func findKnown(fs []Finding, prop string, o Obligation) *Finding {
	for i := range fs {
		f := &fs[i]
		if f.Status != "known" {
			continue
		}
		if f.Rule == o.Rule && f.Key == o.Key && propIn(f.Property, prop) {
			return f
		}
	}
	return nil
}

func propIn(list, p string) bool {
	for _, x := range strings.Split(list, ",") {
		if strings.TrimSpace(x) == p {
			return true
		}
	}
	return false
}

// ---------------------------------------------------------------------------------------------
// evidence

type RuleEvidence struct {
	Rule        string         `json:"rule"`
	Doc         string         `json:"doc"`
	Obligations int            `json:"obligations"`
	Holds       int            `json:"holds"`
	Violated    int            `json:"violated"`
	Known       int            `json:"known_findings"`
	Undecided   int            `json:"undecided"`
	Floor       int            `json:"floor"`
	Stats       map[string]int `json:"stats,omitempty"`
	Notes       []string       `json:"notes,omitempty"`
}

type Evidence struct {
	PropertyID  string                 `json:"property_id"`
	Tier        string                 `json:"tier"`
	Seed        int                    `json:"seed"`
	Level       string                 `json:"level"`
	Coverage    map[string]interface{} `json:"coverage"`
	Assumptions []string               `json:"assumptions"`
	WallS       float64                `json:"wall_s"`
	Violations  int                    `json:"violations"`
}

func writeJSON(path string, v interface{}) error {
	if err := os.MkdirAll(filepath.Dir(path), 0o755); err != nil {
		return err
	}
	b, err := json.MarshalIndent(v, "", " ")
	if err != nil {
		return err
	}
	tmp := path + ".tmp"
	if err := os.WriteFile(tmp, append(b, '\n'), 0o644); err != nil {
		return err
	}
	return os.Rename(tmp, path)
}

type runResult struct {
	prop       string
	tier       string
	start      time.Time
	rules      []RuleEvidence
	obls       []Obligation
	violations []Obligation
	known      []Obligation
	undecided  []Obligation
	covRegress []string
	extra      map[string]interface{}
	assume     []string
}

func (r *runResult) evidence(docs map[string]string, explanation string) Evidence {
	distinct := map[string]bool{}
	discharged := 0
	nObl := 0
	for _, o := range r.obls {
		if o.Verdict == Info {
			continue
		}
		nObl++
		distinct[o.Rule+"|"+o.Key] = true
		if o.Verdict == Holds {
			discharged++
		}
	}
	// samples: first obligation of each rule, plus every non-holding one (bounded)
	var samples []interface{}
	seenRule := map[string]int{}
	for _, o := range r.obls {
		if o.Verdict == Info {
			continue
		}
		if seenRule[o.Rule] < 2 || (o.Verdict != Holds && len(samples) < 60) {
			seenRule[o.Rule]++
			samples = append(samples, o)
		}
	}
	cov := map[string]interface{}{
		"explanation":         explanation,
		"obligations":         nObl,
		"discharged":          discharged,
		"evaluations":         nObl,
		"distinct_nontrivial": len(distinct),
		"rule":                "one evaluation = one (rule, construct) obligation decided on the current source of /repo; distinct = distinct (rule id, construct key); non-trivial = the construct was resolved in the type-checked program and the rule's oracle was applied to it (anchors that fail to resolve are errors, never counted)",
		"samples":             samples,
		"rules":               r.rules,
		"exhaustive":          true,
		"checker_cmd":         fmt.Sprintf("bin/sgcheck -property %s -tier %s", r.prop, r.tier),
		"trusted_base":        []string{"go/types, go/ssa, go/cfg, go/callgraph (golang.org/x/tools v0.29.0)", "the rule tables in /verif/checker (read and frozen by hand)"},
	}
	for k, v := range r.extra {
		cov[k] = v
	}
	var infos []Obligation
	for _, o := range r.obls {
		if o.Verdict == Info {
			infos = append(infos, o)
		}
	}
	if len(infos) > 0 {
		if len(infos) > 40 {
			infos = infos[:40]
		}
		cov["reported_only"] = infos
	}
	return Evidence{
		PropertyID:  r.prop,
		Tier:        r.tier,
		Seed:        seedFromEnv(),
		Level:       "other",
		Coverage:    cov,
		Assumptions: r.assume,
		WallS:       time.Since(r.start).Seconds(),
		Violations:  len(r.violations),
	}
}

func seedFromEnv() int {
	var s int
	fmt.Sscanf(os.Getenv("VERIF_SEED"), "%d", &s)
	return s
}

func sortObls(o []Obligation) {
	sort.SliceStable(o, func(i, j int) bool {
		if o[i].Rule != o[j].Rule {
			return o[i].Rule < o[j].Rule
		}
		return o[i].Key < o[j].Key
	})
}
