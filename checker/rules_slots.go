package main

import (
	"fmt"
	"go/constant"
	"go/token"
	"go/types"
	"os"
	"regexp"
	"sort"
	"strings"

	"golang.org/x/tools/go/ssa"
)

// Isolation (C04), system (C07) and outlier (C20) slot rules.

func narrowInt(t types.Type) bool {
	b, ok := t.Underlying().(*types.Basic)
	if !ok {
		return false
	}
	switch b.Kind() {
	case types.Uint8, types.Uint16, types.Uint32, types.Int8, types.Int16, types.Int32:
		return true
	}
	return false
}

func isComparison(op token.Token) bool {
	switch op {
	case token.LSS, token.LEQ, token.GTR, token.GEQ, token.EQL, token.NEQ:
		return true
	}
	return false
}

// factsWithPrefix returns canonical facts containing all of the substrings.
func anyFact(fs map[string]bool, subs ...string) (string, bool) {
	var keys []string
	for k := range fs {
		keys = append(keys, k)
	}
	sort.Strings(keys)
	for _, k := range keys {
		ok := true
		for _, s := range subs {
			if !strings.Contains(k, s) {
				ok = false
			}
		}
		if ok {
			return k, true
		}
	}
	return "", false
}

func init() {
	register(&Rule{
		ID: "no-narrow-overflow", Props: []string{"C04"}, Floor: 1,
		Doc: "in the functions reachable from the library's RuleCheckSlot.Check implementations, an integer + or * on operands of an explicitly sized type narrower than 64 bits (not both constant) never feeds a comparison directly: the admission sum must be formed in a type wide enough for any batch count",
		Run: func(c *Ctx) {
			_, order := c.P.Reach(ruleCheckImpls(c.P), false)
			n, examined := 0, 0
			for _, f := range order {
				rp := relPkg(fnPkgPath(f))
				if !strings.HasPrefix(rp, "core/") {
					continue
				}
				ord := 0
				eachInstr(f, func(ins ssa.Instruction) {
					b, ok := ins.(*ssa.BinOp)
					if !ok || !narrowInt(b.Type()) {
						return
					}
					if b.Op == token.SUB {
						// unsigned narrow subtraction feeding a comparison: wraps when the subtrahend is larger
						if !isUnsigned(b.Type()) {
							return
						}
						if _, yc := b.Y.(*ssa.Const); yc {
							return
						}
						examined++
						fs := canonFacts(b.Block())
						x, y := accessPath(b.X), accessPath(b.Y)
						if fs[y+" <= "+x] || fs[y+" < "+x] {
							return
						}
						for _, ref := range refsOf(b) {
							cmp, ok := ref.(*ssa.BinOp)
							if !ok || !isComparison(cmp.Op) {
								continue
							}
							n++
							ord++
							c.Violate(fmt.Sprintf("%s / narrow-sub#%d", fnKey(f), ord), b.Pos(), "%s is an unsigned %s subtraction without a dominating %s <= %s guard and feeds the comparison %s: when the subtrahend exceeds the minuend (e.g. in-flight already above a lowered threshold, or the tolerated concurrent overshoot) it wraps to a huge value and the limit test admits everything", accessPath(b), b.Type(), y, x, canonCond(cmp, true))
						}
						return
					}
					if b.Op != token.ADD && b.Op != token.MUL {
						return
					}
					_, xc := b.X.(*ssa.Const)
					_, yc := b.Y.(*ssa.Const)
					if xc || yc {
						// one side constant: counters (x+1) are bounded by program logic, not by a caller-supplied batch
						if xc && yc {
							return
						}
						if ph, ok := b.X.(*ssa.Phi); ok && ph.Comment == "rangeindex" {
							return
						}
					}
					examined++
					for _, ref := range refsOf(b) {
						cmp, ok := ref.(*ssa.BinOp)
						if !ok || !isComparison(cmp.Op) {
							continue
						}
						n++
						ord++
						key := fmt.Sprintf("%s / narrow-%s#%d", fnKey(f), map[token.Token]string{token.ADD: "add", token.MUL: "mul"}[b.Op], ord)
						if xc || yc {
							c.Info(key, b.Pos(), "%s in %s compared in %s (one operand constant)", accessPath(b), b.Type(), canonCond(cmp, true))
							continue
						}
						c.Violate(key, b.Pos(), "%s is computed in %s and compared (%s): a large batch count wraps the sum around and the request is admitted although the limit is exceeded", accessPath(b), b.Type(), canonCond(cmp, true))
					}
				})
			}
			c.Stat("narrow_arith_examined", examined)
			c.Hold("rule-check cone / narrow-arith-scan", 0, "scanned %d functions, %d narrow +/* with variable operands, %d feed comparisons", len(order), examined, n)
		},
	})

	register(&Rule{
		ID: "isolation.check-shape", Props: []string{"C04"}, Floor: 4,
		Doc: "isolation.checkPass reads CurrentConcurrency of ctx.StatNode (the gauge the statistic slot increments on pass and decrements on completion), visits every rule of the resource, rejects from inside the loop at the first rule whose comparison of (current + batch) with the rule's threshold fails and passes only after the loop; Slot.Check blocks with BlockTypeIsolation exactly when checkPass rejected, with the read gauge as snapshot",
		Run: func(c *Ctx) {
			cp := c.P.Func("core/isolation.checkPass")
			chk := c.P.Func("core/isolation.(*Slot).Check")
			if cp == nil || chk == nil {
				c.AnchorLost("isolation.checkPass / Slot.Check")
				return
			}
			ng := 0
			for _, ci := range callsIn(cp) {
				if ci.Common().IsInvoke() && ci.Common().Method.Name() == "CurrentConcurrency" {
					ng++
					recv := accessPath(ci.Common().Value)
					c.Check(recv == "{EntryContext}.StatNode", fnKey(cp)+" / gauge-source", ci.Pos(), "reads CurrentConcurrency of %s (want the context's StatNode)", recv)
				}
			}
			if ng == 0 {
				c.Violate(fnKey(cp)+" / gauge-source", cp.Pos(), "isolation no longer reads the in-flight gauge")
			}
			for i, r := range returnsOf(cp) {
				key := fmt.Sprintf("%s / return#%d", fnKey(cp), i+1)
				cv, ok := returnPart(r, 0).(*ssa.Const)
				if ok && cv.Value == nil && isBoolT(cv.Type()) {
					cv = ssa.NewConst(constant.MakeBool(false), cv.Type()) // field left at its zero value
				}
				if !ok || cv.Value == nil || cv.Value.Kind() != constant.Bool {
					c.Undecided(key, r.Pos(), "non-constant pass flag")
					continue
				}
				fs := canonFacts(r.Block())
				// facts that depend on the rule being looked at (its threshold / metric type): a return under such a fact
				// belongs to one iteration of the scan, a return under none of them comes after the scan
				_, perRule := anyFact(fs, ".Threshold")
				if !perRule {
					_, perRule = anyFact(fs, ".MetricType")
				}
				if constant.BoolVal(cv.Value) {
					c.Check(!perRule, key, r.Pos(), "pass is returned only after every rule was visited (not under a condition on a single rule)")
				} else {
					f, ok := anyFact(fs, "CurrentConcurrency()", "batchCount", ".Threshold")
					if !ok {
						f, ok = anyFact(fs, "CurrentConcurrency()", "BatchCount", ".Threshold")
					}
					rulep := accessPath(returnPart(r, 1))
					c.Check(ok && strings.Contains(rulep, "getRulesOfResource"), key, r.Pos(), "reject under %q returning the violated rule %s", f, rulep)
				}
			}
			nb := 0
			for _, ci := range callsIn(chk) {
				bt, ok := blockedResultCall(ci)
				if !ok {
					continue
				}
				nb++
				dom := false
				for _, ft := range factsAt(ci.(ssa.Instruction)) {
					if call, idx, ok := callPart(ft.Cond); ok && idx == 0 && !ft.Truth && isStaticCallTo(call, cp) {
						dom = true
					}
				}
				args := ci.Common().Args
				snap := accessPath(args[len(args)-1])
				snapOK := strings.Contains(snap, "checkPass({EntryContext})#2")
				if call, idx, ok := callPart(args[len(args)-1]); ok && idx == 2 && isStaticCallTo(call, cp) {
					snapOK = true
				}
				c.Check(dom && bt == "BlockTypeIsolation" && snapOK, fmt.Sprintf("%s / blocked#%d", fnKey(chk), nb), ci.Pos(), "blocked with %s under checkPass()==false (%v), snapshot %s", bt, dom, snap)
			}
			if nb == 0 {
				c.Violate(fnKey(chk)+" / blocked", chk.Pos(), "isolation slot never blocks")
			}
		},
	})

	// ------------------------------------------------------------------------------------ C07

	register(&Rule{
		ID: "system.inbound-gate", Props: []string{"C07"}, Floor: 3,
		Doc: "in system.AdaptiveSlot.Check every blocked result is built on the branch where ctx.Resource.FlowType()==Inbound and inside the loop over getRules() under doCheckRule()==false with BlockTypeSystemFlow; on the non-inbound branch nil is returned",
		Run: func(c *Ctx) {
			f := c.P.Func("core/system.(*AdaptiveSlot).Check")
			dcr := c.P.Func("core/system.(*AdaptiveSlot).doCheckRule")
			if f == nil || dcr == nil {
				c.AnchorLost("system.AdaptiveSlot.Check/doCheckRule")
				return
			}
			inb, _ := constValue(c.P, "core/base.Inbound")
			gateEq := fmt.Sprintf("%d == {EntryContext}.Resource.FlowType()", inb)
			gateNe := fmt.Sprintf("%d != {EntryContext}.Resource.FlowType()", inb)
			nb := 0
			for _, ci := range callsIn(f) {
				bt, ok := blockedResultCall(ci)
				if !ok {
					continue
				}
				nb++
				fs := canonFacts(ci.Block())
				failed := false
				for _, ft := range factsAt(ci.(ssa.Instruction)) {
					if ex, ok := ft.Cond.(*ssa.Extract); ok && ex.Index == 0 && !ft.Truth {
						if call, ok := ex.Tuple.(*ssa.Call); ok && isStaticCallTo(call, dcr) {
							failed = strings.Contains(accessPath(call.Call.Args[1]), "getRules()")
						}
					}
				}
				c.Check(fs[gateEq] && failed && bt == "BlockTypeSystemFlow", fmt.Sprintf("%s / blocked#%d", fnKey(f), nb), ci.Pos(), "blocked with %s; inbound gate dominates=%v; under doCheckRule(rule of getRules())==false=%v", bt, fs[gateEq], failed)
			}
			if nb == 0 {
				c.Violate(fnKey(f)+" / blocked", f.Pos(), "system slot never blocks")
			}
			okNil := false
			eachInstr(f, func(ins ssa.Instruction) {
				ifi, ok := ins.(*ssa.If)
				if !ok {
					return
				}
				for i := 0; i < 2; i++ {
					if canonCond(ifi.Cond, i == 0) != gateNe {
						continue
					}
					s := ifi.Block().Succs[i]
					reach := blockReach(s)
					reach[s] = true
					good := true
					for b := range reach {
						for _, x := range b.Instrs {
							if r, ok := x.(*ssa.Return); ok && !isNilConst(r.Results[0]) {
								good = false
							}
							if ci, ok := x.(ssa.CallInstruction); ok {
								if _, isB := blockedResultCall(ci); isB {
									good = false
								}
							}
						}
					}
					okNil = good
					c.Check(good, fnKey(f)+" / outbound-passes", ifi.Pos(), "on the FlowType()!=Inbound branch only `return nil` is reachable")
				}
			})
			if !okNil {
				// the gate may be a helper's boolean (a phi after expansion) rather than one comparison: then every exit
				// that hands back something other than nil, and every evaluation of a rule, lies under the established
				// fact FlowType()==Inbound, and some exit returning nil does not
				under, free := true, false
				eachInstr(f, func(ins ssa.Instruction) {
					switch x := ins.(type) {
					case *ssa.Return:
						for _, cs := range returnValueCases(x, 0) {
							fs := canonFacts(cs.block, cs.extra...)
							if isNilConst(stripConv(cs.val)) {
								if !fs[gateEq] {
									free = true
								}
							} else if !fs[gateEq] {
								under = false
							}
						}
					case ssa.CallInstruction:
						if isStaticCallTo(x, dcr) && !canonFacts(x.Block())[gateEq] {
							under = false
						}
					}
				})
				c.Check(under && free, fnKey(f)+" / outbound-branch", f.Pos(), "outbound traffic returns nil before any system rule is evaluated: every rule evaluation and every non-nil result lies under FlowType()==Inbound (%v) and a nil return does not (%v)", under, free)
			}
		},
	})

	register(&Rule{
		ID: "system.metric-sources", Props: []string{"C07"}, Floor: 7,
		Doc: "for each MetricType case of doCheckRule the value compared with rule.TriggerCount comes from the table InboundQPS->InboundNode().GetQPS(Pass), Concurrency->InboundNode().CurrentConcurrency(), AvgRT->InboundNode().AvgRT(), Load->system_metric.CurrentLoad(), CpuUsage->system_metric.CurrentCpuUsage(); checkBbrSimple is consulted only under Strategy==BBR and reads concurrency, MinRT and GetMaxAvg(Complete) of the inbound node; every MetricType constant below MetricTypeSize has a case and IsValidSystemRule rejects the others",
		Run: func(c *Ctx) {
			f := c.P.Func("core/system.(*AdaptiveSlot).doCheckRule")
			valid := c.P.Func("core/system.IsValidSystemRule")
			if f == nil || valid == nil {
				c.AnchorLost("system.doCheckRule / IsValidSystemRule")
				return
			}
			want := map[string][]string{
				"InboundQPS":  {"core/stat.InboundNode()", ".GetQPS(0)"},
				"Concurrency": {"core/stat.InboundNode()", ".CurrentConcurrency()"},
				"AvgRT":       {"core/stat.InboundNode()", ".AvgRT()"},
				"Load":        {"system_metric.CurrentLoad()"},
				"CpuUsage":    {"system_metric.CurrentCpuUsage()"},
			}
			mt := c.P.Named("core/system.MetricType")
			size, okSize := constValue(c.P, "core/system.MetricTypeSize")
			if mt == nil || !okSize {
				c.AnchorLost("system.MetricType / MetricTypeSize")
				return
			}
			cases := map[int64]bool{}
			// every comparison of rule.MetricType with a constant is a case
			eachInstr(f, func(ins ssa.Instruction) {
				b, ok := ins.(*ssa.BinOp)
				if !ok || b.Op != token.EQL {
					return
				}
				if k, ok := constInt(b.Y); ok && accessPath(b.X) == "{Rule}.MetricType" {
					cases[k] = true
				}
				if k, ok := constInt(b.X); ok && accessPath(b.Y) == "{Rule}.MetricType" {
					cases[k] = true
				}
			})
			tableMode := len(cases) == 0 && systemMetricTable(c, f, mt, size, want)
			for k := int64(0); k < size && !tableMode; k++ {
				name := constName(mt, k)
				c.Check(cases[k], fmt.Sprintf("%s / case %s", fnKey(f), name), f.Pos(), "MetricType %s (=%d) has a case in doCheckRule", name, k)
			}
			// per-case source of the compared value: look at comparisons against rule.TriggerCount
			seen := map[string]bool{}
			eachInstr(f, func(ins ssa.Instruction) {
				b, ok := ins.(*ssa.BinOp)
				if !ok || tableMode || !isComparison(b.Op) || b.Op == token.EQL || b.Op == token.NEQ {
					return
				}
				x, y := accessPath(b.X), accessPath(b.Y)
				var src string
				switch {
				case y == "{Rule}.TriggerCount":
					src = x
				case x == "{Rule}.TriggerCount":
					src = y
				default:
					return
				}
				// which case are we in?
				fs := canonFacts(b.Block())
				caseName := ""
				for k := int64(0); k < size; k++ {
					if fs[fmt.Sprintf("%d == {Rule}.MetricType", k)] {
						caseName = constName(mt, k)
					}
				}
				if caseName == "" {
					c.Violate(fnKey(f)+" / compare-outside-case", b.Pos(), "comparison with TriggerCount outside a MetricType case")
					return
				}
				seen[caseName] = true
				ok2 := true
				for _, w := range want[caseName] {
					if !strings.Contains(src, w) {
						ok2 = false
					}
				}
				if strings.Contains(src, "{EntryContext}") {
					ok2 = false
				}
				c.Check(ok2, fmt.Sprintf("%s / source %s", fnKey(f), caseName), b.Pos(), "case %s compares %s with rule.TriggerCount (want %v)", caseName, src, want[caseName])
			})
			for name := range want {
				if !seen[name] && !tableMode {
					c.Violate(fmt.Sprintf("%s / source %s", fnKey(f), name), f.Pos(), "case %s no longer compares its metric with rule.TriggerCount", name)
				}
			}
			// BBR: the capacity estimate (minimum RT, peak completion rate, in-flight count of the inbound node) is
			// consulted only for Strategy==BBR. The estimate's helper is inlined into doCheckRule before analysis.
			bbrV, _ := constValue(c.P, "core/system.BBR")
			reads := map[string]bool{}
			nbbr := 0
			bbrFact := fmt.Sprintf("%d == {Rule}.Strategy", bbrV)
			scopeFns := withNewHelpers([]*ssa.Function{f})
			var underBBR func(ins ssa.Instruction, d int) bool
			underBBR = func(ins ssa.Instruction, d int) bool {
				if canonFacts(ins.Block())[bbrFact] {
					return true
				}
				g := ins.Parent()
				if g == f || d > 2 {
					return false
				}
				// a helper: every call site inside the scope must be under the fact
				n := 0
				for _, h := range scopeFns {
					for _, ci := range callsIn(h) {
						if isStaticCallTo(ci, g) {
							n++
							if !underBBR(ci.(ssa.Instruction), d+1) {
								return false
							}
						}
					}
				}
				return n > 0
			}
			for _, g := range scopeFns {
				for _, ci := range callsIn(g) {
					cal := ci.Common().StaticCallee()
					if cal == nil || len(ci.Common().Args) == 0 {
						continue
					}
					v, isV := ci.(ssa.Value)
					if !isV || !strings.Contains(accessPath(v), "core/stat.InboundNode()") {
						continue
					}
					switch cal.Name() {
					case "MinRT", "GetMaxAvg":
						nbbr++
						c.Check(underBBR(ci.(ssa.Instruction), 0), fmt.Sprintf("%s / bbr#%d", fnKey(f), nbbr), ci.Pos(), "capacity estimate (%s) consulted only for Strategy==BBR", cal.Name())
						reads[cal.Name()+"("+argConsts(ci)+")"] = true
					case "CurrentConcurrency":
						if underBBR(ci.(ssa.Instruction), 0) {
							reads[cal.Name()+"("+argConsts(ci)+")"] = true
						}
					}
				}
			}
			var rl []string
			for k := range reads {
				rl = append(rl, k)
			}
			sort.Strings(rl)
			got := strings.Join(rl, " ")
			c.Check(got == "CurrentConcurrency() GetMaxAvg(MetricEventComplete) MinRT()", fnKey(f)+" / bbr-reads", f.Pos(), "BBR estimate reads [%s] of the inbound node (want CurrentConcurrency, GetMaxAvg(Complete), MinRT)", got)
			// validity
			okV := false
			for _, r := range returnsOf(valid) {
				if !isNilConst(r.Results[0]) {
					continue
				}
				fs := canonFacts(r.Block())
				if fs[fmt.Sprintf("{Rule}.MetricType < %d", size)] {
					okV = true
				}
			}
			c.Check(okV, fnKey(valid)+" / rejects-unknown-metric", valid.Pos(), "IsValidSystemRule accepts only MetricType < MetricTypeSize")
		},
	})

	// ------------------------------------------------------------------------------------ C20

	register(&Rule{
		ID: "outlier.capped-append", Props: []string{"C20"}, Floor: 3,
		Doc: "in outlier.checkAllNodes every append to the filter list (the first result, handed to SetFilterNodes) is on the TryPass()==false branch of the current node and dominated by len(thatList) < int(float64(len(nodeBreakers)) * rule.MaxEjectionPercent) on the very slice value appended to; half-open nodes are collected exactly under TryPass && !EnableActiveRecovery && CurrentState()==HalfOpen; IsValidRule bounds MaxEjectionPercent to [0,1]",
		Run: func(c *Ctx) {
			f := c.P.Func("core/outlier.checkAllNodes")
			valid := c.P.Func("core/outlier.IsValidRule")
			if f == nil || valid == nil {
				c.AnchorLost("outlier.checkAllNodes / IsValidRule")
				return
			}
			rets := returnsOf(f)
			if len(rets) == 0 {
				c.AnchorLost("returns of checkAllNodes")
				return
			}
			// the three lists come back as three results, or as the fields of one small struct assembled in a local
			// (roles by field name: *filter*, *outlier*, *half*)
			var resAlloc *ssa.Alloc
			roleField := map[int]int{}
			if f.Signature.Results().Len() == 1 {
				if st, ok := f.Signature.Results().At(0).Type().Underlying().(*types.Struct); ok {
					for k := 0; k < st.NumFields(); k++ {
						ln := strings.ToLower(st.Field(k).Name())
						switch {
						case strings.Contains(ln, "filter"):
							roleField[0] = k
						case strings.Contains(ln, "outlier"):
							roleField[1] = k
						case strings.Contains(ln, "half"):
							roleField[2] = k
						}
					}
					for _, r := range rets {
						if ld, ok := r.Results[0].(*ssa.UnOp); ok && ld.Op == token.MUL {
							if al, ok := ld.X.(*ssa.Alloc); ok {
								resAlloc = al
							}
						}
					}
				}
				if resAlloc == nil || len(roleField) != 3 {
					c.Undecided(fnKey(f)+" / result-shape", f.Pos(), "checkAllNodes returns neither three lists nor a struct with filter / outlier / half-open lists assembled in a local")
					return
				}
			} else if f.Signature.Results().Len() < 3 {
				c.Undecided(fnKey(f)+" / result-shape", f.Pos(), "checkAllNodes no longer returns the filter, outlier and half-open lists")
				return
			}
			// sameList: two reads of the same list variable (the same SSA value, or two loads of one field of the result struct)
			sameList := func(a, b ssa.Value) bool {
				if a == b {
					return true
				}
				la, ok1 := a.(*ssa.UnOp)
				lb, ok2 := b.(*ssa.UnOp)
				if !ok1 || !ok2 {
					return false
				}
				fa, ok1 := la.X.(*ssa.FieldAddr)
				fb, ok2 := lb.X.(*ssa.FieldAddr)
				return ok1 && ok2 && fa.X == fb.X && fa.Field == fb.Field
			}
			// appends flowing into result i
			appendsInto := func(idx int) []*ssa.Call {
				var out []*ssa.Call
				if resAlloc != nil {
					for _, r := range refsOf(resAlloc) {
						fa, ok := r.(*ssa.FieldAddr)
						if !ok || fa.Field != roleField[idx] {
							continue
						}
						for _, r2 := range refsOf(fa) {
							if st, ok := r2.(*ssa.Store); ok && st.Addr == ssa.Value(fa) {
								if call, ok := st.Val.(*ssa.Call); ok {
									if b, ok := call.Call.Value.(*ssa.Builtin); ok && b.Name() == "append" {
										out = append(out, call)
									}
								}
							}
						}
					}
					return out
				}
				seen := map[ssa.Value]bool{}
				var visit func(v ssa.Value)
				visit = func(v ssa.Value) {
					if seen[v] {
						return
					}
					seen[v] = true
					switch x := v.(type) {
					case *ssa.Phi:
						for _, e := range x.Edges {
							visit(e)
						}
					case *ssa.Call:
						if b, ok := x.Call.Value.(*ssa.Builtin); ok && b.Name() == "append" {
							out = append(out, x)
							visit(x.Call.Args[0])
						}
					}
				}
				for _, r := range rets {
					visit(r.Results[idx])
				}
				return out
			}
			halfOpen, _ := constValue(c.P, "core/circuitbreaker.HalfOpen")
			// filters
			fa := appendsInto(0)
			for i, ap := range fa {
				key := fmt.Sprintf("%s / append(filters)#%d", fnKey(f), i+1)
				rejected := false
				capped := false
				for _, ft := range factsAt(ap) {
					if call, ok := ft.Cond.(*ssa.Call); ok && call.Call.IsInvoke() && call.Call.Method.Name() == "TryPass" && !ft.Truth {
						rejected = true
					}
					b, ok := ft.Cond.(*ssa.BinOp)
					if !ok {
						continue
					}
					lhs, rhs, op := b.X, b.Y, b.Op
					if !ft.Truth {
						continue
					}
					if op == token.GTR {
						lhs, rhs, op = rhs, lhs, token.LSS
					}
					if op != token.LSS {
						continue
					}
					lc, ok := lhs.(*ssa.Call)
					if !ok {
						continue
					}
					if bi, ok := lc.Call.Value.(*ssa.Builtin); !ok || bi.Name() != "len" || !sameList(lc.Call.Args[0], ap.Call.Args[0]) {
						continue
					}
					// every alternative of the bound is the cap itself or 0 (a defensive "no nodes" answer is below any cap)
					okAll, some := true, false
					// leaves of the bound through phis, loop-carried ones included (a cap computed lazily inside the loop)
					var leaves []ssa.Value
					seenL := map[ssa.Value]bool{}
					var walkL func(v ssa.Value)
					walkL = func(v ssa.Value) {
						if seenL[v] {
							return
						}
						seenL[v] = true
						if ph, isPhi := v.(*ssa.Phi); isPhi {
							for _, e := range ph.Edges {
								walkL(e)
							}
							return
						}
						leaves = append(leaves, v)
					}
					for _, cs := range splitPhiCases(rhs, b.Block(), nil, 0) {
						walkL(cs.val)
					}
					for _, leaf := range leaves {
						cs := retCase{val: leaf}
						if k, isK := constInt(stripConv(cs.val)); isK && k == 0 {
							continue
						}
						rp := accessPath(cs.val)
						if strings.Contains(rp, "MaxEjectionPercent") && strings.Contains(rp, "builtin len(core/outlier.getNodeBreakersOfResource(") && strings.HasPrefix(rp, "int(") {
							some = true
						} else {
							okAll = false
							if os.Getenv("SG_DEBUG_CAP") != "" {
								fmt.Fprintln(os.Stderr, "cap alternative:", rp)
							}
						}
					}
					if okAll && some {
						capped = true
					}
				}
				c.Check(rejected && capped, key, ap.Pos(), "append on TryPass()==false branch: %v; dominated by len(list) < int(float64(len(nodeBreakers))*MaxEjectionPercent) on the same slice value: %v", rejected, capped)
			}
			if len(fa) == 0 {
				c.Violate(fnKey(f)+" / append(filters)", f.Pos(), "no node is ever reported for filtering")
			}
			// the slice given to SetFilterNodes is result 0
			if chk := c.P.Func("core/outlier.(*Slot).Check"); chk != nil {
				for _, ci := range callsIn(chk) {
					// result `role` of the checkAllNodes call: tuple element, or the corresponding field of the result struct
					isResult := func(v ssa.Value, role int) (bool, string) {
						p := accessPath(v)
						if p == fmt.Sprintf("core/outlier.checkAllNodes({EntryContext})#%d", role) {
							return true, p
						}
						if resAlloc == nil {
							return false, p
						}
						var base ssa.Value
						fld := -1
						switch x := stripConv(v).(type) {
						case *ssa.Field:
							base, fld = x.X, x.Field
						case *ssa.UnOp:
							if fa, ok := x.X.(*ssa.FieldAddr); ok && x.Op == token.MUL {
								if al, ok := fa.X.(*ssa.Alloc); ok {
									base, fld = allocSingleStore(al), fa.Field
								}
							}
						}
						if base == nil || fld != roleField[role] {
							return false, p
						}
						call, ok := resolve(base).(*ssa.Call)
						return ok && call.Call.StaticCallee() == f, p
					}
					if cal := ci.Common().StaticCallee(); cal != nil && cal.Name() == "SetFilterNodes" {
						ok, p := isResult(ci.Common().Args[1], 0)
						c.Check(ok, fnKey(chk)+" / SetFilterNodes", ci.Pos(), "filter nodes = %s", p)
					}
					if cal := ci.Common().StaticCallee(); cal != nil && cal.Name() == "SetHalfOpenNodes" {
						ok, p := isResult(ci.Common().Args[1], 2)
						c.Check(ok, fnKey(chk)+" / SetHalfOpenNodes", ci.Pos(), "half-open nodes = %s", p)
					}
				}
			}
			// half-open list
			for i, ap := range appendsInto(2) {
				key := fmt.Sprintf("%s / append(halfs)#%d", fnKey(f), i+1)
				passed, passive, half := false, false, false
				for _, ft := range factsAt(ap) {
					if call, ok := ft.Cond.(*ssa.Call); ok && call.Call.IsInvoke() && call.Call.Method.Name() == "TryPass" && ft.Truth {
						passed = true
					}
				}
				fs := canonFacts(ap.Block())
				for k := range fs {
					if strings.HasPrefix(k, "!") && strings.HasSuffix(k, ".EnableActiveRecovery") {
						passive = true
					}
					if strings.HasPrefix(k, fmt.Sprintf("%d == ", halfOpen)) && strings.HasSuffix(k, ".CurrentState()") {
						half = true
					}
				}
				c.Check(passed && passive && half, key, ap.Pos(), "half-open node collected under TryPass=%v, !EnableActiveRecovery=%v, state==HalfOpen=%v", passed, passive, half)
			}
			// validity
			okV := false
			for _, r := range returnsOf(valid) {
				if !isNilConst(r.Results[0]) {
					continue
				}
				fs := canonFacts(r.Block())
				if fs["0 <= {Rule}.MaxEjectionPercent"] && fs["{Rule}.MaxEjectionPercent <= 1"] {
					okV = true
				}
			}
			c.Check(okV, fnKey(valid)+" / percent-in-unit-interval", valid.Pos(), "IsValidRule accepts only 0 <= MaxEjectionPercent <= 1")
		},
	})

	register(&Rule{
		ID: "outlier.success-recovers", Props: []string{"C20"}, Floor: 2,
		Doc: "outlier.MetricStatSlot.OnCompleted marks the node recovered exactly when the request completed without error; Recycler.recycle removes a node's breaker only when its status is still false (never recovered)",
		Run: func(c *Ctx) {
			f := c.P.Func("core/outlier.(*MetricStatSlot).OnCompleted")
			rec := c.P.Func("core/outlier.(*Recycler).recover")
			recycle := c.P.Func("core/outlier.(*Recycler).recycle")
			del := c.P.Func("core/outlier.deleteNodeBreakerOfResource")
			if f == nil || rec == nil || recycle == nil || del == nil {
				c.AnchorLost("outlier stat slot / recycler")
				return
			}
			n := 0
			for _, ci := range callsIn(f) {
				if !isStaticCallTo(ci, rec) {
					continue
				}
				n++
				fs := canonFacts(ci.Block())
				okErr := fs["{EntryContext}.Err() == nil"] || fs["nil == {EntryContext}.Err()"]
				extra := ""
				for k := range fs {
					if outlierRecoverAllowed(k) {
						continue
					}
					extra = k
				}
				c.Check(okErr && extra == "", fmt.Sprintf("%s / recover#%d", fnKey(f), n), ci.Pos(), "node marked recovered under [%s]: want exactly 'err == nil' for a known address (extra condition: %q - a successful completion that does not satisfy it leaves the node to be recycled)", factList(fs), extra)
			}
			if n == 0 {
				c.Violate(fnKey(f)+" / recover", f.Pos(), "a successful completion no longer marks the node as recovered: healthy nodes are recycled")
			}
			m := 0
			for _, ci := range callsIn(recycle) {
				if !isStaticCallTo(ci, del) {
					continue
				}
				m++
				ok := false
				for k := range canonFacts(ci.Block()) {
					if strings.HasPrefix(k, "!") && strings.Contains(k, ".status[") {
						ok = true
					}
				}
				c.Check(ok, fmt.Sprintf("%s / delete#%d", fnKey(recycle), m), ci.Pos(), "breaker deleted only when the recorded status is false")
			}
			if m == 0 {
				c.Violate(fnKey(recycle)+" / delete", recycle.Pos(), "recycle never deletes")
			}
		},
	})
}

// outlierRecoverAllowed: the conditions under which OnCompleted may call recover mention only the completion's
// error and its node address; anything else (a breaker state, a counter, ...) is an extra condition.
func outlierRecoverAllowed(k string) bool {
	for _, t := range []string{`{EntryContext}.GetPair("address").(string)#0`, `{EntryContext}.GetPair("address").(string)#1`, `{EntryContext}.Err()`} {
		k = strings.ReplaceAll(k, t, "")
	}
	return outlierRest.MatchString(k)
}

var outlierRest = regexp.MustCompile(`^(len\(\)|nil|[!"=<> 0-9()])*$`)

func argConsts(ci ssa.CallInstruction) string {
	var out []string
	args := ci.Common().Args
	if cal := ci.Common().StaticCallee(); cal != nil && cal.Signature.Recv() != nil && len(args) > 0 {
		args = args[1:]
	}
	for _, a := range args {
		out = append(out, constArgName(a))
	}
	return strings.Join(out, ",")
}

func init() {
	register(&Rule{
		ID: "outlier.recycler-created-once", Props: []string{"C20"}, Floor: 1,
		Doc: "a resource's Recycler (whose status map records which queued nodes have recovered, and which the armed recycle timers consult when they fire) is created once and then kept: every store into the recyclers map happens only where a lookup of that very resource found no recycler. Replacing the recycler of a resource while timers of the old one are armed sends later recover() calls to the new object; the old timers still see 'not recovered' and delete the breaker of a healthy node",
		Run: func(c *Ctx) {
			g := c.P.Global("core/outlier.recyclers")
			if g == nil {
				c.AnchorLost("core/outlier.recyclers")
				return
			}
			n := 0
			for _, f := range c.P.FuncsIn(modPath + "/core/outlier") {
				if isTestOrExample(f) {
					continue
				}
				eachInstr(f, func(ins ssa.Instruction) {
					mu, ok := ins.(*ssa.MapUpdate)
					if !ok {
						return
					}
					if ld, ok := mu.Map.(*ssa.UnOp); !ok || ld.X != ssa.Value(g) {
						return
					}
					n++
					absent := false
					eachInstr(f, func(x ssa.Instruction) {
						lk, ok := x.(*ssa.Lookup)
						if !ok {
							return
						}
						if ld, ok := lk.X.(*ssa.UnOp); ok && ld.X == ssa.Value(g) && accessPath(lk.Index) == accessPath(mu.Key) && reachedOnlyIfAbsent(lk, mu) {
							absent = true
						}
					})
					c.Check(absent, fmt.Sprintf("%s / store recyclers#%d", fnKey(f), n), mu.Pos(), "a recycler is stored only where recyclers[%s] was found absent", accessPath(mu.Key))
				})
			}
			if n == 0 {
				c.Violate("core/outlier / recyclers", token.NoPos, "no recycler is ever stored")
			}
		},
	})
}

func isBoolT(t types.Type) bool {
	b, ok := t.Underlying().(*types.Basic)
	return ok && b.Kind() == types.Bool
}

// systemMetricTable decides the case/source obligations of system.metric-sources when doCheckRule has no per-type
// cases but reads a package-level table indexed by rule.MetricType: every MetricType below MetricTypeSize has an
// element whose reader function returns the metric of the frozen table, and every comparison with rule.TriggerCount
// compares the value produced by the reader of the element selected by rule.MetricType.
func systemMetricTable(c *Ctx, f *ssa.Function, mt *types.Named, size int64, want map[string][]string) bool {
	scope := withNewHelpers([]*ssa.Function{f})
	var glob *ssa.Global
	for _, g := range scope {
		eachInstr(g, func(ins ssa.Instruction) {
			if ia, ok := ins.(*ssa.IndexAddr); ok {
				if gl, idx, _ := tableIndexedBy(ia); gl != nil && accessPath(stripConv(idx)) == "{Rule}.MetricType" {
					glob = gl
				}
			}
		})
	}
	if glob == nil {
		return false
	}
	elems, ok := globalTable(glob)
	if !ok {
		c.Undecided(fnKey(f)+" / table", f.Pos(), "the per-MetricType table %s is filled under keys that are not constants", glob.Name())
		return true
	}
	// the reader field: the function-typed field of the element
	readerPath := map[string]bool{}
	for k := int64(0); k < size; k++ {
		name := constName(mt, k)
		var fn *ssa.Function
		fpath := ""
		for p, v := range elems[k] {
			if _, isSig := v.Type().Underlying().(*types.Signature); isSig {
				fn = funcOfValue(v)
				fpath = p
			}
		}
		c.Check(fn != nil, fmt.Sprintf("%s / case %s", fnKey(f), name), f.Pos(), "MetricType %s (=%d) has an element with a reader function in the table %s", name, k, glob.Name())
		if fn == nil {
			continue
		}
		readerPath[fpath] = true
		src := ""
		if fn.Parent() == nil { // a named function stored in the table: the metric is that function's result
			src = fnKey(fn) + "()"
		} else if rs := returnsOf(fn); len(rs) == 1 && len(rs[0].Results) == 1 {
			src = accessPath(stripConv(rs[0].Results[0]))
		}
		if src == "" || !strings.Contains(src, "(") {
			src = fnKey(fn) + "()"
		}
		ok2 := true
		for _, w := range want[name] {
			if !strings.Contains(src, w) {
				ok2 = false
			}
		}
		c.Check(ok2, fmt.Sprintf("%s / source %s", fnKey(f), name), fn.Pos(), "the reader of table element %s yields %s (want %v)", name, src, want[name])
	}
	// every comparison with TriggerCount compares the selected element's reader result
	n := 0
	for _, g := range scope {
		eachInstr(g, func(ins ssa.Instruction) {
			b, ok := ins.(*ssa.BinOp)
			if !ok || !isComparison(b.Op) || b.Op == token.EQL || b.Op == token.NEQ {
				return
			}
			var other ssa.Value
			switch {
			case accessPath(b.Y) == "{Rule}.TriggerCount":
				other = b.X
			case accessPath(b.X) == "{Rule}.TriggerCount":
				other = b.Y
			default:
				return
			}
			n++
			good := false
			for _, cs := range splitPhiCases(stripConv(other), b.Block(), nil, 0) {
				v := stripConv(resolve(stripConv(cs.val)))
				call, isCall := v.(*ssa.Call)
				if !isCall || call.Call.IsInvoke() || call.Call.StaticCallee() != nil {
					good = false
					break
				}
				gl, idx, p := tableIndexedBy(resolve(call.Call.Value))
				good = gl == glob && readerPath[p] && accessPath(stripConv(idx)) == "{Rule}.MetricType"
				if !good {
					break
				}
			}
			c.Check(good, fmt.Sprintf("%s / compare#%d", fnKey(f), n), b.Pos(), "the value compared with rule.TriggerCount is the result of the reader of %s[rule.MetricType]", glob.Name())
		})
	}
	if n == 0 {
		c.Violate(fnKey(f)+" / compare", f.Pos(), "no comparison of the selected metric with rule.TriggerCount")
	}
	return true
}
