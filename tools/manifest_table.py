CLAIMED["C03"] = dict(
    technique="static analysis: SSA transition-table enumeration of all State.cas sites, branch-fact dominance, sibling agreement, who-may-call",
    decided="every breaker state change is a CAS along a legal edge; listeners are notified once, inside the winner's branch, with the correct previous state; opening arms the retry deadline, closing resets probe counter and statistics; the three TryPass siblings admit only under closed / open+timeout+CAS-won / half-open+probeNumber>0; transitions are driven only by TryPass and completions; Slot.Check blocks exactly on a rejecting breaker with the circuit-breaking block type.",
    not_decided="the trip predicate (ratios, minimum amount), window contents at a given time, timing of the retry timeout, stragglers.")
_WIP = "check not built yet in this session (work in progress; see DESIGN.md section 4 for the planned static rules)"
for _p in ["C01","C02","C04","C05","C06","C07","C08","C09","C10","C11","C12","C13","C14","C15","C16","C17","C18","C19","C20"]:
    NA[_p] = _WIP
