#!/usr/bin/env python3
"""Generates /verif/MANIFEST.json from the table below (kept here so that the manifest stays consistent)."""
import json, os, sys
V = os.path.dirname(os.path.dirname(os.path.abspath(__file__)))

GOENV = "GOFLAGS=-mod=mod GOPROXY=off GOSUMDB=off GOTOOLCHAIN=local GOWORK=off"
SETUP = f"cd /verif/checker && env {GOENV} go build -o /verif/bin/sgcheck ."

# property -> (technique, decided text, not decided text, design section)
CLAIMED = {}
NA = {}
exec(open(os.path.join(V, "tools", "manifest_table.py")).read())

props = [json.loads(l)["id"] for l in open(os.path.join(V, "properties.jsonl"))]
checks = []
for pid in props:
    if pid not in CLAIMED:
        continue
    t = CLAIMED[pid]
    checks.append({
        "property_id": pid,
        "quick_cmd": f"bin/sgcheck -property {pid} -tier quick",
        "thorough_cmd": f"bin/sgcheck -property {pid} -tier thorough",
        "evidence_file": f"/verif/evidence/{pid}.json",
        "replay_cmd_template": "bin/sgcheck -replay {path}",
        "engine": "sgcheck",
        "level_claimed": {
            "category": "other",
            "text": "Static analysis (no execution): structural necessary conditions of the property, decided for all paths of the current source. Decided: " + t["decided"] + " NOT decided (behavioural remainder): " + t["not_decided"],
            "design_ref": t.get("ref", "DESIGN.md section 4, " + pid),
        },
        "level_note": "Trusted base: go/types, go/ssa, go/cfg and go/callgraph of golang.org/x/tools v0.29.0; the rule tables frozen in /verif/checker after reading the code; aliasing approximated by SSA value identity and field paths (no pointer analysis available offline); code outside the module is assumed to call back only through function values it is handed. A pass means every enumerated obligation holds on the source as it is now; it does not mean the behavioural statement was proven.",
        "technique": t["technique"],
    })
na = [{"property_id": p, "reason": NA[p]} for p in props if p not in CLAIMED]
for p in props:
    if p not in CLAIMED and p not in NA:
        sys.exit(f"property {p} neither claimed nor not_applicable")
m = {
    "version": 1,
    "setup_cmd": SETUP,
    "hooks": {
        "guard": "verif",
        "enable": "none needed: static analysis reads the source; no instrumentation is compiled in",
        "baseline_off_cmd": "for m in $(cat /w/out/gomods.txt); do MF=$(cd /repo/$m && . /w/out/goenv.sh && gomodflag); (cd /repo/$m && go test $MF -json -vet=off -count=1 -timeout 25m ./...); done",
        "source_commits": [],
        "add_only": True,
    },
    "engines": [{
        "name": "sgcheck",
        "path": "/verif/checker",
        "serves_properties": [c["property_id"] for c in checks],
        "kind_free_text": "repository-specific static analyser: go/packages loader, go/ssa dominance / branch-fact / ordering rules, module-bounded call graph, lockset and atomic-only dataflow, AST+go/cfg protocol checker for the adapters",
    }],
    "checks": checks,
    "notes": "All checks are static (family: static analysis). Exit 0 = all obligations hold; exit 1 + VIOLATION line = a rule is violated on a construct not listed in known_findings.json; exit 2 = the check itself could not decide (anchor lost, shape not recognised, tree does not type-check).",
    "not_applicable": na,
}
json.dump(m, open(os.path.join(V, "MANIFEST.json"), "w"), indent=1)
print("claimed", [c["property_id"] for c in checks], "na", [x["property_id"] for x in na])
