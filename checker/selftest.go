package main

// Self-test by seeded variants (thorough tier); see selftest_variants.go.

func runSelfTests(prop string, rules []*Rule) map[string]interface{} {
	return map[string]interface{}{"status": "not built yet"}
}

func runVariantChild(spec string) int { return 2 }
