CLAIMED["C03"] = dict(
    technique="static analysis: SSA transition-table enumeration of all State.cas sites, branch-fact dominance, sibling agreement, who-may-call",
    decided="every breaker state change is a CAS along a legal edge; listeners are notified once, inside the winner's branch, with the correct previous state; opening arms the retry deadline, closing resets probe counter and statistics; the three TryPass siblings admit only under closed / open+timeout+CAS-won / half-open+probeNumber>0; transitions are driven only by TryPass and completions; Slot.Check blocks exactly on a rejecting breaker with the circuit-breaking block type.",
    not_decided="the trip predicate (ratios, minimum amount), window contents at a given time, timing of the retry timeout, stragglers.")
_WIP = "check not built yet in this session (work in progress; see DESIGN.md section 4 for the planned static rules)"
for _p in ["C01","C02","C04","C05","C06","C07","C08","C09","C10","C11","C12","C13","C14","C15","C16","C17","C18","C19","C20"]:
    NA[_p] = _WIP

CLAIMED["C19"] = dict(
    technique="static analysis: AST + go/cfg path-sensitive protocol check of all api.Entry call sites in the 12 adapter modules (types.Info resolved)",
    decided="at each of the 25 api.Entry sites: the block error is bound and tested against nil before any use of the entry or handler call; the blocked branch neither invokes the handler nor touches the nil entry and consults the configured fallback; entry.Exit is reached on every admitted path and is deferred before every handler invocation (covers handler panics); the handler is invoked exactly once, never in a loop; a handler error is passed to api.TraceError on its non-nil branch.",
    not_decided="the behaviour of the frameworks themselves (that Next()/next really runs the wrapped handler once); which default rejection is produced; custom-chain (outlier) branches' per-callee error attribution.")
CLAIMED["C12"] = dict(
    technique="static analysis: SSA enumeration of all State.cas sites, dominance (publish-after-initialise), atomic-only field discipline",
    decided="every transition is a CAS from a constant state with the listener notification inside the winner's success branch and the correct previous state (so exactly one caller performs and reports it); the retry deadline is stored before Open is published by the CAS; the only admitting paths while Open/HalfOpen are the CAS winner or probeNumber>0; deadline, probe counter and state word are accessed only atomically.",
    not_decided="any statement that needs enumeration of interleavings (e.g. exactly one probe admitted across racing TryPass callers is inferred from CAS atomicity, not explored); timing of the retry timeout.")
CLAIMED["C09"] = dict(
    technique="static analysis: atomic-only dataflow over SSA, dominance ordering in every ResetBucketTo, lock-region check around bucket reset, value-origin check of recorder targets",
    decided="all window counters and BucketStart are accessed only through sync/atomic in live code; every ResetBucketTo clears the data before publishing the new start; buckets are reset only inside currentBucketOfTime under a successful TryLock that is released on every path; a recorder is handed a bucket only when its start equals the recorder's bucket start (or after its own reset / CAS install / single-bucket branch) and records into the bucket selected for its own timestamp; collectors filter expired buckets.",
    not_decided="quantitative statements over interleavings (no duplicated update, exact sums without overlap), stragglers stalled longer than a bucket, termination of the spin loop under an adversarial scheduler.")
CLAIMED["C08"] = dict(
    technique="static analysis: who-may-construct + branch-fact dominance for the tiling check, guarded-append check for expiry filtering, guarded unsigned arithmetic on timestamps",
    decided="a SlidingWindowMetric is allocated only after CheckValidityForReuseStatistic returned nil, which requires non-zero parameters and exact tiling of parent buckets; every collector of buckets appends only under isBucketDeprecated==false; the window view selects buckets by start<=ws<=end of getBucketStartRange(now); uint64 timestamp subtractions in core/stat/base cannot wrap (guard, a-a%b idiom, expiry comparison, one named exception).",
    not_decided="equality of any statistic with the aligned-bucket reference model for arbitrary histories (the core of the property): no static argument in reach bounds window contents.")
for _p in ["C19","C12","C09","C08"]:
    NA.pop(_p, None)

CLAIMED["C01"] = dict(
    technique="static analysis: SSA dominance / path rules over api.entry, SentinelEntry.Exit and SlotChain, sync.Pool ownership analysis, effect signature of stat.Slot, atomic-only and who-may-call on the gauge",
    decided="a blocked outcome is exited exactly once inside api.entry and a passed entry is returned un-exited; all effects of Exit run inside the entry's sync.Once (idempotent, late Exit touches no context); pooled storage never escapes into an object outliving the Put; nothing uses the context after it is recycled; OnCompleted runs only under a pass marker that a fresh context lacks and that is set only right before the pass callbacks (panic edges of slot calls modelled); blocked entries get no completion; stat.Slot's pass / block / completion effects are exactly Inc+Add(Pass), Add(Block), Add(Rt)+Add(Complete)+Dec(+Add(Error) iff err) once on ctx.StatNode and, iff inbound, on the inbound node with the entry's batch count; only stat.Slot moves the gauge, by +1/-1, atomically.",
    not_decided="conservation as a numeric invariant over histories; attribution of response time; behaviour when user statistic slots panic; ordering of TraceError/SetPair relative to Exit in user code. Known finding (not repaired, pinned test forbids): a request passed after a slot panic is not counted as pass.")
CLAIMED["C02"] = dict(
    technique="static analysis: module-bounded call-graph reachability (CHA, VTA in thorough), SSA value-identity between read and write windows, branch-fact check of the reject comparison",
    decided="no rule check can reach a statistic writer (rejected requests consume no quota; check-then-record order); the window the reject checker reads is the window admitted tokens are written to, exactly once per admitted request, for the rule's own or the referenced resource; the reject checker compares pass-sum + batch with the threshold and blocks with the flow block type exactly on the exceeding branch; the first blocking controller's result is returned; window views are only built on tiling parameters.",
    not_decided="exactness of the comparison (> vs >=), window alignment and arithmetic (C08), the (k-1)*batch excess bound under interleavings, fractional thresholds.")
CLAIMED["C10"] = dict(
    technique="static analysis: SSA branch-fact dominance on the wait value, add/rollback path pairing, atomic-only, sleep site check",
    decided="every ShouldWait result carries 0 or a value bounded by a dominating v <= maxQueueingTimeNs test; the reserved interval is rolled back with the same amount on every blocked path and on no admitted path; lastPassedTime is only accessed atomically; threshold<=0 and batch>threshold block before shared state is touched; flow.Slot.Check sleeps exactly the wait of a ShouldWait result and never on a blocked one.",
    not_decided="the spacing invariant between consecutive pass times (sequential or interleaved), 'idle time is never banked', rejection only when spacing would exceed the limit.")
CLAIMED["C16"] = dict(
    technique="static analysis: SSA ordering / reachability inside SlotChain.Entry, call-graph recover coverage, stable-sort shape check",
    decided="slot lists are re-sorted with sort.SliceStable and a strict Order()<Order() less function; prepare, rule-check and statistic phases cannot run out of order, each over its own list; the first blocked result stops the rule-check loop and becomes the context's result; every statistic slot is told exactly one of passed/blocked selected by that result and completion only when the pass callbacks ran; every user callback in the Entry/Exit cone is under a deferred recover and a recovered panic yields a passed entry; the block error is taken before the internal Exit and pooled storage does not leak into it.",
    not_decided="run-time order beyond 'stable sort with strict less'; immutability of a returned BlockError against code outside the Entry/Exit cone.")
for _p in ["C01","C02","C10","C16"]:
    NA.pop(_p, None)

CLAIMED["C04"] = dict(
    technique="static analysis: effect signature agreement on the gauge, call-graph read-only check, narrow-integer arithmetic scan over the rule-check cone, branch-fact shape of the admission loop",
    decided="the isolation check reads the very gauge (ctx.StatNode concurrency) that the statistic slot increments once per passed entry and decrements once per completed entry (C01 rules), so rejected requests never occupy capacity and an Exit frees capacity at once; rule checks cannot write statistics; the admission sum is not formed in a type narrower than 64 bits; every rule is visited, the first violated rule blocks with the isolation block type and the read gauge as snapshot.",
    not_decided="strictness of the comparison; the k-1 excess bound under interleavings.")
CLAIMED["C07"] = dict(
    technique="static analysis: branch-fact dominance for the inbound gate, per-case source table of the compared metric, enum exhaustiveness, call-graph read-only check",
    decided="every system block is built on the FlowType()==Inbound branch and the other branch can only return nil; each metric case compares the documented inbound-node / system metric source with the rule's trigger; every MetricType below MetricTypeSize has a case and others are rejected by validation; BBR's capacity estimate is consulted only for Strategy==BBR and reads concurrency, min RT and peak completion rate of the inbound node; the first failing rule blocks with the system block type.",
    not_decided="comparison strictness ('has reached' vs 'is above'), the BBR arithmetic, correctness of the aggregate statistics themselves (C08).")
CLAIMED["C20"] = dict(
    technique="static analysis: SSA value-identity guarded-append check, branch facts",
    decided="every append to the filter list is on the TryPass()==false branch of the node and dominated by len(list) < int(float64(len(nodeBreakers))*MaxEjectionPercent) on the same slice value; half-open nodes are collected exactly under TryPass && !EnableActiveRecovery && state==HalfOpen; IsValidRule bounds MaxEjectionPercent to [0,1]; a successful completion marks the node recovered and recycle deletes only never-recovered nodes; the slot hands exactly these lists to the result.",
    not_decided="floating-point rounding of percentage x count; timer behaviour of the recycler / retryer.")
for _p in ["C04","C07","C20"]:
    NA.pop(_p, None)

CLAIMED["C05"] = dict(
    technique="static analysis: SSA value-identity of cache keys, branch-fact dominance, guarded integer division with a structurally verified field invariant",
    decided="a request whose selected argument is absent (nil) never reaches the parameter check; every counter-cache operation and every specific-threshold lookup is keyed by the checked value itself; the metered threshold is the value's specific item when present, else the rule's; integer divisors on the check path are non-zero; the attachment key is consulted before the positional index, negative indices are mapped by len+idx and indexing happens only inside the bounds; blocked results are returned from the loop and ShouldWait results slept exactly.",
    not_decided="the token-bucket envelope, refill arithmetic, pacing distances, LRU capacity effects and value independence under eviction - the numeric core of the property.")
CLAIMED["C06"] = dict(
    technique="static analysis: sync.Pool ownership (argument list aliasing), sibling shape agreement of increment/decrement, who-may-write, value-identity of cache keys",
    decided="the argument list re-read at Exit is not storage of a pooled object that the next Entry overwrites (the defect that released the wrong value's counter is fixed and guarded); OnEntryPassed / OnCompleted add +1 / -1 exactly once to the same cell (ConcurrencyCounter.Get of the argument extracted from the context) under identical guards; the admission test loads that cell keyed by the checked value and compares in-flight+1 with the specific threshold when present, else the general one; SentinelInput.Args is written only when the entry is created.",
    not_decided="exactness of the cap under concurrency; LRU eviction of a live value's cell; behaviour when a rule reload replaces the counter cache between pass and exit.")
CLAIMED["C11"] = dict(
    technique="static analysis: guarded-arithmetic prover (sign / non-zero facts from dominating guards, phi lower bounds, constructor field invariants, validity-function facts), atomic-only, three-way partition check",
    decided="every division in the warm-up and memory-adaptive calculators and their constructors has a divisor proven non-zero, so the effective threshold cannot become NaN or infinite (the NaN defect for tiny / zero warm-up thresholds is fixed and guarded); storedTokens / lastFilledTime are only accessed atomically; the memory-adaptive threshold is the low value at or below the low water mark, the high value at or above the high water mark and the interpolation only in between.",
    not_decided="all rate statements (cold start level, reaching the full threshold, no starvation), monotonicity of the interpolation, non-negativity of the warm-up threshold.")
for _p in ["C05","C06","C11"]:
    NA.pop(_p, None)

CLAIMED["C13"] = dict(
    technique="static analysis: SSA value-flow of validated rule lists, nil-dereference of caller-supplied elements, field-store effect over the load cone, keyed-update scope check, co-update of twin maps",
    decided="no load entry point (6 modules x whole-set / per-resource) dereferences a caller-supplied rule element without a nil test or recover; every list handed to a builder and every list / rule stored in an enforced or reported map contains only elements accepted by the validity function on a dominating branch (both paths); no function on the load path writes a field of the caller's rule (so reflect.DeepEqual against the cached input stays meaningful and an identical reload is 'unchanged'); the per-resource path writes only its own resource key, the whole-set path replaces the maps by fresh ones, enforced / reported / cached maps are co-updated; getters return copies built from the enforced (or co-updated reported) map.",
    not_decided="that traffic is in fact governed by those objects (C02-C07); divergence of reported and enforced sets when a valid rule cannot be built (unsupported strategy); 'in order' beyond builders appending in input order.")
CLAIMED["C14"] = dict(
    technique="static analysis: equality-function audit (same-field comparisons, field coverage, reflexivity through short-circuit CFG), SSA value-identity in the builders, rule immutability, published-slice immutability",
    decided="the three equality functions compare only a field with itself, cover every rule field except the descriptive id, and return false only where a same-field comparison failed (field-identical rules compare equal, incl. user-defined strategies); on the equal branch the builders append the old object itself and invoke no generator, on the statistic-reusable branch the generator receives the old object's statistic; the load path never mutates the caller's rule; published per-resource lists are never modified in place.",
    not_decided="behavioural invisibility itself (a metamorphic relation over pairs of runs): that the reused object's later decisions equal those without reload.")
CLAIMED["C15"] = dict(
    technique="static analysis: must-hold lockset dataflow with call-site entry locksets against a frozen guarded-by table, atomic-only discipline, escape of in-place-mutated inner maps, published-slice taint, lock-order graph, adapter chain-mutation check",
    decided="every access to the rule maps, node map, caches and their cached inputs holds the guarding mutex in the right mode (or the module's update mutex when all writers hold both); inner maps that are mutated in place are never used after the lock is released; per-resource slices read from enforced maps are never appended to or element-stored (a request sees entirely the old or the new list) and each rule-check slot reads its list exactly once per request; every field accessed through sync/atomic anywhere is accessed atomically everywhere in live code; LruCacheMap takes the write lock around every mutating LRU operation (incl. Get); the lock-order graph is acyclic; no adapter mutates the shared global slot chain on the request path.",
    not_decided="race freedom of state outside the table and outside atomic fields (the thorough tier lists unguarded package variables for review); deadlock freedom beyond lock order; atomicity of a request across the check and statistic phases; circuitbreaker.stateChangeListeners and the generator maps (documented as not thread-safe, outside the property's API list).")
CLAIMED["C18"] = dict(
    technique="static analysis: struct-tag / composite-literal table agreement, error-propagation path check in parsers and updaters, sibling agreement, recover coverage, watcher event shape",
    decided="DefaultPropertyHandler.Handle recovers panics and Base.Handle reaches converters only through it; the hotspot wire struct has a same-named JSON field for every JSON field of hotspot.Rule and the converter sets every field (the other parsers decode into the module's own type); decode errors propagate as non-nil errors and empty payloads yield a nil property; the five updaters map nil to the same module's ClearRules, the module's own slice type to its LoadRules, anything else and any LoadRules error to an error; converters and loaders tolerate null elements; file Rename/Remove events lead to Handle(nil), other events to a re-read.",
    not_decided="idempotence over delivery sequences and the resulting state of the rule managers (dynamic), fsnotify event sequences, the JSON decoder itself.")
for _p in ["C13","C14","C15","C18"]:
    NA.pop(_p, None)
NA["C17"] = "check not built yet in this session (work in progress)"

CLAIMED["C17"] = dict(
    technique="static analysis: dominance of file creation by removal, path ordering of index vs data writes, encoder/decoder column table agreement, open/close pairing",
    decided="ONLY the structural clauses: every metric / index file creation follows a successful removal of the len-max+1 oldest files with their index files (bounded file count); on a new second the index entry is written and flushed before that second's lines and latestOpSec advances only after the lines were written; each column the decoder stores into a MetricItem field is fed by the encoder from that same field (11 columns); every file opened by reader / searcher is closed, returned or nil on every path.",
    not_decided="the core of the property: read-back equality across rolls, the searcher's position cache, ordering / duplicates, and behaviour when a data or index file is cut at an arbitrary byte (crash points). These quantify over file contents and byte offsets that no static argument in reach bounds; reading found suspicious spots (the `v != cachedPos.metricFilename` test in getOffsetStartAndFileIdx, the index entry written to the old index file on a day roll, writeItemsAndFlush returning nil on a write error) which no sound static rule decides.")
NA.pop("C17", None)

# ---- additions after the second round of independently seeded changes (DESIGN.md section 9)
def _add(pid, text):
    CLAIMED[pid]["decided"] = CLAIMED[pid]["decided"].rstrip() + " ALSO: " + text

_add("C01", "the resource descriptor of an entry is built from this call's own name and options (no lookup of a descriptor cached under the name only); GetOrCreateResourceNode returns on every path the node registered under the requested name or one freshly created for it, and registers a new node only after the name was found absent under the same hold of the write lock.")
_add("C02", "no two resource names share a statistic node (same node-per-resource rule); in the builders a statistic donor is removed from the candidates once used.")
_add("C04", "concurrent first entries of one resource end on one node (absent-rechecked-under-write-lock), so no in-flight entry is invisible to the gauge.")
_add("C05", "the general threshold is read only as the default of the per-value choice; in the pacing checkers no integer quotient is multiplied afterwards (the interval batch*duration/threshold is not shortened by a truncated per-token cost).")
_add("C06", "the concurrency statistic slot only adds to / subtracts from the counter cell and never removes or replaces a cell.")
_add("C07", "the traffic type seen by the system check is the one given with this very call (resource-from-options).")
_add("C09", "the update lock taken by TryLock is released on every path from the success branch (including loop continues).")
_add("C10", "no integer quotient feeds a product in the pacing computation.")
_add("C11", "every alternative returned by the warm-up calculator is the configured threshold (below the warning line) or the warning-zone rate derived from threshold, slope and stored tokens; none is a constant.")
_add("C12", "the probe-rollback hook is registered only inside the winner's branch of the Open->HalfOpen CAS.")
_add("C03", "the probe-rollback hook is registered only by the request that won the Open->HalfOpen CAS; the retry deadline is stored unconditionally when the breaker opens.")
_add("C13", "the rule equality functions used to detect 'unchanged' are reflexive and cover every field, so a changed rule cannot be mistaken for the old one and stay in force.")
_add("C14", "all unchanged rules are paired with their old objects before any old object is used as a statistic donor (two-pass builders; defect F21 fixed and guarded); no generator is invoked for an unchanged rule.")
_add("C15", "no function acquires a read lock while (transitively) already holding the same RWMutex (recursive RLock deadlocks against a waiting writer).")
_add("C17", "the index write is not deferred past the lines; retention removes the oldest files of the all-dates listing; no error-returning method of the writer answers nil on a path on which a call reported an error (defect F22 fixed and guarded); the searcher's cached index offset is used only with the index file it was taken from (defect F23 fixed and guarded).")
_add("C18", "a Rename / Remove event re-arms the watch and reloads the file.")
_add("C19", "a deferred closure that exits the entry does so on every path through the closure (also for non-error panic values).")
_add("C20", "the node is marked recovered under no other condition than a nil error for a known address.")

# ---- additions after the third round
_add("C01", "every closure of SentinelEntry.Exit outside the sync.Once touches neither the context nor the slot chain; every field of the three pooled structs is written on recycle.")
_add("C02", "getSatisfiedBuckets returns nothing but the buckets selected by the window predicate.")
_add("C03", "the statistic reset on closing clears the whole collection the trip decision sums over.")
_add("C05", "helpers called by the QPS checkers never read the general threshold; the attachment map a ParamKey rule reads is owned by the entry.")
_add("C06", "the attachment map of an entry is allocated by the option functions (never the caller's map).")
_add("C07", "the effect signature of stat.Slot on the inbound node (one increment per passed inbound entry, one decrement per completion, on every path).")
_add("C08", "while the deprecation test is strict, every BucketLeapArray reader refreshes the slot of `now` before collecting all live buckets.")
_add("C11", "no product of two non-constant integers in the calculators.")
_add("C12", "in TryPass the state word is read before the retry deadline (mirror of deadline-before-open).")
_add("C13", "the builders append to their result in a single loop over the loaded rules (order loaded = order enforced).")
_add("C16", "the block error and every other field of the pooled result / context are reset on recycle.")
_add("C17", "fixed-size records are never taken from a raw Read whose byte count is ignored; a data line is parsed only when its terminator was read (defect F24 fixed and guarded).")

# ---- additions after the fourth round
_add("C01", "GetOrCreateResourceNode never returns nil.")
_add("C04", "the isolation slot's rule lookup answers from the enforced map alone (no short cut through other state).")
_add("C02", "the flow slot's controller lookup answers from the enforced map alone; needStatistic agrees with the generators.")
_add("C03", "the breaker lookup answers from the enforced map alone.")
_add("C05", "the hotspot controller lookup answers from the enforced map alone; the rule equality used on reload is reflexive and complete (stale specific-item tables are not kept).")
_add("C07", "the system rule lookup answers from the enforced map alone; every figure a statistic node reports is read through the node's own window view.")
_add("C08", "MetricBucket.reset restores every field to the constructor's value unconditionally; node readers use the node's view.")
_add("C09", "bucket reset is complete and unconditional; readers refresh the current slot while the deprecation test is strict.")
_add("C10", "on every path on which flow.Rule.isEqualsTo answers equal the queueing limit was compared (or the behaviour is a built-in non-throttling one).")
_add("C11", "needStatistic, interpreted for each registered (strategy, behaviour) key, agrees with what the generator binds (real vs no-op statistic).")
_add("C13", "check-side lookups of all six modules answer from the enforced map alone; path-wise coverage of the equality functions.")
_add("C14", "path-wise coverage of the three equality functions with a frozen field-relevance table.")
_add("C17", "comparisons with index seconds have seconds on the other side (unit rule).")
_add("C19", "gin: every path through the blocked branch aborts the context or hands over to the fallback.")
_add("C20", "the outlier lookups answer from the enforced maps alone.")
_add("C15", "every Lock / RLock acquisition in the module is released (or its release deferred) on every path to the function's end.")

# ---- additions after the fifth round
_add("C01", "api.entry never recycles the context of an entry it returns; the exit-handler list is per-entry storage; the pooled EntryOptions object is fully reset.")
_add("C02", "the pooled EntryOptions object is fully reset (batch count of one call cannot leak into the next); the threshold is computed for each check.")
_add("C03", "the response time stored in the context is the measured one (effect signature of stat.Slot); exit handlers are per-entry storage.")
_add("C04", "the pass marker is stored before the pass callbacks run.")
_add("C06", "a controller retained for an unchanged rule is never also a statistic donor.")
_add("C07", "the amount recorded in a window bucket is the amount given by the caller (no clamping on the write path).")
_add("C08", "value identity of the amount along the write path; the counter loop of the bucket reset is unconditional.")
_add("C09", "the bucket reset clears all counters unconditionally.")
_add("C10", "the threshold is computed for each check, not cached.")
_add("C11", "the threshold handed to the checker is the calculator's result for this very check.")
_add("C12", "the exit-handler list through which a breaker registers its probe rollback is storage of that entry alone.")
_add("C14", "the rule bound to a controller / breaker is the loaded rule object itself.")
_add("C15", "the enforced map of a module is never the same object as its cached input map.")
_add("C16", "the block error copy handed to the caller reads every field of the source on every path.")
_add("C17", "the multi-file scan stops only on list exhausted / caller's limit / reader error / shouldContinue.")
_add("C18", "loaded rule objects are never written after loading (rules.immutable).")
_add("C19", "api.entry hands out only entries whose context it has not recycled.")
_add("C20", "a resource's recycler is created once.")
_add("C01", "every method of the entry that writes into its context (TraceError/TraceCallee path) is guarded by an ownership marker that the first Exit sets before the context is recycled.")
_add("C01", "no function of the module hands out a TokenResult kept in a long-lived object (a shared result would become the rule-check result of unrelated entries through the pooled context); a recycled EntryOptions / EntryContext has the same constant defaults as a new one.")
_add("C02", "whole-set and per-resource load paths of a rule module write the same package-level state (a snapshot that only one path maintains goes stale).")
_add("C05", "every per-value cache of a hot-parameter controller is sized by the rule's ParamsMaxCapacity whenever that is positive.")
_add("C07", "a recycled EntryOptions has the same default traffic type (Outbound) as a new one.")
_add("C08", "a window view's stored bucket length is interval / sample count of the same view.")
_add("C13", "the per-resource update writes (stores or deletes) the resource's entry of every enforced / reported map on every successful path.")
_add("C15", "in a function that recovers panics no explicitly released mutex is held while user-registered code can run.")
_add("C16", "inside the Once closure of Exit every non-panicking path reaches the chain's exit when a chain is set.")
_add("C18", "payload bytes are not shared between deliveries (a handler keeping the caller's slice uncopied and a source reusing its read buffer do not coexist).")
_add("C20", "the recycler never puts a tracked (possibly recovered) node back to not-recovered.")
_add("C12", "outside the constructors the retry deadline is written only as the arming step of a transition to Open.")
_add("C03", "a transition that arms the retry deadline before its CAS to Open is called only where a state read established the source state; the deadline is written nowhere else.")
_add("C10", "the wait handed to an admitted caller is computed from the result of the atomic add that reserved that caller's own slot (not from an estimate read before the reservation).")
_add("C20", "the recycler removes a node's breaker inside the critical section in which it read the node's status as not recovered.")
_add("C12", "the loaded retry deadline does not enter an unguarded unsigned subtraction (a wrapped difference is never read as 'deadline passed').")
_add("C03", "the loaded retry deadline is compared with the clock directly (no unguarded unsigned subtraction).")
_add("C13", "the cached last input (currentRules) is written only on executions that also install the enforced rules, so a rejected load cannot make a later load look like a repeat.")
_add("C14", "the cached last input is written only together with the enforced maps (the 'unchanged' short-circuit compares against what is enforced).")
_add("C05", "a throttled value admitted without waiting leaves its last-pass cell at the clock reading (idle time is not banked as credit).")
_add("C11", "no write leaves a negative token balance in the warm-up calculator's storedTokens (published values are constants >= 0, the refill result or guarded differences; an in-place subtraction is followed by a reset to 0 on the negative branch).")
_add("C17", "the comparator ordering metric log files uses a lexicographic string comparison only where it agrees with the numeric order of roll numbers (equal lengths established, or differing date parts).")
_add("C06", "everything that releases the per-value unit on exit runs inside the once-only section of Exit (two overlapping Exit calls release one unit, not two).")
_add("C14", "in each reuse-index search the equality test runs for every old candidate (it is not skipped on the state of the statistic-reuse search).")
_add("C13", "a loader answers 'unchanged' only under reflect.DeepEqual of the cached input and its argument; IsValidSystemRule accepts a rule only where TriggerCount >= 0 was established; the equality test of the reuse-index search is not skipped.")
_add("C07", "system.LoadRules answers 'unchanged' only under reflect.DeepEqual (a reload that changes only the strategy is applied); IsValidSystemRule rejects a negative trigger for every metric type.")
_add("C02", "the Direct calculator hands over the rule's threshold unchanged (constructor stores its parameter, CalculateAllowedTokens returns the field, constructor calls pass Rule.Threshold).")
_add("C10", "the Direct calculator's threshold reaches the throttling checker unchanged.")
_add("C03", "no two new breakers of one reload share one old breaker's statistic (the donor is removed from the candidates once used), so no completion is counted twice in a shared window.")
_add("C04", "everything that completes an entry (and so frees its unit of capacity) runs inside the once-only section of Exit.")
_add("C06", "completion is told to the statistic slots exactly when the pass was (the marker is set before the first statistic slot runs), so a unit taken at pass time is released at exit even if a later statistic slot panicked.")
_add("C15", "concurrent first entries of one resource end on one node (absent re-checked under the write lock before a new node is stored).")
