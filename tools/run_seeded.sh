#!/bin/bash
# Applies every seeded change under /verif/seeded/<id>/patch.diff to /repo (git apply), runs all quick checks
# against it, undoes it (git checkout -- .), and records which checks fired in seeded/<id>/result.json.
# usage: tools/run_seeded.sh [id ...]
cd /verif
REPO=${REPO:-/repo}   # a scratch worktree may be given instead (REPO=/tmp/x); the checker is then run with -repo
ids="$@"; [ -z "$ids" ] && ids=$(ls seeded | grep '^C')
props=$(python3 -c "import json;print(' '.join(c['property_id'] for c in json.load(open('/verif/MANIFEST.json'))['checks']))")
if [ -n "$(git -C $REPO status --porcelain)" ]; then echo "$REPO is not clean"; exit 2; fi
allprops=$props
for id in $ids; do
  d=seeded/$id
  # FOCUS=1: run only the checks of the change's own property and of the properties whose checks fired on it before
  # (enough to re-establish caught / missed after a change of the checker; the full cross product is the default)
  props=$allprops
  if [ -n "$FOCUS" ]; then
    props=$(python3 - $id <<'PY'
import json,sys,os
id=sys.argv[1]; ps=set()
try: ps.add(json.load(open('/verif/seeded/%s/meta.json'%id))['property'])
except Exception: pass
try: ps.update(json.load(open('/verif/seeded/%s/result.json'%id)).get('fired',{}).keys())
except Exception: pass
print(' '.join(sorted(ps)))
PY
)
  fi
  git -C $REPO apply /verif/$d/patch.diff || { echo "$id: patch does not apply"; continue; }
  : > /tmp/seeded_$id.txt
  T=$(mktemp -d /tmp/seeded_run.XXXXXX)
  echo $props | tr ' ' '\n' | xargs -P 5 -I{} sh -c '${SGCHECK:-bin/sgcheck} -property {} -repo '$REPO' -tier quick -no-evidence > '$T'/{}.out 2>&1; echo $? > '$T'/{}.rc'
  for p in $props; do
    echo "### $p rc=$(cat $T/$p.rc)" >> /tmp/seeded_$id.txt
    grep -E "^VIOLATION|^  rule=|^UNDECIDED|^COVERAGE|^CHECK-ERROR" $T/$p.out >> /tmp/seeded_$id.txt
  done
  rm -rf $T
  git -C $REPO apply -R /verif/$d/patch.diff 2>/dev/null   # also removes files the patch created
  git -C $REPO checkout -- .
  SG_PROPS_RUN="$([ -n "$FOCUS" ] && echo "quick checks of $props (own property and those that fired before)" || echo 'all quick checks of MANIFEST.json')" python3 - $id <<'PY'
import sys,re,json,os
id=sys.argv[1]
cur=None; fired={}; other={}
for l in open('/tmp/seeded_%s.txt'%id):
    m=re.match(r'### (C\d+) rc=(\d+)',l)
    if m: cur=m.group(1); rc=int(m.group(2)); 
    if m and rc==2: other.setdefault(cur,[]).append('exit 2')
    m=re.match(r'  rule=(\S+) construct=(.*) at (\S+)',l)
    if m: fired.setdefault(cur,[]).append({"rule":m.group(1),"construct":m.group(2),"at":m.group(3)})
res={"seeded":id,"applied_to":"/repo working tree via git apply, undone with git checkout -- .","checks_run":os.environ.get("SG_PROPS_RUN","all quick checks of MANIFEST.json"),"caught":bool(fired),"fired":fired,"check_errors":other}
json.dump(res,open('/verif/seeded/%s/result.json'%id,'w'),indent=1)
print(id,"CAUGHT by" if fired else "MISSED", {k:sorted(set(x['rule'] for x in v)) for k,v in fired.items()}, other or '')
PY
  rm -f /tmp/seeded_$id.txt
done
