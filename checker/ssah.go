package main

import (
	"fmt"
	"go/constant"
	"go/token"
	"go/types"
	"os"
	"sort"
	"strings"

	"golang.org/x/tools/go/ssa"
)

// ---------------------------------------------------------------------------------------------
// positions

func instrPos(ins ssa.Instruction) token.Pos {
	if ins == nil {
		return token.NoPos
	}
	if p := ins.Pos(); p.IsValid() {
		return p
	}
	// fall back to operands / neighbours in the block
	if v, ok := ins.(ssa.Value); ok {
		_ = v
	}
	b := ins.Block()
	if b != nil {
		idx := -1
		for i, x := range b.Instrs {
			if x == ins {
				idx = i
				break
			}
		}
		for i := idx - 1; i >= 0; i-- {
			if p := b.Instrs[i].Pos(); p.IsValid() {
				return p
			}
		}
		for i := idx + 1; i >= 0 && i < len(b.Instrs); i++ {
			if p := b.Instrs[i].Pos(); p.IsValid() {
				return p
			}
		}
		if f := b.Parent(); f != nil {
			return f.Pos()
		}
	}
	return token.NoPos
}

// ---------------------------------------------------------------------------------------------
// iteration helpers

func eachInstr(f *ssa.Function, fn func(ins ssa.Instruction)) {
	for _, b := range f.Blocks {
		for _, ins := range b.Instrs {
			fn(ins)
		}
	}
}

func callsIn(f *ssa.Function) []ssa.CallInstruction {
	var out []ssa.CallInstruction
	eachInstr(f, func(ins ssa.Instruction) {
		if c, ok := ins.(ssa.CallInstruction); ok {
			out = append(out, c)
		}
	})
	return out
}

// withAnon returns f and all its (transitively) nested anonymous functions.
func withAnon(f *ssa.Function) []*ssa.Function {
	out := []*ssa.Function{f}
	for _, a := range f.AnonFuncs {
		out = append(out, withAnon(a)...)
	}
	return out
}

// calleeDesc describes the callee of a call: static function key, "invoke <Iface>.<m>", builtin or "dynamic".
func calleeDesc(c ssa.CallInstruction) string {
	cc := c.Common()
	if cc.IsInvoke() {
		return "invoke " + types.TypeString(cc.Value.Type(), shortQual) + "." + cc.Method.Name()
	}
	if f := cc.StaticCallee(); f != nil {
		if inModule(fnPkgPath(f)) {
			return fnKey(f)
		}
		return extFuncName(f)
	}
	if b, ok := cc.Value.(*ssa.Builtin); ok {
		return "builtin " + b.Name()
	}
	return "dynamic"
}

func shortQual(p *types.Package) string { return relPkg(p.Path()) }

// extFuncName gives pkgpath.Name or pkgpath.(T).Name for functions outside the module.
func extFuncName(f *ssa.Function) string {
	if f == nil {
		return ""
	}
	if o := f.Origin(); o != nil {
		f = o
	}
	pk := fnPkgPath(f)
	if recv := f.Signature.Recv(); recv != nil {
		t := recv.Type()
		if pt, ok := t.(*types.Pointer); ok {
			t = pt.Elem()
		}
		if n, ok := t.(*types.Named); ok {
			return pk + ".(" + n.Obj().Name() + ")." + f.Name()
		}
	}
	return pk + "." + f.Name()
}

// isExtCall reports whether c statically calls external function name (as produced by extFuncName).
func isExtCall(c ssa.CallInstruction, names ...string) bool {
	f := c.Common().StaticCallee()
	if f == nil {
		return false
	}
	n := extFuncName(f)
	for _, x := range names {
		if n == x {
			return true
		}
	}
	return false
}

func isStaticCallTo(c ssa.CallInstruction, f *ssa.Function) bool {
	return f != nil && c.Common().StaticCallee() == f
}

// isInvokeOf reports an interface invoke of method on (an interface type whose name is) ifaceName; ifaceName "" matches any.
func isInvokeOf(c ssa.CallInstruction, ifaceName, method string) bool {
	cc := c.Common()
	if !cc.IsInvoke() || cc.Method.Name() != method {
		return false
	}
	if ifaceName == "" {
		return true
	}
	if n, ok := cc.Value.Type().(*types.Named); ok {
		return n.Obj().Name() == ifaceName
	}
	return false
}

// ---------------------------------------------------------------------------------------------
// dominance on instructions

func instrIndex(ins ssa.Instruction) int {
	for i, x := range ins.Block().Instrs {
		if x == ins {
			return i
		}
	}
	return -1
}

// instrDominates: a is executed before b on every path from the function entry to b.
func instrDominates(a, b ssa.Instruction) bool {
	if a.Block() == b.Block() {
		return instrIndex(a) < instrIndex(b)
	}
	return a.Block().Dominates(b.Block())
}

// blockReach computes blocks reachable from block s (following successors), s included only if on a cycle or start==true.
func blockReach(s *ssa.BasicBlock) map[*ssa.BasicBlock]bool {
	seen := map[*ssa.BasicBlock]bool{}
	var q []*ssa.BasicBlock
	for _, x := range s.Succs {
		if !seen[x] {
			seen[x] = true
			q = append(q, x)
		}
	}
	for len(q) > 0 {
		b := q[0]
		q = q[1:]
		for _, x := range b.Succs {
			if !seen[x] {
				seen[x] = true
				q = append(q, x)
			}
		}
	}
	return seen
}

// instrReaches: b may execute after a on some CFG path.
func instrReaches(a, b ssa.Instruction) bool {
	if a.Block() == b.Block() && instrIndex(a) < instrIndex(b) {
		return true
	}
	return blockReach(a.Block())[b.Block()]
}

// edgeDominates: the CFG edge from->from.Succs[i] lies on every path from entry to b.
func edgeDominates(from *ssa.BasicBlock, i int, b *ssa.BasicBlock) bool {
	s := from.Succs[i]
	if len(from.Succs) == 2 && from.Succs[0] == from.Succs[1] {
		return false
	}
	if !s.Dominates(b) {
		return false
	}
	for _, p := range s.Preds {
		if p == from {
			continue
		}
		if !s.Dominates(p) { // another way into s that is not a back edge
			return false
		}
	}
	return true
}

// Fact: the condition value had the given truth on every path reaching a block.
type Fact struct {
	Cond  ssa.Value
	Truth bool
	If    *ssa.If
	Edge  int // index of the successor of If's block through which the fact holds (-1: unknown)
}

// condFacts returns the branch facts that dominate block b (innermost last). Negations are stripped.
func condFacts(b *ssa.BasicBlock) []Fact {
	out := condFactsBase(b)
	// correlation through boolean variables: a fact on a phi whose incoming values are all constants (`ok` results of
	// inlined helpers, flags set in branches) implies what holds on every incoming edge that carries that constant
	if condFactsDepth < 3 {
		condFactsDepth++
		for _, ft := range append([]Fact{}, out...) {
			phi, ok := ft.Cond.(*ssa.Phi)
			nilTest := false
			edgePossible := func(e ssa.Value) bool { return true }
			if !ok {
				// a comparison of a phi with a constant (`p != nil`, `idx >= 0` on the "found" result of an inlined search
				// helper): incoming constants for which the comparison has the other outcome did not come in; the phi
				// arrived through one of the remaining edges
				if bo, isBo := ft.Cond.(*ssa.BinOp); isBo && isComparison(bo.Op) {
					op := bo.Op
					var other ssa.Value
					var k *ssa.Const
					if c, isC := bo.Y.(*ssa.Const); isC {
						other, k = bo.X, c
					} else if c, isC := bo.X.(*ssa.Const); isC {
						other, k = bo.Y, c
						op = flipCmp(op)
					}
					if ph, isPhi := other.(*ssa.Phi); isPhi && k != nil {
						truth := ft.Truth
						if k.Value == nil && (op == token.EQL || op == token.NEQ) {
							phi, ok, nilTest = ph, true, true
							wantNil := (op == token.EQL) == truth
							edgePossible = func(e ssa.Value) bool { return wantNil || !isNilConst(e) }
						} else if k.Value != nil && k.Value.Kind() == constant.Int {
							phi, ok, nilTest = ph, true, true
							edgePossible = func(e ssa.Value) bool {
								ec, isC := e.(*ssa.Const)
								if !isC || ec.Value == nil || ec.Value.Kind() != constant.Int {
									return true
								}
								return constant.Compare(ec.Value, op, k.Value) == truth
							}
						}
					}
				}
				if !ok {
					continue
				}
			}
			var common map[string]Fact
			all := true
			n := 0
			if b, isB := phi.Type().Underlying().(*types.Basic); !nilTest && (!isB || b.Kind() != types.Bool) {
				continue
			}
			for i, e := range phi.Edges {
				// an incoming back edge: the facts that held when it was taken speak about values of an earlier
				// iteration - nothing is imported through such a phi
				if phi.Block().Dominates(phi.Block().Preds[i]) {
					all = false
					break
				}
				var own *Fact
				if nilTest {
					if !edgePossible(e) {
						continue // the comparison excludes this incoming constant
					}
				} else if cv, isC := e.(*ssa.Const); isC {
					if cv.Value == nil || cv.Value.Kind() != constant.Bool {
						all = false
						break
					}
					if constant.BoolVal(cv.Value) != ft.Truth {
						continue
					}
				} else {
					// `a && b && c`: the value of the last operand arrives on its own edge; there the phi has the wanted
					// truth exactly when that operand has it
					own = &Fact{Cond: e, Truth: ft.Truth, Edge: -1}
				}
				n++
				pred := phi.Block().Preds[i]
				fs := map[string]Fact{}
				list := append(condFacts(pred), edgeFact(pred, phi.Block())...)
				if own != nil {
					oc, ot := stripNot(own.Cond, own.Truth)
					list = append(list, Fact{Cond: oc, Truth: ot, Edge: -1})
				}
				for _, f2 := range list {
					fs[canonCond(f2.Cond, f2.Truth)] = f2
				}
				if common == nil {
					common = fs
				} else {
					for k := range common {
						if _, ok := fs[k]; !ok {
							delete(common, k)
						}
					}
				}
			}
			if !all || n == 0 {
				continue
			}
			have := map[string]bool{}
			for _, f2 := range out {
				have[canonCond(f2.Cond, f2.Truth)] = true
			}
			var keys []string
			for k := range common {
				keys = append(keys, k)
			}
			sortStrings(keys)
			for _, k := range keys {
				if !have[k] {
					f2 := common[k]
					f2.Edge = -1
					out = append(out, f2)
				}
			}
		}
		condFactsDepth--
	}
	return out
}

var condFactsDepth int

func condFactsBase(b *ssa.BasicBlock) []Fact {
	var out []Fact
	// walk all strict dominators of b
	for a := b.Idom(); a != nil; a = a.Idom() {
		if len(a.Instrs) == 0 {
			continue
		}
		ifi, ok := a.Instrs[len(a.Instrs)-1].(*ssa.If)
		if !ok {
			continue
		}
		for i := 0; i < 2; i++ {
			if edgeDominates(a, i, b) {
				c, t := stripNot(ifi.Cond, i == 0)
				out = append([]Fact{{Cond: c, Truth: t, If: ifi, Edge: i}}, out...)
			}
		}
	}
	return out
}

func stripNot(v ssa.Value, truth bool) (ssa.Value, bool) {
	for {
		u, ok := v.(*ssa.UnOp)
		if !ok || u.Op != token.NOT {
			return v, truth
		}
		v = u.X
		truth = !truth
	}
}

// factsAt returns the facts holding at instruction ins.
func factsAt(ins ssa.Instruction) []Fact { return condFacts(ins.Block()) }

// ---------------------------------------------------------------------------------------------
// value description

func constInt(v ssa.Value) (int64, bool) {
	c, ok := v.(*ssa.Const)
	if !ok || c.Value == nil {
		return 0, false
	}
	if c.Value.Kind() != constant.Int {
		return 0, false
	}
	i, ok := constant.Int64Val(c.Value)
	return i, ok
}

func isNilConst(v ssa.Value) bool {
	c, ok := v.(*ssa.Const)
	return ok && c.Value == nil
}

// stripConv removes value-preserving wrappers (ChangeType, MakeInterface, ChangeInterface, Convert between numeric types).
func stripConv(v ssa.Value) ssa.Value {
	for {
		switch x := v.(type) {
		case *ssa.ChangeType:
			v = x.X
		case *ssa.MakeInterface:
			v = x.X
		case *ssa.ChangeInterface:
			v = x.X
		case *ssa.Convert:
			v = x.X
		case *ssa.Phi:
			// a phi all of whose incoming values are one and the same value (the result variable of an inlined
			// helper that returns the same local from several places) is that value
			var one ssa.Value
			for _, e := range x.Edges {
				if e == ssa.Value(x) {
					continue
				}
				if one == nil {
					one = e
				} else if one != e {
					return v
				}
			}
			if one == nil {
				return v
			}
			v = one
		default:
			return v
		}
	}
}

// accessPath renders the origin of a value as a normalised path expression over parameters, free variables,
// globals, field selections, static calls and constants. Unknown shapes render as "?<kind>".
func accessPath(v ssa.Value) string { return accessPathD(v, 0) }

// pathEnv substitutes values (typically callee parameters bound to caller-side paths) while rendering.
var pathEnv map[ssa.Value]string

func withPathEnv(env map[ssa.Value]string, f func()) {
	old := pathEnv
	pathEnv = env
	defer func() { pathEnv = old }()
	f()
}

func accessPathD(v ssa.Value, depth int) string {
	if depth > 36 {
		return "?deep"
	}
	if pathEnv != nil {
		if s, ok := pathEnv[v]; ok {
			return s
		}
	}
	switch x := v.(type) {
	case nil:
		return "<nil>"
	case *ssa.Parameter:
		return paramName(x)
	case *ssa.FreeVar:
		return freeVarName(x)
	case *ssa.Global:
		return relPkg(x.Pkg.Pkg.Path()) + "." + x.Name()
	case *ssa.Const:
		if x.Value == nil {
			return "nil"
		}
		return x.Value.ExactString()
	case *ssa.Function:
		return "func " + fnKey(x)
	case *ssa.Alloc:
		if x.Comment != "" {
			return "&" + x.Comment
		}
		return "&alloc"
	case *ssa.FieldAddr:
		return accessPathD(x.X, depth+1) + "." + fieldName(x.X.Type(), x.Field)
	case *ssa.Field:
		if fv := localStructField(x); fv != nil {
			return accessPathD(fv, depth+1)
		}
		return accessPathD(x.X, depth+1) + "." + fieldNameV(x.X.Type(), x.Field)
	case *ssa.IndexAddr:
		return accessPathD(x.X, depth+1) + "[" + accessPathD(x.Index, depth+1) + "]"
	case *ssa.Index:
		return accessPathD(x.X, depth+1) + "[" + accessPathD(x.Index, depth+1) + "]"
	case *ssa.Lookup:
		return accessPathD(x.X, depth+1) + "[" + accessPathD(x.Index, depth+1) + "]"
	case *ssa.UnOp:
		switch x.Op {
		case token.MUL:
			if fv := localStructField(x); fv != nil {
				return accessPathD(fv, depth+1)
			}
			if al, ok := x.X.(*ssa.Alloc); ok {
				if sv := allocSingleStore(al); sv != nil {
					return accessPathD(sv, depth+1)
				}
			}
			p := accessPathD(x.X, depth+1)
			if strings.HasPrefix(p, "&") {
				return p[1:]
			}
			return p
		case token.NOT:
			return "!" + accessPathD(x.X, depth+1)
		case token.SUB:
			return "-" + accessPathD(x.X, depth+1)
		default:
			return x.Op.String() + accessPathD(x.X, depth+1)
		}
	case *ssa.BinOp:
		if ph, ok := x.X.(*ssa.Phi); ok && ph.Comment == "rangeindex" && x.Op == token.ADD {
			return "$idx"
		}
		return "(" + accessPathD(x.X, depth+1) + " " + x.Op.String() + " " + accessPathD(x.Y, depth+1) + ")"
	case *ssa.ChangeType:
		return accessPathD(x.X, depth+1)
	case *ssa.MakeInterface:
		return accessPathD(x.X, depth+1)
	case *ssa.ChangeInterface:
		return accessPathD(x.X, depth+1)
	case *ssa.Convert:
		return types.TypeString(x.Type(), shortQual) + "(" + accessPathD(x.X, depth+1) + ")"
	case *ssa.TypeAssert:
		return accessPathD(x.X, depth+1) + ".(" + types.TypeString(x.AssertedType, shortQual) + ")"
	case *ssa.Extract:
		return accessPathD(x.Tuple, depth+1) + "#" + fmt.Sprint(x.Index)
	case *ssa.Call:
		var args []string
		for _, a := range x.Call.Args {
			args = append(args, accessPathD(a, depth+1))
		}
		if s, ok := newAccessorPath(x, args, depth); ok {
			return s
		}
		if x.Call.IsInvoke() {
			return accessPathD(x.Call.Value, depth+1) + "." + x.Call.Method.Name() + "(" + strings.Join(args, ",") + ")"
		}
		if f := x.Call.StaticCallee(); f != nil {
			if f.Signature.Recv() != nil && len(args) > 0 {
				return args[0] + "." + f.Name() + "(" + strings.Join(args[1:], ",") + ")"
			}
			return calleeDesc(x) + "(" + strings.Join(args, ",") + ")"
		}
		return calleeDesc(x) + "(" + strings.Join(args, ",") + ")"
	case *ssa.Phi:
		if x.Comment == "rangeindex" {
			return "$idx"
		}
		var es []string
		for _, e := range x.Edges {
			if e == v {
				continue
			}
			es = append(es, accessPathD(e, depth+3))
		}
		return "phi(" + strings.Join(es, "|") + ")"
	case *ssa.Slice:
		return accessPathD(x.X, depth+1) + "[:]"
	case *ssa.MakeClosure:
		return "closure " + fnKey(x.Fn.(*ssa.Function))
	case *ssa.MakeMap:
		return "make(map)"
	case *ssa.MakeSlice:
		return "make(slice)"
	case *ssa.Range:
		return "range " + accessPathD(x.X, depth+1)
	case *ssa.Next:
		return "next(" + accessPathD(x.Iter, depth+1) + ")"
	}
	return fmt.Sprintf("?%T", v)
}

func fieldName(ptrT types.Type, idx int) string {
	t := ptrT.Underlying()
	if p, ok := t.(*types.Pointer); ok {
		t = p.Elem().Underlying()
	}
	if s, ok := t.(*types.Struct); ok && idx < s.NumFields() {
		return s.Field(idx).Name()
	}
	return fmt.Sprintf("f%d", idx)
}

func fieldNameV(T types.Type, idx int) string {
	if s, ok := T.Underlying().(*types.Struct); ok && idx < s.NumFields() {
		return s.Field(idx).Name()
	}
	return fmt.Sprintf("f%d", idx)
}

// fieldOf returns the (struct named type name, field name) addressed by a FieldAddr.
func fieldOf(fa *ssa.FieldAddr) (string, string) {
	t := fa.X.Type().Underlying()
	var named string
	if p, ok := t.(*types.Pointer); ok {
		if n, ok := p.Elem().(*types.Named); ok {
			named = n.Obj().Name()
			if n.Obj().Pkg() != nil {
				named = relPkg(n.Obj().Pkg().Path()) + "." + named
			}
		}
	}
	return named, fieldName(fa.X.Type(), fa.Field)
}

// fieldVar returns the *types.Var of the field addressed by fa.
func fieldVar(fa *ssa.FieldAddr) *types.Var {
	t := fa.X.Type().Underlying()
	if p, ok := t.(*types.Pointer); ok {
		if s, ok := p.Elem().Underlying().(*types.Struct); ok && fa.Field < s.NumFields() {
			return s.Field(fa.Field)
		}
	}
	return nil
}

// namedOf returns the named type behind pointers.
func namedOf(t types.Type) *types.Named {
	for {
		switch x := t.(type) {
		case *types.Pointer:
			t = x.Elem()
		case *types.Named:
			return x
		default:
			return nil
		}
	}
}

func typeIs(t types.Type, pkgRel, name string) bool {
	n := namedOf(t)
	if n == nil || n.Obj().Pkg() == nil {
		return false
	}
	return n.Obj().Name() == name && relPkg(n.Obj().Pkg().Path()) == pkgRel
}

// referrers that are not DebugRef
func refsOf(v ssa.Value) []ssa.Instruction {
	r := v.Referrers()
	if r == nil {
		return nil
	}
	var out []ssa.Instruction
	for _, x := range *r {
		if _, ok := x.(*ssa.DebugRef); ok {
			continue
		}
		out = append(out, x)
	}
	return out
}

// mustBefore computes, for every block, whether on all paths from entry to the block's start an instruction
// satisfying pred has executed. kill (optional) resets the fact.
func mustBefore(f *ssa.Function, pred func(ssa.Instruction) bool, kill func(ssa.Instruction) bool) map[*ssa.BasicBlock]bool {
	in := map[*ssa.BasicBlock]bool{}
	out := map[*ssa.BasicBlock]bool{}
	for _, b := range f.Blocks {
		in[b] = true
		out[b] = true
	}
	if len(f.Blocks) == 0 {
		return in
	}
	in[f.Blocks[0]] = false
	changed := true
	for changed {
		changed = false
		for _, b := range f.Blocks {
			v := true
			if b == f.Blocks[0] {
				v = false
			} else if len(b.Preds) == 0 {
				v = false // unreachable or recover block
			} else {
				for _, p := range b.Preds {
					v = v && out[p]
				}
			}
			o := v
			for _, ins := range b.Instrs {
				if kill != nil && kill(ins) {
					o = false
				}
				if pred(ins) {
					o = true
				}
			}
			if v != in[b] || o != out[b] {
				in[b], out[b] = v, o
				changed = true
			}
		}
	}
	return in
}

// mustBeforeInstr: on all paths from entry to ins, an instruction satisfying pred executed earlier.
func mustBeforeInstr(ins ssa.Instruction, pred func(ssa.Instruction) bool, kill func(ssa.Instruction) bool) bool {
	f := ins.Parent()
	in := mustBefore(f, pred, kill)
	v := in[ins.Block()]
	for _, x := range ins.Block().Instrs {
		if x == ins {
			break
		}
		if kill != nil && kill(x) {
			v = false
		}
		if pred(x) {
			v = true
		}
	}
	return v
}

// returnsOf lists the Return instructions of f.
func returnsOf(f *ssa.Function) []*ssa.Return {
	var out []*ssa.Return
	for _, b := range f.Blocks {
		if len(b.Instrs) == 0 {
			continue
		}
		if r, ok := b.Instrs[len(b.Instrs)-1].(*ssa.Return); ok {
			out = append(out, r)
		}
	}
	return out
}

// hasDeferredRecover: f defers a closure (or function) that calls recover().
func hasDeferredRecover(f *ssa.Function) bool {
	found := false
	eachInstr(f, func(ins ssa.Instruction) {
		d, ok := ins.(*ssa.Defer)
		if !ok {
			return
		}
		var callee *ssa.Function
		switch v := d.Call.Value.(type) {
		case *ssa.MakeClosure:
			callee, _ = v.Fn.(*ssa.Function)
		case *ssa.Function:
			callee = v
		}
		if callee != nil && callsRecover(callee) {
			found = true
		}
	})
	return found
}

func callsRecover(f *ssa.Function) bool {
	r := false
	eachInstr(f, func(ins ssa.Instruction) {
		if c, ok := ins.(*ssa.Call); ok {
			if b, ok := c.Call.Value.(*ssa.Builtin); ok && b.Name() == "recover" {
				r = true
			}
		}
	})
	return r
}

// loopBlocks returns the set of blocks that lie on some CFG cycle.
func loopBlocks(f *ssa.Function) map[*ssa.BasicBlock]bool {
	out := map[*ssa.BasicBlock]bool{}
	for _, b := range f.Blocks {
		if blockReach(b)[b] {
			out[b] = true
		}
	}
	return out
}

// ---------------------------------------------------------------------------------------------
// canonical branch facts

// canonCond renders a boolean condition with its truth folded in: comparisons become "A op B" with op in
// {==, !=, <, <=} (operands swapped / operator negated as needed, symmetric operands sorted); other values
// render as "P" or "!P".
func canonCond(v ssa.Value, truth bool) string {
	v, truth = stripNot(v, truth)
	if b, ok := v.(*ssa.BinOp); ok {
		op := b.Op
		x, y := accessPath(b.X), accessPath(b.Y)
		if !truth {
			switch op {
			case token.EQL:
				op = token.NEQ
			case token.NEQ:
				op = token.EQL
			case token.LSS:
				op = token.GEQ
			case token.LEQ:
				op = token.GTR
			case token.GTR:
				op = token.LEQ
			case token.GEQ:
				op = token.LSS
			default:
				return "!" + accessPath(v)
			}
		}
		switch op {
		case token.GTR:
			op, x, y = token.LSS, y, x
		case token.GEQ:
			op, x, y = token.LEQ, y, x
		case token.EQL, token.NEQ:
			if y < x {
				x, y = y, x
			}
		case token.LSS, token.LEQ:
		default:
			if truth {
				return accessPath(v)
			}
			return "!" + accessPath(v)
		}
		return x + " " + op.String() + " " + y
	}
	if truth {
		return accessPath(v)
	}
	return "!" + accessPath(v)
}

// canonFacts returns the canonical facts dominating block b (plus extra).
func canonFacts(b *ssa.BasicBlock, extra ...Fact) map[string]bool {
	out := map[string]bool{}
	facts := append(condFacts(b), extra...)
	// sibling refinement: a fact on a boolean phi with constant incoming values that only one incoming edge satisfies
	// (the `ok` result of an inlined helper) tells through which edge its block was entered; the other phis of that
	// block (the helper's value result) then have the value of that edge
	var env map[ssa.Value]string
	for _, f := range facts {
		phi, ok := f.Cond.(*ssa.Phi)
		if !ok {
			continue
		}
		if bt, isB := phi.Type().Underlying().(*types.Basic); !isB || bt.Kind() != types.Bool {
			continue
		}
		chosen, n := -1, 0
		for i, e := range phi.Edges {
			cv, isC := e.(*ssa.Const)
			if !isC || cv.Value == nil || cv.Value.Kind() != constant.Bool {
				n = 99
				break
			}
			if constant.BoolVal(cv.Value) == f.Truth {
				chosen = i
				n++
			}
		}
		if n != 1 || phi.Block().Dominates(phi.Block().Preds[chosen]) {
			continue
		}
		for _, ins := range phi.Block().Instrs {
			other, isPhi := ins.(*ssa.Phi)
			if !isPhi {
				break
			}
			if other == phi {
				continue
			}
			if env == nil {
				env = map[ssa.Value]string{}
				for k, v := range pathEnv {
					env[k] = v
				}
			}
			env[other] = accessPath(other.Edges[chosen])
		}
	}
	render := func() {
		for _, f := range facts {
			out[canonCond(f.Cond, f.Truth)] = true
		}
	}
	if env != nil {
		withPathEnv(env, render)
		// the unrefined renderings stay available to matchers written against them
		for _, f := range facts {
			out[canonCond(f.Cond, f.Truth)] = true
		}
	} else {
		render()
	}
	return out
}

func factList(m map[string]bool) string {
	var s []string
	for k := range m {
		s = append(s, k)
	}
	sortStrings(s)
	return strings.Join(s, "; ")
}

func sortStrings(s []string) {
	for i := 1; i < len(s); i++ {
		for j := i; j > 0 && s[j] < s[j-1]; j-- {
			s[j], s[j-1] = s[j-1], s[j]
		}
	}
}

// allPathsHit: every CFG path that starts right after `start` reaches an instruction satisfying hit
// before reaching a function exit (Return / Panic) or an instruction satisfying bad.
// Returns ok and, when not ok, the offending instruction.
func allPathsHit(start ssa.Instruction, hit func(ssa.Instruction) bool, bad func(ssa.Instruction) bool) (bool, ssa.Instruction) {
	type st struct{ b, pred *ssa.BasicBlock }
	seen := map[st]bool{}
	var fail ssa.Instruction
	var walk func(b *ssa.BasicBlock, from int, pred *ssa.BasicBlock) bool
	walk = func(b *ssa.BasicBlock, from int, pred *ssa.BasicBlock) bool {
		for i := from; i < len(b.Instrs); i++ {
			ins := b.Instrs[i]
			if hit(ins) {
				return true
			}
			if bad != nil && bad(ins) {
				fail = ins
				return false
			}
			switch ins.(type) {
			case *ssa.Return, *ssa.Panic:
				fail = ins
				return false
			}
		}
		// a branch on a boolean phi of this very block whose incoming value on the edge we came through is a constant
		// (the `stop` / `ok` result of an inlined helper) has only one feasible successor
		only := -1
		if ifi, ok := b.Instrs[len(b.Instrs)-1].(*ssa.If); ok && pred != nil {
			cond, pos := stripNot(ifi.Cond, true)
			if phi, ok := cond.(*ssa.Phi); ok && phi.Block() == b {
				for k, p := range b.Preds {
					if p != pred {
						continue
					}
					if cv, ok := phi.Edges[k].(*ssa.Const); ok && cv.Value != nil && cv.Value.Kind() == constant.Bool {
						if constant.BoolVal(cv.Value) == pos {
							only = 0
						} else {
							only = 1
						}
					}
				}
			}
		}
		for k, s := range b.Succs {
			if only >= 0 && k != only {
				continue
			}
			if seen[st{s, b}] {
				continue
			}
			seen[st{s, b}] = true
			if !walk(s, 0, b) {
				return false
			}
		}
		return true
	}
	ok := walk(start.Block(), instrIndex(start)+1, nil)
	return ok, fail
}

// allocSingleStore returns the value stored into a local allocation when there is exactly one store.
func allocSingleStore(al *ssa.Alloc) ssa.Value {
	var v ssa.Value
	n := 0
	for _, r := range refsOf(al) {
		if st, ok := r.(*ssa.Store); ok && st.Addr == ssa.Value(al) {
			n++
			v = st.Val
		}
	}
	if n == 1 {
		return v
	}
	return nil
}

// constName finds the name of the package-level constant of named type T with integer value val.
func constName(T types.Type, val int64) string {
	n, ok := T.(*types.Named)
	if !ok || n.Obj().Pkg() == nil {
		return fmt.Sprint(val)
	}
	sc := n.Obj().Pkg().Scope()
	for _, nm := range sc.Names() {
		if c, ok := sc.Lookup(nm).(*types.Const); ok && types.Identical(c.Type(), T) {
			if v, ok := constant.Int64Val(c.Val()); ok && v == val {
				return nm
			}
		}
	}
	return fmt.Sprint(val)
}

// constArgName renders a constant argument by its declared name when it has a named type.
func constArgName(v ssa.Value) string {
	if c, ok := v.(*ssa.Const); ok && c.Value != nil {
		if i, ok := constInt(c); ok {
			return constName(c.Type(), i)
		}
	}
	return accessPath(v)
}

// resolve looks through conversions and through loads of local allocations that have exactly one store
// (variables spilled to the heap because a closure captures them).
func resolve(v ssa.Value) ssa.Value {
	for i := 0; i < 8; i++ {
		v = stripConv(v)
		// a field of a small local struct that was assembled on the spot (a result struct of an inlined helper, a
		// parameter object): the value that was stored into that field
		if fv := localStructField(v); fv != nil {
			v = fv
			continue
		}
		u, ok := v.(*ssa.UnOp)
		if !ok || u.Op != token.MUL {
			return v
		}
		al, ok := u.X.(*ssa.Alloc)
		if !ok {
			return v
		}
		sv := allocSingleStore(al)
		if sv == nil {
			return v
		}
		v = sv
	}
	return v
}

// ---------------------------------------------------------------------------------------------
// canonical names of parameters: rules must not depend on how a parameter or receiver is spelled, so a
// parameter renders as {TypeName} (pointer stripped; basic types by their name; interface{} as any), with
// #k appended when several parameters of the function render alike. Captured variables render as ^{TypeName}.

func typeBaseName(t types.Type) string {
	for {
		p, ok := t.(*types.Pointer)
		if !ok {
			break
		}
		t = p.Elem()
	}
	switch x := t.(type) {
	case *types.Named:
		return x.Obj().Name()
	case *types.Basic:
		return x.Name()
	case *types.Slice:
		return "[]" + typeBaseName(x.Elem())
	case *types.Map:
		return "map"
	case *types.Signature:
		return "func"
	case *types.Interface:
		if x.NumMethods() == 0 {
			return "any"
		}
		return "iface"
	case *types.Array:
		return "[n]" + typeBaseName(x.Elem())
	}
	return "T"
}

func paramName(p *ssa.Parameter) string {
	f := p.Parent()
	base := typeBaseName(p.Type())
	if f == nil {
		return "{" + base + "}"
	}
	n, idx := 0, 0
	for _, q := range f.Params {
		if typeBaseName(q.Type()) == base {
			if q == p {
				idx = n
			}
			n++
		}
	}
	if n > 1 {
		return fmt.Sprintf("{%s#%d}", base, idx)
	}
	return "{" + base + "}"
}

func freeVarName(v *ssa.FreeVar) string {
	f := v.Parent()
	base := typeBaseName(v.Type())
	if f == nil {
		return "^{" + base + "}"
	}
	n, idx := 0, 0
	for _, q := range f.FreeVars {
		if typeBaseName(q.Type()) == base {
			if q == v {
				idx = n
			}
			n++
		}
	}
	if n > 1 {
		return fmt.Sprintf("^{%s#%d}", base, idx)
	}
	return "^{" + base + "}"
}

// reachedOnlyIfAbsent: every CFG path from the map lookup lk to instruction target takes a branch edge that asserts the
// key was absent (comma-ok false) or the looked-up value nil. Handles `if v, ok := m[k]; ok && v != nil { return v }`,
// `if m[k] == nil`, `if _, ok := m[k]; !ok`, in either branch orientation.
func reachedOnlyIfAbsent(lk *ssa.Lookup, target ssa.Instruction) bool {
	var okVal, val ssa.Value
	if lk.CommaOk {
		for _, r := range refsOf(lk) {
			if ex, isEx := r.(*ssa.Extract); isEx {
				if ex.Index == 1 {
					okVal = ex
				} else {
					val = ex
				}
			}
		}
	} else {
		val = lk
	}
	asserts := func(from *ssa.BasicBlock, succIdx int) bool {
		ifi, isIf := from.Instrs[len(from.Instrs)-1].(*ssa.If)
		if !isIf {
			return false
		}
		c, truth := stripNot(ifi.Cond, succIdx == 0)
		if okVal != nil && c == okVal && !truth {
			return true
		}
		if b, isB := c.(*ssa.BinOp); isB && val != nil {
			x, y := resolve(b.X), resolve(b.Y)
			isVal := func(v ssa.Value) bool { return v == val || resolve(val) == v }
			if (isVal(x) && isNilConst(y)) || (isVal(y) && isNilConst(x)) {
				if (b.Op == token.EQL && truth) || (b.Op == token.NEQ && !truth) {
					return true
				}
			}
		}
		return false
	}
	seen := map[*ssa.BasicBlock]bool{}
	var walk func(b *ssa.BasicBlock) bool // true = all paths from the start of b are fine
	walk = func(b *ssa.BasicBlock) bool {
		if b == target.Block() {
			return false // reached the target without an "absent" edge
		}
		if seen[b] {
			return true
		}
		seen[b] = true
		for i, s := range b.Succs {
			if asserts(b, i) {
				continue
			}
			if !walk(s) {
				return false
			}
		}
		return true
	}
	start := lk.Block()
	if start == target.Block() {
		return false
	}
	for i, s := range start.Succs {
		if asserts(start, i) {
			continue
		}
		if !walk(s) {
			return false
		}
	}
	return blockReach(start)[target.Block()]
}

// isNewHelper: a package-level, unexported function of the module that the reference tree (known_funcs.txt) does not
// have - i.e. a helper introduced by a later change. Rules that are anchored on one function extend their scope to the
// new helpers it calls, because the inlining pre-pass cannot absorb helpers that defer or recover.
func isNewHelper(fn *ssa.Function) bool {
	if fn == nil || fn.Parent() != nil || fn.Synthetic != "" || fn.Blocks == nil || !inModule(fnPkgPath(fn)) {
		return false
	}
	obj := fn.Object()
	if obj == nil || obj.Exported() {
		return false
	}
	name := fn.Name()
	if recv := fn.Signature.Recv(); recv != nil {
		if n := namedOf(recv.Type()); n != nil {
			name = n.Obj().Name() + "." + name
		}
	}
	return !loadKnownFuncs()[relPkg(fnPkgPath(fn))+"|"+name]
}

// withNewHelpers returns fs plus the new helpers (see isNewHelper) that they call or defer, transitively (depth 3),
// each with its anonymous functions.
func withNewHelpers(fs []*ssa.Function) []*ssa.Function {
	seen := map[*ssa.Function]bool{}
	var out []*ssa.Function
	var add func(f *ssa.Function, d int)
	add = func(f *ssa.Function, d int) {
		if seen[f] {
			return
		}
		seen[f] = true
		out = append(out, f)
		if d >= 3 {
			return
		}
		for _, ci := range callsIn(f) {
			if cal := ci.Common().StaticCallee(); isNewHelper(cal) {
				for _, g := range withAnon(cal) {
					add(g, d+1)
				}
			}
			// a function picked from a package-level table (`builders[kind](r)`): every new function stored in it
			for _, cal := range tableCallees(ci) {
				if isNewHelper(cal) {
					for _, g := range withAnon(cal) {
						add(g, d+1)
					}
				}
			}
		}
	}
	for _, f := range fs {
		add(f, 0)
	}
	return out
}

// tableCallees: for a dynamic call whose function value is read from a package-level map, array or slice of the
// module (directly or from a field of its elements), the functions stored in that table by the package initialiser.
func tableCallees(ci ssa.CallInstruction) []*ssa.Function {
	cc := ci.Common()
	if cc.IsInvoke() || cc.StaticCallee() != nil {
		return nil
	}
	v := resolve(cc.Value)
	var glob *ssa.Global
	path := ""
	for i := 0; i < 6 && glob == nil; i++ {
		switch x := v.(type) {
		case *ssa.Extract:
			v = x.Tuple
		case *ssa.Lookup:
			v = x.X
		case *ssa.Index:
			v = x.X
		case *ssa.Field:
			path = fieldName(x.X.Type(), x.Field)
			v = x.X
		case *ssa.UnOp:
			if x.Op != token.MUL {
				return nil
			}
			if g, ok := x.X.(*ssa.Global); ok {
				glob = g
			} else if g, _, p := tableIndexedBy(x); g != nil {
				glob, path = g, p
			} else {
				return nil
			}
		default:
			return nil
		}
	}
	if glob == nil || glob.Pkg == nil || !inModule(glob.Pkg.Pkg.Path()) {
		return nil
	}
	elems, _ := globalTable(glob)
	var out []*ssa.Function
	seen := map[*ssa.Function]bool{}
	for _, e := range elems {
		for p, val := range e {
			if p != path && path != "" {
				continue
			}
			if fn := funcOfValue(val); fn != nil && !seen[fn] {
				seen[fn] = true
				out = append(out, fn)
			}
		}
	}
	sort.Slice(out, func(i, j int) bool { return fnKey(out[i]) < fnKey(out[j]) })
	return out
}

// insideLoop: block b lies in the body of a loop - it is control dependent on a branch taken inside a cycle whose
// taken successor is itself on the cycle (a `return` inside a loop body is not on a cycle, but the test that leads
// to it is).
func insideLoop(b *ssa.BasicBlock) bool {
	loops := loopBlocks(b.Parent())
	if loops[b] {
		return true
	}
	for _, ft := range condFacts(b) {
		if ft.If == nil || ft.Edge < 0 {
			continue
		}
		hb := ft.If.Block()
		if loops[hb] && ft.Edge < len(hb.Succs) && (loops[hb.Succs[ft.Edge]] || hb.Succs[ft.Edge] == b && reachesBack(hb, ft.Edge)) {
			return true
		}
	}
	return false
}

// reachesBack: the other successor of the two-way branch in hb leads back to hb (hb is a test inside a loop body).
func reachesBack(hb *ssa.BasicBlock, edge int) bool {
	for i, s := range hb.Succs {
		if i != edge && (s == hb || blockReach(s)[hb]) {
			return true
		}
	}
	return false
}

// isNewFunc: a named function of the module (exported or not) that the reference tree does not have.
func isNewFunc(fn *ssa.Function) bool {
	if fn == nil || fn.Parent() != nil || fn.Synthetic != "" || fn.Blocks == nil || !inModule(fnPkgPath(fn)) || fn.Object() == nil {
		return false
	}
	name := fn.Name()
	if recv := fn.Signature.Recv(); recv != nil {
		if n := namedOf(recv.Type()); n != nil {
			name = n.Obj().Name() + "." + name
		}
	}
	return !loadKnownFuncs()[relPkg(fnPkgPath(fn))+"|"+name]
}

// newAccessorPath renders a call of a *new* trivial accessor (a function added after the reference tree whose whole
// body is `return <field path of a parameter>`, e.g. func (ctx *EntryContext) InputArgs() []interface{} { return
// ctx.Input.Args }) as the path it returns, so that code reading a field through such an accessor looks to the rules
// like code reading the field. Accessors of the reference tree keep their call rendering (the rules' vocabulary).
func newAccessorPath(call *ssa.Call, args []string, depth int) (string, bool) {
	fn := call.Call.StaticCallee()
	if !isNewFunc(fn) || len(fn.Blocks) != 1 || len(fn.Params) != len(args) || fn.Signature.Results().Len() != 1 {
		return "", false
	}
	var ret *ssa.Return
	for _, ins := range fn.Blocks[0].Instrs {
		switch x := ins.(type) {
		case *ssa.FieldAddr, *ssa.Field, *ssa.DebugRef:
		case *ssa.UnOp:
			if x.Op != token.MUL {
				return "", false
			}
		case *ssa.Return:
			ret = x
		default:
			return "", false
		}
	}
	if ret == nil || len(ret.Results) != 1 {
		return "", false
	}
	env := map[ssa.Value]string{}
	for k, v := range pathEnv {
		env[k] = v
	}
	for i, prm := range fn.Params {
		env[prm] = args[i]
	}
	out := ""
	withPathEnv(env, func() { out = accessPathD(ret.Results[0], depth+1) })
	return out, true
}

// flipCmp: the operator of `b op' a` equivalent to `a op b`.
func flipCmp(op token.Token) token.Token {
	switch op {
	case token.LSS:
		return token.GTR
	case token.GTR:
		return token.LSS
	case token.LEQ:
		return token.GEQ
	case token.GEQ:
		return token.LEQ
	}
	return op
}

// mustPassAssuming: on every path from `start` (exclusive) to a return, under the branch decisions of `decide` (which
// may rule out one successor of an If: tests whose outcome an assumption fixes), an instruction satisfying `hit` is
// passed. It returns the first return reached without one. Panicking exits are not returns.
func mustPassAssuming(start ssa.Instruction, decide func(*ssa.If) (takeTrue, takeFalse bool), hit func(ssa.Instruction) bool) (bool, *ssa.Return) {
	type st struct {
		b   *ssa.BasicBlock
		hit bool
	}
	seen := map[st]bool{}
	var bad *ssa.Return
	var walk func(b *ssa.BasicBlock, from int, h bool)
	walk = func(b *ssa.BasicBlock, from int, h bool) {
		if bad != nil {
			return
		}
		for _, ins := range b.Instrs[from:] {
			if hit(ins) {
				h = true
			}
			switch x := ins.(type) {
			case *ssa.Return:
				if !h {
					bad = x
				}
				return
			case *ssa.Panic:
				return
			case *ssa.If:
				t, f := decide(x)
				if t && !seen[st{b.Succs[0], h}] {
					seen[st{b.Succs[0], h}] = true
					walk(b.Succs[0], 0, h)
				}
				if f && !seen[st{b.Succs[1], h}] {
					seen[st{b.Succs[1], h}] = true
					walk(b.Succs[1], 0, h)
				}
				return
			}
		}
		for _, s := range b.Succs {
			if !seen[st{s, h}] {
				seen[st{s, h}] = true
				walk(s, 0, h)
			}
		}
	}
	walk(start.Block(), instrIndex(start)+1, false)
	return bad == nil, bad
}

// nilTestDecider: an If that compares a value whose access path is `path` with nil is decided as if the value were
// non-nil (isNil=false) or nil (isNil=true); every other If goes both ways.
func nilTestDecider(path string, isNil bool) func(*ssa.If) (bool, bool) {
	return func(i *ssa.If) (bool, bool) {
		cond, pos := stripNot(i.Cond, true)
		bo, ok := cond.(*ssa.BinOp)
		if !ok || (bo.Op != token.EQL && bo.Op != token.NEQ) {
			return true, true
		}
		var other ssa.Value
		if isNilConst(bo.Y) {
			other = bo.X
		} else if isNilConst(bo.X) {
			other = bo.Y
		}
		if other == nil || accessPath(other) != path {
			return true, true
		}
		v := (bo.Op == token.EQL) == isNil
		if !pos {
			v = !v
		}
		return v, !v
	}
}

// returnedCases: the alternatives of result idx of f. When f defers, go/ssa spills the results into locals and every
// return loads them back: the alternatives are then the values stored into that local (each with the block of its store).
func returnedCases(f *ssa.Function, idx int) []retCase {
	var out []retCase
	seenAlloc := map[*ssa.Alloc]bool{}
	for _, r := range returnsOf(f) {
		if idx >= len(r.Results) {
			continue
		}
		if ld, ok := r.Results[idx].(*ssa.UnOp); ok && ld.Op == token.MUL {
			if al, ok := ld.X.(*ssa.Alloc); ok && !al.Heap {
				if seenAlloc[al] {
					continue
				}
				seenAlloc[al] = true
				for _, ref := range refsOf(al) {
					if st, ok := ref.(*ssa.Store); ok && st.Addr == ssa.Value(al) {
						out = append(out, splitPhiCases(st.Val, st.Block(), nil, 0)...)
					}
				}
				continue
			}
		}
		out = append(out, returnValueCases(r, idx)...)
	}
	return out
}

// localStructField: v reads field k of a struct held in a local (`s.k` as a load through FieldAddr, or Field of a loaded
// struct value) and that local got field k from exactly one store (directly, or by one whole-struct copy of another
// such local). It returns the stored value, or nil.
func localStructField(v ssa.Value) ssa.Value {
	var al *ssa.Alloc
	idx := -1
	switch x := v.(type) {
	case *ssa.UnOp:
		if x.Op != token.MUL {
			return nil
		}
		fa, ok := x.X.(*ssa.FieldAddr)
		if !ok {
			return nil
		}
		a, ok := fa.X.(*ssa.Alloc)
		if !ok {
			return nil
		}
		al, idx = a, fa.Field
	case *ssa.Field:
		ld, ok := stripConv(x.X).(*ssa.UnOp)
		if !ok || ld.Op != token.MUL {
			return nil
		}
		a, ok := ld.X.(*ssa.Alloc)
		if !ok {
			return nil
		}
		al, idx = a, x.Field
	default:
		return nil
	}
	return structFieldOfAlloc(al, idx, 0)
}

func structFieldOfAlloc(al *ssa.Alloc, idx int, depth int) ssa.Value {
	if depth > 4 {
		return nil
	}
	if _, isStruct := al.Type().(*types.Pointer).Elem().Underlying().(*types.Struct); !isStruct {
		return nil
	}
	var fieldStores, wholeStores []*ssa.Store
	escapes := false
	for _, r := range refsOf(al) {
		switch x := r.(type) {
		case *ssa.FieldAddr:
			for _, r2 := range refsOf(x) {
				switch y := r2.(type) {
				case *ssa.Store:
					if y.Addr == ssa.Value(x) && x.Field == idx {
						fieldStores = append(fieldStores, y)
					}
				case *ssa.UnOp:
				default:
					if x.Field == idx {
						escapes = true // the field's address is handed to something
					}
				}
			}
		case *ssa.Store:
			if x.Addr == ssa.Value(al) {
				wholeStores = append(wholeStores, x)
			} else {
				escapes = true
			}
		case *ssa.UnOp, *ssa.DebugRef:
		default:
			escapes = true
		}
	}
	if escapes {
		return nil
	}
	var nz []*ssa.Store
	for _, s := range wholeStores {
		if k, ok := s.Val.(*ssa.Const); ok && k.Value == nil {
			continue
		}
		nz = append(nz, s)
	}
	switch {
	case len(fieldStores) == 1 && len(nz) == 0:
		return fieldStores[0].Val
	case len(fieldStores) == 0 && len(nz) == 1:
		if ld, ok := stripConv(nz[0].Val).(*ssa.UnOp); ok && ld.Op == token.MUL {
			if src, ok := ld.X.(*ssa.Alloc); ok {
				return structFieldOfAlloc(src, idx, depth+1)
			}
		}
	}
	return nil
}

// localStructFieldCases: like localStructField, but the local may be assigned as a whole in several places (each from a
// composite built on the spot, or from another such local): every alternative with the block it was assigned in.
func localStructFieldCases(v ssa.Value) []retCase {
	var al *ssa.Alloc
	idx := -1
	switch x := v.(type) {
	case *ssa.UnOp:
		if x.Op != token.MUL {
			return nil
		}
		fa, ok := x.X.(*ssa.FieldAddr)
		if !ok {
			return nil
		}
		a, ok := fa.X.(*ssa.Alloc)
		if !ok {
			return nil
		}
		al, idx = a, fa.Field
	case *ssa.Field:
		// Field of a loaded struct, or of a phi of loaded structs
		switch y := stripConv(x.X).(type) {
		case *ssa.UnOp:
			if y.Op != token.MUL {
				return nil
			}
			a, ok := y.X.(*ssa.Alloc)
			if !ok {
				return nil
			}
			al, idx = a, x.Field
		case *ssa.Phi:
			return structValueFieldCases(y, x.Field, y.Block(), 0)
		default:
			return nil
		}
	default:
		return nil
	}
	return structFieldCasesOfAlloc(al, idx, 0)
}

func structFieldCasesOfAlloc(al *ssa.Alloc, idx int, depth int) (res []retCase) {
	if os.Getenv("SG_DEBUG_HS") != "" {
		defer func() { fmt.Fprintf(os.Stderr, "  sfc alloc=%v idx=%d depth=%d -> %d\n", al, idx, depth, len(res)) }()
	}
	if depth > 4 {
		return nil
	}
	if _, isStruct := al.Type().(*types.Pointer).Elem().Underlying().(*types.Struct); !isStruct {
		return nil
	}
	var fieldStores, wholeStores []*ssa.Store
	for _, r := range refsOf(al) {
		switch x := r.(type) {
		case *ssa.FieldAddr:
			for _, r2 := range refsOf(x) {
				switch y := r2.(type) {
				case *ssa.Store:
					if y.Addr == ssa.Value(x) && x.Field == idx {
						fieldStores = append(fieldStores, y)
					}
				case *ssa.UnOp:
				default:
					if x.Field == idx {
						return nil
					}
				}
			}
		case *ssa.Store:
			if x.Addr == ssa.Value(al) {
				wholeStores = append(wholeStores, x)
			} else {
				return nil
			}
		case *ssa.UnOp, *ssa.DebugRef:
		default:
			if os.Getenv("SG_DEBUG_HS") != "" {
				fmt.Fprintf(os.Stderr, "    odd ref %T %v\n", r, r)
			}
			return nil
		}
	}
	var nz []*ssa.Store
	for _, s := range wholeStores {
		if k, ok := s.Val.(*ssa.Const); ok && k.Value == nil {
			continue
		}
		nz = append(nz, s)
	}
	if os.Getenv("SG_DEBUG_HS") != "" {
		fmt.Fprintf(os.Stderr, "    fieldStores=%d whole=%d nz=%d\n", len(fieldStores), len(wholeStores), len(nz))
	}
	switch {
	case len(fieldStores) >= 1 && len(nz) == 0:
		// one store, or one per branch (a result struct built in place in each returning branch)
		var out []retCase
		for _, fs := range fieldStores {
			out = append(out, retCase{val: fs.Val, block: fs.Block()})
		}
		return out
	case len(fieldStores) == 0 && len(nz) >= 1:
		var out []retCase
		for _, s := range nz {
			sub := structValueFieldCases(s.Val, idx, s.Block(), depth+1)
			if len(sub) == 0 {
				return nil
			}
			for _, c := range sub {
				if len(nz) > 1 && len(sub) == 1 {
					c.block = s.Block() // the facts of the place where this alternative was assigned
				}
				out = append(out, c)
			}
		}
		return out
	}
	return nil
}

// structValueFieldCases: field idx of a struct-typed SSA value: a struct loaded from a local, or a phi of such values
// (a result variable assigned in several branches).
func structValueFieldCases(v ssa.Value, idx int, blk *ssa.BasicBlock, depth int) []retCase {
	if depth > 6 {
		return nil
	}
	switch x := stripConv(v).(type) {
	case *ssa.UnOp:
		if x.Op != token.MUL {
			return nil
		}
		if src, ok := x.X.(*ssa.Alloc); ok {
			return structFieldCasesOfAlloc(src, idx, depth+1)
		}
	case *ssa.Phi:
		var out []retCase
		for i, e := range x.Edges {
			if e == ssa.Value(x) {
				continue
			}
			pred := x.Block().Preds[i]
			sub := structValueFieldCases(e, idx, pred, depth+1)
			if len(sub) == 0 {
				return nil
			}
			ef := edgeFact(pred, x.Block())
			for _, c := range sub {
				c.extra = append(append([]Fact{}, ef...), c.extra...)
				if len(sub) == 1 {
					c.block = pred
				}
				out = append(out, c)
			}
		}
		return out
	}
	return nil
}

// sameValue: a and b denote one and the same value: identical, or both resolve (through single-assignment locals and
// the fields of small local structs) to the same defining value.
func sameValue(a, b ssa.Value) bool {
	if a == b {
		return true
	}
	ra, rb := resolve(a), resolve(b)
	if ra == rb {
		return true
	}
	// two loads of the same field of the same local struct (assigned as a whole from a call result)
	la, ok1 := ra.(*ssa.UnOp)
	lb, ok2 := rb.(*ssa.UnOp)
	if ok1 && ok2 && la.Op == token.MUL && lb.Op == token.MUL {
		fa, ok1 := la.X.(*ssa.FieldAddr)
		fb, ok2 := lb.X.(*ssa.FieldAddr)
		if ok1 && ok2 && fa.Field == fb.Field {
			if aa, ok := fa.X.(*ssa.Alloc); ok && fa.X == fb.X {
				// no store to that field between is assumed when the local has a single whole-struct store
				n := 0
				for _, r := range refsOf(aa) {
					if st, ok := r.(*ssa.Store); ok && st.Addr == ssa.Value(aa) {
						n++
					}
				}
				return n <= 1
			}
		}
	}
	return false
}

// callPart: v is component idx of the result of a call - an element of its result tuple, or (when the callee returns one
// small struct instead) field idx of that struct, read directly or through a local the result was stored in.
func callPart(v ssa.Value) (*ssa.Call, int, bool) {
	switch x := stripConv(v).(type) {
	case *ssa.Extract:
		if call, ok := x.Tuple.(*ssa.Call); ok {
			return call, x.Index, true
		}
	case *ssa.Field:
		base := stripConv(x.X)
		if ld, ok := base.(*ssa.UnOp); ok && ld.Op == token.MUL {
			if al, ok := ld.X.(*ssa.Alloc); ok {
				base = allocSingleStore(al)
			}
		}
		if call := structCallOf(base); call != nil {
			return call, x.Field, true
		}
	case *ssa.UnOp:
		if x.Op == token.MUL {
			if fa, ok := x.X.(*ssa.FieldAddr); ok {
				if al, ok := fa.X.(*ssa.Alloc); ok {
					if call := structCallOf(allocSingleStore(al)); call != nil {
						return call, fa.Field, true
					}
				}
			}
		}
	}
	return nil, 0, false
}

// structCallOf: v is the struct a call returns - the call itself, or element 0 of its (struct, error) result tuple.
func structCallOf(v ssa.Value) *ssa.Call {
	switch x := v.(type) {
	case *ssa.Call:
		return x
	case *ssa.Extract:
		if call, ok := x.Tuple.(*ssa.Call); ok && x.Index == 0 {
			if _, isStruct := x.Type().Underlying().(*types.Struct); isStruct {
				return call
			}
		}
	}
	return nil
}

// returnPart: component idx of what r returns: Results[idx], or field idx of the single struct result when that struct
// is assembled in a local at the return (nil if it cannot be read off).
func returnPart(r *ssa.Return, idx int) ssa.Value {
	if len(r.Results) == 0 {
		return nil
	}
	if _, isStruct := r.Results[0].Type().Underlying().(*types.Struct); len(r.Results) > 1 && !isStruct {
		if idx < len(r.Results) {
			return r.Results[idx]
		}
		return nil
	}
	if _, isStruct := r.Results[0].Type().Underlying().(*types.Struct); !isStruct {
		if idx == 0 {
			return r.Results[0]
		}
		return nil
	}
	if k, isK := stripConv(r.Results[0]).(*ssa.Const); isK && k.Value == nil {
		if st, ok := k.Type().Underlying().(*types.Struct); ok && idx < st.NumFields() {
			return ssa.NewConst(nil, st.Field(idx).Type()) // the zero struct
		}
	}
	ld, ok := stripConv(r.Results[0]).(*ssa.UnOp)
	if !ok || ld.Op != token.MUL {
		return nil
	}
	al, ok := ld.X.(*ssa.Alloc)
	if !ok {
		return nil
	}
	// the store of that field that reaches this return: the one in the return's own block, else the only one
	var cands []*ssa.Store
	for _, ref := range refsOf(al) {
		if fa, ok := ref.(*ssa.FieldAddr); ok && fa.Field == idx {
			for _, r2 := range refsOf(fa) {
				if st, ok := r2.(*ssa.Store); ok && st.Addr == ssa.Value(fa) {
					cands = append(cands, st)
				}
			}
		}
	}
	for _, st := range cands {
		if st.Block() == r.Block() {
			return st.Val
		}
	}
	if len(cands) == 1 {
		return cands[0].Val
	}
	if len(cands) == 0 {
		// field left at its zero value
		if st, ok := al.Type().(*types.Pointer).Elem().Underlying().(*types.Struct); ok && idx < st.NumFields() {
			return ssa.NewConst(nil, st.Field(idx).Type())
		}
	}
	return nil
}

// globalTable reads a package-level table (an array, a slice or a map with constant integer keys, of structs or of
// plain values) from the stores of its package initialiser: element key -> field path ("" for a plain element) ->
// stored value. ok is false when an element is written under a key that is not a constant.
func globalTable(glob *ssa.Global) (elems map[int64]map[string]ssa.Value, ok bool) {
	elems = map[int64]map[string]ssa.Value{}
	if glob == nil || glob.Pkg == nil {
		return elems, false
	}
	pini := glob.Pkg.Func("init")
	if pini == nil {
		return elems, false
	}
	roots := map[ssa.Value]bool{glob: true}
	eachInstr(pini, func(ins ssa.Instruction) {
		if st, k := ins.(*ssa.Store); k && st.Addr == ssa.Value(glob) {
			switch x := st.Val.(type) {
			case *ssa.Slice:
				roots[x.X] = true
			case *ssa.MakeMap:
				roots[x] = true
			}
		}
	})
	ok = true
	put := func(j int64, path string, v ssa.Value) {
		if elems[j] == nil {
			elems[j] = map[string]ssa.Value{}
		}
		elems[j][path] = v
	}
	eachInstr(pini, func(ins ssa.Instruction) {
		switch x := ins.(type) {
		case *ssa.Store:
			root, path := fieldPathOf(x.Addr)
			ia, k := root.(*ssa.IndexAddr)
			if !k || !roots[ia.X] {
				return
			}
			j, k := constInt(ia.Index)
			if !k {
				ok = false
				return
			}
			put(j, path, x.Val)
		case *ssa.MapUpdate:
			if !roots[x.Map] {
				return
			}
			j, k := constInt(x.Key)
			if !k {
				ok = false
				return
			}
			put(j, "", x.Value)
		}
	})
	return elems, ok
}

// funcOfValue: the function a function-typed value denotes (a function, a closure without captured state that
// matters here, or a conversion of one); nil when it is not statically one function.
func funcOfValue(v ssa.Value) *ssa.Function {
	for {
		switch x := v.(type) {
		case *ssa.Function:
			return x
		case *ssa.MakeClosure:
			f, _ := x.Fn.(*ssa.Function)
			return f
		case *ssa.ChangeType:
			v = x.X
		default:
			return nil
		}
	}
}

// tableIndexedBy: v is a value read from (or an address into) element table[idx] of a package-level table; returns the
// table, the index value and the field path read.
func tableIndexedBy(v ssa.Value) (glob *ssa.Global, idx ssa.Value, path string) {
	globOf := func(t ssa.Value) *ssa.Global {
		switch x := t.(type) {
		case *ssa.Global:
			return x
		case *ssa.UnOp:
			if g, ok := x.X.(*ssa.Global); ok && x.Op == token.MUL {
				return g
			}
		}
		return nil
	}
	join := func(a, b string) string {
		switch {
		case a == "":
			return b
		case b == "":
			return a
		}
		return a + "." + b
	}
	for i := 0; i < 6; i++ {
		v = stripConv(v)
		switch x := v.(type) {
		case *ssa.Field: // a field of an element that was loaded as a whole
			path = join(fieldName(x.X.Type(), x.Field), path)
			v = x.X
			continue
		case *ssa.Index: // an element of the table loaded as a whole array
			if g := globOf(x.X); g != nil {
				return g, x.Index, path
			}
			return nil, nil, ""
		case *ssa.UnOp:
			if x.Op != token.MUL {
				return nil, nil, ""
			}
			root, p := fieldPathOf(x.X)
			path = join(p, path)
			switch r := root.(type) {
			case *ssa.IndexAddr:
				if g := globOf(r.X); g != nil {
					return g, r.Index, path
				}
				return nil, nil, ""
			case *ssa.Alloc: // a local copy of the element (`col := table[i]`)
				sv := allocSingleStore(r)
				if sv == nil {
					return nil, nil, ""
				}
				v = sv
				continue
			}
			return nil, nil, ""
		case *ssa.IndexAddr, *ssa.FieldAddr:
			root, p := fieldPathOf(x)
			path = join(p, path)
			if r, ok := root.(*ssa.IndexAddr); ok {
				if g := globOf(r.X); g != nil {
					return g, r.Index, path
				}
			}
			return nil, nil, ""
		default:
			return nil, nil, ""
		}
	}
	return nil, nil, ""
}

// dependsOnValue: some value in the operand closure of v (through arithmetic, conversions, phis, loads of local
// struct fields) satisfies pred.
func dependsOnValue(v ssa.Value, pred func(ssa.Value) bool) bool {
	seen := map[ssa.Value]bool{}
	var walk func(x ssa.Value, d int) bool
	walk = func(x ssa.Value, d int) bool {
		if x == nil || seen[x] || d > 24 {
			return false
		}
		seen[x] = true
		if pred(x) {
			return true
		}
		if r := resolve(x); r != x && walk(r, d+1) {
			return true
		}
		ins, ok := x.(ssa.Instruction)
		if !ok {
			return false
		}
		if _, isCall := x.(*ssa.Call); isCall {
			return false // the result of another call is a new origin
		}
		for _, op := range ins.Operands(nil) {
			if op != nil && *op != nil && walk(*op, d+1) {
				return true
			}
		}
		return false
	}
	return walk(v, 0)
}

// mustPrecede: on every CFG path from the function entry to target an instruction satisfying hit is executed first.
func mustPrecede(target ssa.Instruction, hit func(ssa.Instruction) bool) bool {
	seen := map[*ssa.BasicBlock]bool{}
	var back func(b *ssa.BasicBlock, upto int) bool
	back = func(b *ssa.BasicBlock, upto int) bool {
		for i := upto - 1; i >= 0; i-- {
			if hit(b.Instrs[i]) {
				return true
			}
		}
		if len(b.Preds) == 0 {
			return false // reached the entry (or a recover block) without passing one
		}
		for _, p := range b.Preds {
			if seen[p] {
				continue
			}
			seen[p] = true
			if !back(p, len(p.Instrs)) {
				return false
			}
		}
		return true
	}
	return back(target.Block(), instrIndex(target))
}
