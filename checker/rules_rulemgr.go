package main

import (
	"fmt"
	"go/token"
	"go/types"
	"sort"
	"strings"

	"golang.org/x/tools/go/ssa"
)

// Rule manager rules: C13, C14 (and C18 for the converters).

type ruleModule struct {
	pkg      string   // relative package
	ruleType string   // pkg.Rule
	validity []string // validity function specs
	loaders  []string // exported load entry points
	updaters []string // internal update paths
	getters  []string
	enforced []string // globals holding what governs traffic
	reported []string // globals the getters read (may equal enforced)
	current  string
}

var ruleModules = []ruleModule{
	{pkg: "core/flow", validity: []string{"core/flow.IsValidRule"},
		loaders:  []string{"core/flow.LoadRules", "core/flow.LoadRulesOfResource"},
		updaters: []string{"core/flow.onRuleUpdate", "core/flow.onResourceRuleUpdate"},
		getters:  []string{"core/flow.GetRules", "core/flow.GetRulesOfResource"},
		enforced: []string{"core/flow.tcMap"}, reported: []string{"core/flow.tcMap"}, current: "core/flow.currentRules"},
	{pkg: "core/isolation", validity: []string{"core/isolation.IsValidRule"},
		loaders:  []string{"core/isolation.LoadRules", "core/isolation.LoadRulesOfResource"},
		updaters: []string{"core/isolation.onRuleUpdate", "core/isolation.onResourceRuleUpdate"},
		getters:  []string{"core/isolation.GetRules", "core/isolation.GetRulesOfResource"},
		enforced: []string{"core/isolation.ruleMap"}, reported: []string{"core/isolation.ruleMap"}, current: "core/isolation.currentRules"},
	{pkg: "core/hotspot", validity: []string{"core/hotspot.IsValidRule"},
		loaders:  []string{"core/hotspot.LoadRules", "core/hotspot.LoadRulesOfResource"},
		updaters: []string{"core/hotspot.onRuleUpdate", "core/hotspot.onResourceRuleUpdate"},
		getters:  []string{"core/hotspot.GetRules", "core/hotspot.GetRulesOfResource"},
		enforced: []string{"core/hotspot.tcMap"}, reported: []string{"core/hotspot.tcMap"}, current: "core/hotspot.currentRules"},
	{pkg: "core/circuitbreaker", validity: []string{"core/circuitbreaker.IsValidRule"},
		loaders:  []string{"core/circuitbreaker.LoadRules", "core/circuitbreaker.LoadRulesOfResource"},
		updaters: []string{"core/circuitbreaker.onRuleUpdate", "core/circuitbreaker.onResourceRuleUpdate"},
		getters:  []string{"core/circuitbreaker.GetRules", "core/circuitbreaker.GetRulesOfResource"},
		enforced: []string{"core/circuitbreaker.breakers"}, reported: []string{"core/circuitbreaker.breakerRules"}, current: "core/circuitbreaker.currentRules"},
	{pkg: "core/system", validity: []string{"core/system.IsValidSystemRule"},
		loaders:  []string{"core/system.LoadRules"},
		updaters: []string{"core/system.onRuleUpdate", "core/system.buildRuleMap"},
		getters:  []string{"core/system.GetRules"},
		enforced: []string{"core/system.ruleMap"}, reported: []string{"core/system.ruleMap"}, current: "core/system.currentRules"},
	{pkg: "core/outlier", validity: []string{"core/outlier.IsValidRule", "core/circuitbreaker.IsValidRule"},
		loaders:  []string{"core/outlier.LoadRules", "core/outlier.LoadRuleOfResource"},
		updaters: []string{"core/outlier.onRuleUpdate", "core/outlier.onResourceRuleUpdate"},
		getters:  []string{"core/outlier.GetRules"},
		enforced: []string{"core/outlier.outlierRules", "core/outlier.breakerRules"}, reported: []string{"core/outlier.outlierRules"}, current: "core/outlier.currentRules"},
}

func isValidityFunc(f *ssa.Function) bool {
	if f == nil {
		return false
	}
	n := f.Name()
	return strings.HasPrefix(n, "IsValid") && strings.HasSuffix(n, "Rule") && f.Signature.Results().Len() == 1
}

// validatedElems returns the values that a dominating successful validity call has accepted at block b.
func validatedElems(b *ssa.BasicBlock) map[ssa.Value]bool {
	out := map[ssa.Value]bool{}
	for _, ft := range condFacts(b) {
		bo, ok := ft.Cond.(*ssa.BinOp)
		if !ok || (bo.Op != token.NEQ && bo.Op != token.EQL) {
			continue
		}
		var other ssa.Value
		if isNilConst(bo.Y) {
			other = bo.X
		} else if isNilConst(bo.X) {
			other = bo.Y
		} else {
			continue
		}
		isNil := (bo.Op == token.NEQ && !ft.Truth) || (bo.Op == token.EQL && ft.Truth)
		if !isNil {
			continue
		}
		var call *ssa.Call
		switch x := other.(type) {
		case *ssa.Call:
			call = x
		case *ssa.UnOp:
			// load of a local error variable: the nearest preceding store in the same block
			if al, ok := x.X.(*ssa.Alloc); ok {
				blk := x.Block()
				idx := instrIndex(x)
				for i := idx - 1; i >= 0; i-- {
					if st, ok := blk.Instrs[i].(*ssa.Store); ok && st.Addr == ssa.Value(al) {
						call, _ = st.Val.(*ssa.Call)
						break
					}
				}
			}
		}
		if call == nil || !isValidityFunc(call.Call.StaticCallee()) || len(call.Call.Args) == 0 {
			continue
		}
		out[resolve(call.Call.Args[0])] = true
		out[call.Call.Args[0]] = true
	}
	return out
}

type validator struct {
	P    *Program
	memo map[ssa.Value]int
	why  string
}

// elemValidated: is the rule pointer e accepted by a validity function at block b (or a field of a validated rule)?
func (v *validator) elemValidated(e ssa.Value, b *ssa.BasicBlock) bool {
	ve := validatedElems(b)
	if ve[e] || ve[resolve(e)] {
		return true
	}
	// the embedded circuit-breaker rule of a validated outlier rule: *Rule field load of a validated element
	if u, ok := resolve(e).(*ssa.UnOp); ok && u.Op == token.MUL {
		if fa, ok := u.X.(*ssa.FieldAddr); ok && (ve[fa.X] || ve[resolve(fa.X)]) {
			return true
		}
	}
	// accept values by access path identity as well (re-loads of the same range variable)
	p := accessPath(e)
	for x := range ve {
		if accessPath(x) == p {
			return true
		}
	}
	return false
}

// listValidated: does the slice / map value contain only validated rules?
func (v *validator) listValidated(x ssa.Value, depth int) bool {
	if depth > 10 {
		v.why = "too deep"
		return false
	}
	if v.memo == nil {
		v.memo = map[ssa.Value]int{}
	}
	switch v.memo[x] {
	case 1:
		return true // in progress (loop-carried phi): decided by the other edges
	case 2:
		return true
	case 3:
		return false
	}
	v.memo[x] = 1
	ok := v.listValidated0(x, depth)
	if ok {
		v.memo[x] = 2
	} else {
		v.memo[x] = 3
	}
	return ok
}

func (v *validator) listValidated0(x ssa.Value, depth int) bool {
	switch t := x.(type) {
	case *ssa.Const:
		return t.Value == nil
	case *ssa.MakeSlice, *ssa.MakeMap:
		// a map is validated when all its updates are
		for _, r := range refsOf(x) {
			if mu, ok := r.(*ssa.MapUpdate); ok && mu.Map == x {
				if _, isSlice := mu.Value.Type().Underlying().(*types.Slice); isSlice {
					if !v.listValidated(mu.Value, depth+1) {
						return false
					}
				} else if !v.elemValidated(mu.Value, mu.Block()) {
					v.why = "map entry " + accessPath(mu.Value) + " stored without a successful validity check"
					return false
				}
			}
		}
		return true
	case *ssa.Phi:
		for _, e := range t.Edges {
			if !v.listValidated(e, depth+1) {
				return false
			}
		}
		return true
	case *ssa.Slice:
		if al, ok := t.X.(*ssa.Alloc); ok {
			// composite literal / varargs array: every stored element must be validated
			for _, r := range refsOf(al) {
				if ia, ok := r.(*ssa.IndexAddr); ok {
					for _, r2 := range refsOf(ia) {
						if st, ok := r2.(*ssa.Store); ok && st.Addr == ssa.Value(ia) {
							if !v.elemValidated(st.Val, st.Block()) {
								v.why = "element " + accessPath(st.Val) + " is not dominated by a successful validity check"
								return false
							}
						}
					}
				}
			}
			return true
		}
		return v.listValidated(t.X, depth+1)
	case *ssa.Call:
		if b, ok := t.Call.Value.(*ssa.Builtin); ok && b.Name() == "append" {
			if !v.listValidated(t.Call.Args[0], depth+1) {
				return false
			}
			if len(t.Call.Args) > 1 {
				return v.listValidated(t.Call.Args[1], depth+1)
			}
			return true
		}
		if cal := t.Call.StaticCallee(); cal != nil && inModule(fnPkgPath(cal)) && cal.Blocks != nil {
			for _, r := range returnsOf(cal) {
				if !v.listValidated(r.Results[0], depth+1) {
					return false
				}
			}
			return true
		}
	case *ssa.UnOp:
		if al, ok := t.X.(*ssa.Alloc); ok {
			n := 0
			for _, r := range refsOf(al) {
				if st, ok := r.(*ssa.Store); ok && st.Addr == ssa.Value(al) {
					n++
					if !v.listValidated(st.Val, depth+1) {
						return false
					}
				}
			}
			return n > 0
		}
	case *ssa.Extract:
		// value of a range over / lookup in a validated map
		switch src := t.Tuple.(type) {
		case *ssa.Next:
			if rg, ok := src.Iter.(*ssa.Range); ok && t.Index == 2 {
				return v.listValidated(rg.X, depth+1)
			}
		case *ssa.Lookup:
			if t.Index == 0 {
				return v.listValidated(src.X, depth+1)
			}
		}
	case *ssa.Lookup:
		return v.listValidated(t.X, depth+1)
	case *ssa.Parameter:
		f := t.Parent()
		callers := v.P.StaticCallers(f)
		if obj := f.Object(); obj != nil && !obj.Exported() && len(callers) > 0 {
			idx := -1
			for i, p := range f.Params {
				if p == t {
					idx = i
				}
			}
			for _, cs := range callers {
				if isTestOrExample(cs.Parent()) {
					continue
				}
				if idx < 0 || idx >= len(cs.Common().Args) || !v.listValidated(cs.Common().Args[idx], depth+1) {
					return false
				}
			}
			return true
		}
		v.why = "the caller's raw list `" + t.Name() + "` (never filtered by the validity check)"
		return false
	}
	if v.why == "" {
		v.why = "origin " + accessPath(x) + " not recognised as a filtered list"
	}
	return false
}

func init() {
	register(&Rule{
		ID: "rules.nil-safe-load", Props: []string{"C13", "C18"}, Floor: 11,
		Doc: "in every rule-load entry point (LoadRules / LoadRulesOfResource / LoadRuleOfResource of the six modules) and in the datasource's rule converters, no element of the caller-supplied rule slice is dereferenced without a dominating nil test, unless the function has a deferred recover that turns the panic into an error (loading never panics)",
		Run: func(c *Ctx) {
			var entries []*ssa.Function
			for _, m := range ruleModules {
				for _, l := range m.loaders {
					f := c.P.Func(l)
					if f == nil {
						c.AnchorLost(l)
						continue
					}
					entries = append(entries, f)
				}
			}
			for _, f := range c.P.FuncsIn(modPath + "/ext/datasource") {
				if f.Parent() == nil && !isTestOrExample(f) {
					entries = append(entries, f)
				}
			}
			for _, f := range entries {
				// pointer-typed elements of slice parameters / locals decoded from payloads
				n, bad := 0, 0
				seenElem := map[string]bool{}
				recovers := hasDeferredRecover(f)
				eachInstr(f, func(ins ssa.Instruction) {
					fa, ok := ins.(*ssa.FieldAddr)
					if !ok {
						return
					}
					base := resolve(fa.X)
					// element of a slice: load of IndexAddr, or range value
					var slice ssa.Value
					if u, ok := base.(*ssa.UnOp); ok && u.Op == token.MUL {
						if ia, ok := u.X.(*ssa.IndexAddr); ok {
							slice = ia.X
						}
					}
					if slice == nil {
						return
					}
					if _, isPtr := base.Type().Underlying().(*types.Pointer); !isPtr {
						return
					}
					// only slices that come from outside: parameters or decoded payloads (not freshly built ones)
					external := false
					if _, ok := resolve(slice).(*ssa.Parameter); ok {
						external = true
					}
					if u, ok := slice.(*ssa.UnOp); ok {
						if al, ok := u.X.(*ssa.Alloc); ok {
							// a local whose address is handed to a decoder (json.Unmarshal(src, &local))
							for _, r := range refsOf(al) {
								if ci, ok := r.(ssa.CallInstruction); ok && ci.Common().StaticCallee() != nil && !inModule(fnPkgPath(ci.Common().StaticCallee())) {
									external = true
								}
								if mi, ok := r.(*ssa.MakeInterface); ok {
									for _, r2 := range refsOf(mi) {
										if _, ok := r2.(ssa.CallInstruction); ok {
											external = true
										}
									}
								}
							}
						}
					}
					if !external {
						return
					}
					n++
					p := accessPath(base)
					fs := canonFacts(fa.Block())
					guarded := fs["nil != "+p] || fs[p+" != nil"]
					if guarded || recovers {
						return
					}
					if seenElem[p] {
						return // one obligation per element, not per field
					}
					seenElem[p] = true
					bad++
					c.Violate(fmt.Sprintf("%s / nil-element-deref#%d", fnKey(f), bad), fa.Pos(), "element %s of the caller's rule list is dereferenced (.%s) without a nil test and without a recover in scope: Load*([]*Rule{nil}) panics out of the API", p, fieldName(fa.X.Type(), fa.Field))
				})
				if n > 0 && bad == 0 {
					c.Hold(fnKey(f)+" / element-derefs", f.Pos(), "%d dereferences of list elements, all nil-guarded or under a deferred recover (recover: %v)", n, recovers)
				} else if n == 0 {
					isLoader := false
					for _, m := range ruleModules {
						for _, l := range m.loaders {
							if c.P.Func(l) == f {
								isLoader = true
							}
						}
					}
					if isLoader {
						c.Hold(fnKey(f)+" / element-derefs", f.Pos(), "no direct dereference of list elements")
					}
				}
			}
		},
	})

	register(&Rule{
		ID: "rules.validated-flow", Props: []string{"C13"}, Floor: 14,
		Doc: "on both update paths of every rule module, each rule list handed to a controller / breaker builder and each list or rule stored into an enforced or reported global consists only of elements accepted by the module's validity function on a dominating branch (value flow through append, phi, make+map stores, range / lookup of such maps, results of module functions, arguments of unexported helpers)",
		Run: func(c *Ctx) {
			for _, m := range ruleModules {
				var fns []*ssa.Function
				for _, u := range append(append([]string{}, m.updaters...), m.loaders...) {
					f := c.P.Func(u)
					if f == nil {
						c.AnchorLost(u)
						continue
					}
					fns = append(fns, f)
				}
				globals := map[ssa.Value]string{}
				for _, g := range append(append([]string{}, m.enforced...), m.reported...) {
					if gv := c.P.Global(g); gv != nil {
						globals[gv] = g
					} else {
						c.AnchorLost(g)
					}
				}
				ruleT := c.P.Named(m.pkg + ".Rule")
				isRuleList := func(t types.Type) bool {
					s, ok := t.Underlying().(*types.Slice)
					if !ok {
						return false
					}
					n := namedOf(s.Elem())
					return n != nil && n.Obj().Name() == "Rule" && (n == ruleT || relPkg(n.Obj().Pkg().Path()) == "core/circuitbreaker")
				}
				for _, f := range fns {
					ord := 0
					eachInstr(f, func(ins ssa.Instruction) {
						check := func(what string, v ssa.Value, pos token.Pos) {
							ord++
							key := fmt.Sprintf("%s / %s#%d", fnKey(f), what, ord)
							vd := &validator{P: c.P}
							okv := false
							switch v.Type().Underlying().(type) {
							case *types.Slice, *types.Map:
								okv = vd.listValidated(v, 0)
							default:
								okv = vd.elemValidated(v, ins.Block())
								if !okv {
									vd.why = "rule " + accessPath(v) + " is not dominated by a successful validity check"
								}
							}
							if okv {
								c.Hold(key, pos, "%s receives only validated rules", what)
							} else {
								c.Violate(key, pos, "%s receives %s: %s - an invalid rule can govern traffic (or be reported) although the validity check rejects it", what, accessPath(v), vd.why)
							}
						}
						switch x := ins.(type) {
						case ssa.CallInstruction:
							cal := x.Common().StaticCallee()
							if cal == nil || !strings.HasPrefix(strings.ToLower(cal.Name()), "build") || !inModule(fnPkgPath(cal)) {
								return
							}
							// a function that itself applies the validity check to its input is a filter, not a consumer
							filter := false
							for _, c2 := range callsIn(cal) {
								if isValidityFunc(c2.Common().StaticCallee()) {
									filter = true
								}
							}
							if filter {
								return
							}
							for _, a := range x.Common().Args {
								if isRuleList(a.Type()) {
									check("builder "+cal.Name(), a, x.Pos())
								}
							}
						case *ssa.Store:
							if name, ok := globals[x.Addr]; ok {
								if mt, ok := x.Val.Type().Underlying().(*types.Map); ok {
									if isRuleList(mt.Elem()) || namedOf(mt.Elem()) != nil && namedOf(mt.Elem()).Obj().Name() == "Rule" {
										check("global "+name, x.Val, x.Pos())
									}
								}
							}
						case *ssa.MapUpdate:
							if ld, ok := x.Map.(*ssa.UnOp); ok {
								if name, ok := globals[ld.X]; ok {
									if isRuleList(x.Value.Type()) || namedOf(x.Value.Type()) != nil && namedOf(x.Value.Type()).Obj().Name() == "Rule" {
										check("global "+name+"[k]", x.Value, x.Pos())
									}
								}
							}
						}
					})
				}
			}
		},
	})

	register(&Rule{
		ID: "rules.immutable", Props: []string{"C13", "C14", "C18"}, Floor: 6,
		Doc: "no function reachable from a rule-load entry point stores into a field of a rule object handed in by the caller (the managers cache the caller's rules and compare later loads with reflect.DeepEqual; a mutated rule makes an identical reload report 'changed' and defeats controller reuse). Stores into fresh copies / composite literals are not counted",
		Run: func(c *Ctx) {
			for _, m := range ruleModules {
				ruleT := c.P.Named(m.pkg + ".Rule")
				if ruleT == nil {
					c.AnchorLost(m.pkg + ".Rule")
					continue
				}
				var roots []*ssa.Function
				for _, l := range m.loaders {
					if f := c.P.Func(l); f != nil {
						roots = append(roots, f)
					}
				}
				par, order := c.P.Reach(roots, false)
				n := 0
				for _, f := range order {
					if relPkg(fnPkgPath(f)) != m.pkg {
						continue
					}
					ord := 0
					eachInstr(f, func(ins ssa.Instruction) {
						st, ok := ins.(*ssa.Store)
						if !ok {
							return
						}
						fa, ok := st.Addr.(*ssa.FieldAddr)
						if !ok || namedOf(fa.X.Type()) != ruleT || rootIsAlloc(fa.X) {
							return
						}
						n++
						ord++
						c.Violate(fmt.Sprintf("%s / store Rule.%s#%d", fnKey(f), fieldName(fa.X.Type(), fa.Field), ord), st.Pos(), "the caller's rule is modified (%s.%s = %s) on the load path %s: reflect.DeepEqual against the cached input then fails, so an identical reload is reported as changed and the controller is rebuilt", accessPath(fa.X), fieldName(fa.X.Type(), fa.Field), accessPath(st.Val), pathTo(par, f))
					})
				}
				if n == 0 {
					c.Hold(m.pkg+" / rules-never-written", ruleT.Obj().Pos(), "%d functions reachable from the load entry points, none stores into a %s.Rule field", len(order), m.pkg)
				}
			}
		},
	})

	register(&Rule{
		ID: "rules.scope", Props: []string{"C13", "C15"}, Floor: 20,
		Doc: "the per-resource load path stores into / deletes from the enforced, reported and cached maps only under the key of its own resource parameter; the whole-set path replaces those maps by freshly built ones; whenever an enforced map is written its reported twin and the cached input (currentRules) are written in the same function with the same kind of update",
		Run: func(c *Ctx) {
			la := &lockAnalysis{P: c.P}
			for _, f := range c.P.ModuleFuncs() {
				if !isTestOrExample(f) {
					la.funcs = append(la.funcs, f)
				}
			}
			for _, m := range ruleModules {
				var gl []string
				gl = append(gl, m.enforced...)
				for _, r := range m.reported {
					dup := false
					for _, e := range gl {
						if e == r {
							dup = true
						}
					}
					if !dup {
						gl = append(gl, r)
					}
				}
				gl = append(gl, m.current)
				writes := map[*ssa.Function]map[string][]varAccess{}
				for _, gname := range gl {
					g := c.P.Global(gname)
					if g == nil {
						c.AnchorLost(gname)
						continue
					}
					for _, a := range accessesOfGlobal(c.P, g, la.funcs) {
						if !a.write || strings.HasPrefix(a.what, "inner") {
							continue
						}
						if writes[a.fn] == nil {
							writes[a.fn] = map[string][]varAccess{}
						}
						writes[a.fn][gname] = append(writes[a.fn][gname], a)
					}
				}
				var fs []*ssa.Function
				for f := range writes {
					fs = append(fs, f)
				}
				sort.Slice(fs, func(i, j int) bool { return fnKey(fs[i]) < fnKey(fs[j]) })
				for _, f := range fs {
					// resource parameter: first string parameter
					var resP *ssa.Parameter
					for _, p := range f.Params {
						if b, ok := p.Type().Underlying().(*types.Basic); ok && b.Kind() == types.String && resP == nil {
							resP = p
						}
					}
					for _, gname := range gl {
						for i, a := range writes[f][gname] {
							key := fmt.Sprintf("%s / %s %s#%d", fnKey(f), a.what, gname, i+1)
							switch x := a.ins.(type) {
							case *ssa.MapUpdate:
								ok := resP != nil && resolve(x.Key) == ssa.Value(resP)
								c.Check(ok, key, x.Pos(), "per-resource store keyed by %s (want the function's resource parameter)", accessPath(x.Key))
							case ssa.CallInstruction: // delete
								k := x.Common().Args[1]
								ok := resP != nil && resolve(k) == ssa.Value(resP)
								c.Check(ok, key, x.Pos(), "per-resource delete keyed by %s (want the function's resource parameter)", accessPath(k))
							case *ssa.Store:
								// whole-set replacement: fresh map or a (validated / raw) map parameter built by the caller
								v := resolve(x.Val)
								_, fresh := v.(*ssa.MakeMap)
								_, param := v.(*ssa.Parameter)
								_, sl := v.(*ssa.MakeSlice)
								c.Check(fresh || param || sl, key, x.Pos(), "whole-set path replaces %s by %s (want a freshly built map)", gname, accessPath(x.Val))
							}
						}
					}
					// co-update: enforced written => every reported twin and the cache written in the same function
					touched := func(list []string) (all, any bool) {
						all = true
						for _, g := range list {
							if len(writes[f][g]) > 0 {
								any = true
							} else {
								all = false
							}
						}
						return
					}
					_, anyE := touched(m.enforced)
					if !anyE {
						continue
					}
					allE, _ := touched(m.enforced)
					allR, _ := touched(m.reported)
					cur := len(writes[f][m.current]) > 0
					if m.pkg == "core/system" && !cur {
						// system keeps currentRules in LoadRules (the only caller of onRuleUpdate): checked there
						lr := c.P.Func("core/system.LoadRules")
						cur = lr != nil && len(writes[lr][m.current]) > 0 && len(c.P.StaticCallers(f)) == 1 && c.P.StaticCallers(f)[0].Parent() == lr
					}
					c.Check(allE && allR && cur, fnKey(f)+" / co-update", f.Pos(), "writes all enforced maps %v: %v, all reported maps %v: %v, cached input %s: %v", m.enforced, allE, m.reported, allR, m.current, cur)
				}
			}
		},
	})

	register(&Rule{
		ID: "rules.getters-read-enforced", Props: []string{"C13"}, Floor: 10,
		Doc: "every exported rule getter returns copies ([]Rule, not []*Rule) built from the module's enforced map or its co-updated reported twin (read within two call levels)",
		Run: func(c *Ctx) {
			for _, m := range ruleModules {
				want := map[ssa.Value]string{}
				for _, g := range append(append([]string{}, m.enforced...), m.reported...) {
					if gv := c.P.Global(g); gv != nil {
						want[gv] = g
					}
				}
				for _, gname := range m.getters {
					f := c.P.Func(gname)
					if f == nil {
						c.AnchorLost(gname)
						continue
					}
					reads := ""
					var visit func(fn *ssa.Function, d int)
					visit = func(fn *ssa.Function, d int) {
						if d > 2 || fn.Blocks == nil {
							return
						}
						eachInstr(fn, func(ins ssa.Instruction) {
							if u, ok := ins.(*ssa.UnOp); ok {
								if n, ok := want[u.X]; ok {
									reads = n
								}
							}
							if ci, ok := ins.(ssa.CallInstruction); ok {
								if cal := ci.Common().StaticCallee(); cal != nil && fnPkgPath(cal) == fnPkgPath(f) {
									visit(cal, d+1)
								}
							}
						})
					}
					visit(f, 0)
					copies := false
					if f.Signature.Results().Len() == 1 {
						if s, ok := f.Signature.Results().At(0).Type().Underlying().(*types.Slice); ok {
							_, isPtr := s.Elem().Underlying().(*types.Pointer)
							copies = !isPtr
						}
					}
					c.Check(reads != "" && copies, gname+" / source", f.Pos(), "reads %q; returns copies: %v", reads, copies)
				}
			}
		},
	})
}

// ------------------------------------------------------------------------------------------------ check-side lookups
// The function a rule-check slot calls to obtain the rules / controllers of a resource must answer from the enforced
// map alone. A short cut that decides "no rules" from other state (a counter of guarded resources, a flag, a cached
// snapshot) makes enforcement depend on that state being kept exact by every writer.

type lookupSpec struct {
	fn, global, prop string
}

var checkSideLookups = []lookupSpec{
	{"core/flow.getTrafficControllerListFor", "core/flow.tcMap", "C02"},
	{"core/isolation.getRulesOfResource", "core/isolation.ruleMap", "C04"},
	{"core/hotspot.getTrafficControllersFor", "core/hotspot.tcMap", "C05"},
	{"core/circuitbreaker.getBreakersOfResource", "core/circuitbreaker.breakers", "C03"},
	{"core/system.getRules", "core/system.ruleMap", "C07"},
	{"core/outlier.getNodeBreakersOfResource", "core/outlier.nodeBreakers", "C20"},
	{"core/outlier.getOutlierRuleOfResource", "core/outlier.outlierRules", "C20"},
}

func init() {
	byProp := map[string][]lookupSpec{}
	var props []string
	for _, ls := range checkSideLookups {
		if len(byProp[ls.prop]) == 0 {
			props = append(props, ls.prop)
		}
		byProp[ls.prop] = append(byProp[ls.prop], ls)
	}
	for _, prop := range props {
		specs := byProp[prop]
		pkg := strings.TrimPrefix(specs[0].fn[:strings.LastIndex(specs[0].fn, ".")], "core/")
		register(&Rule{
			ID: "rules.lookup-unconditional." + pkg, Props: []string{"C13", prop}, Floor: len(specs),
			Doc: "the function the " + pkg + " rule-check slot calls to obtain the rules / controllers of a resource answers from the enforced map alone: every value it returns is conditioned only on that map (the lookup itself, its ok flag, the length / iteration of what was found) and on the function's parameter - never on other package state such as a counter, flag or snapshot that every writer would have to keep exact",
			Run: func(c *Ctx) {
				for _, ls := range specs {
					f := c.P.Func(ls.fn)
					g := c.P.Global(ls.global)
					if f == nil || g == nil {
						c.AnchorLost(ls.fn + " / " + ls.global)
						continue
					}
					reads := false
					eachInstr(f, func(ins ssa.Instruction) {
						if ld, ok := ins.(*ssa.UnOp); ok && ld.X == ssa.Value(g) {
							reads = true
						}
					})
					bad := ""
					for _, r := range returnsOf(f) {
						var cases []retCase
						if len(r.Results) > 0 {
							cases = splitPhiCases(r.Results[0], r.Block(), nil, 0)
						}
						for _, cs := range cases {
							for k := range canonFacts(cs.block, cs.extra...) {
								if strings.Contains(k, ls.global) || strings.Contains(k, "$idx") || strings.Contains(k, "next(") {
									continue
								}
								// conditions on the parameter alone are fine
								if !strings.Contains(k, "core/") && !strings.Contains(k, "(") {
									continue
								}
								bad = k
							}
						}
					}
					c.Check(reads && bad == "", fnKey(f)+" / answers-from-enforced-map", f.Pos(), "reads %s (%v); no returned value is conditioned on other state (offending condition: %q)", ls.global, reads, bad)
				}
			},
		})
	}
}
