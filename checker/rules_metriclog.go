package main

import (
	"fmt"
	"go/constant"
	"go/token"
	"go/types"
	"strings"

	"golang.org/x/tools/go/ssa"
)

// C17: metric log. Only the structural clauses are decided (bounded file count, index written before the lines it
// indexes, encoder / decoder field agreement, files closed); round-trip, position cache and crash points are not.

const mlPkg = "core/log/metric"

func init() {
	register(&Rule{
		ID: "metriclog.bounded-files", Props: []string{"C17"}, Floor: 3,
		Doc: "every os.Create of a metric / index file in the writer is dominated by a successful removeDeprecatedFiles(), which removes the len(files)-maxFileAmount+1 oldest files together with their index files (the number of log files never exceeds the configured maximum)",
		Run: func(c *Ctx) {
			rm := c.P.Func(mlPkg + ".(*DefaultMetricLogWriter).removeDeprecatedFiles")
			if rm == nil {
				c.AnchorLost("removeDeprecatedFiles")
				return
			}
			n := 0
			for _, f := range c.P.FuncsIn(modPath + "/" + mlPkg) {
				if isTestOrExample(f) {
					continue
				}
				for _, ci := range callsIn(f) {
					if !isExtCall(ci, "os.Create", "os.OpenFile") {
						continue
					}
					n++
					ok := false
					for _, ft := range factsAt(ci.(ssa.Instruction)) {
						b, isB := ft.Cond.(*ssa.BinOp)
						if !isB {
							continue
						}
						var other ssa.Value
						if isNilConst(b.Y) {
							other = b.X
						} else if isNilConst(b.X) {
							other = b.Y
						}
						if call, isCall := other.(*ssa.Call); isCall && isStaticCallTo(call, rm) {
							if (b.Op == token.NEQ && !ft.Truth) || (b.Op == token.EQL && ft.Truth) {
								ok = true
							}
						}
					}
					c.Check(ok, fmt.Sprintf("%s / create#%d", fnKey(f), n), ci.Pos(), "file creation must follow a successful removal of the oldest files")
				}
			}
			if n == 0 {
				c.Violate(mlPkg+" / create", rm.Pos(), "the writer never creates files")
			}
			// the removal loop
			bound, okFile, okIdx := false, false, false
			eachInstr(rm, func(ins ssa.Instruction) {
				isCount := func(v ssa.Value) bool {
					p := accessPath(v)
					return strings.Contains(p, "builtin len(") && strings.Contains(p, "int({DefaultMetricLogWriter}.maxFileAmount)") && strings.HasSuffix(p, "+ 1)") && strings.Contains(p, " - ")
				}
				if b, ok := ins.(*ssa.BinOp); ok && b.Op == token.LSS && isCount(b.Y) {
					bound = true // for i := 0; i < len(files)-max+1; i++
				}
				if sl, ok := ins.(*ssa.Slice); ok && sl.Low == nil && sl.High != nil && strings.Contains(accessPath(sl.X), "listMetricFiles(") {
					// for _, f := range files[:len(files)-max+1], the count possibly clamped to len(files) where it exceeds it
					all, some := true, false
					for _, cs := range splitPhiCases(stripConv(sl.High), sl.Block(), nil, 0) {
						switch {
						case isCount(cs.val):
							some = true
						case strings.HasPrefix(accessPath(stripConv(cs.val)), "builtin len(") && strings.Contains(accessPath(stripConv(cs.val)), "listMetricFiles("):
							clamp := false
							for fct := range canonFacts(cs.block, cs.extra...) {
								if strings.Contains(fct, "maxFileAmount") && strings.Contains(fct, "builtin len(") && (strings.Contains(fct, " < ") || strings.Contains(fct, " <= ")) {
									clamp = true
								}
							}
							if !clamp {
								all = false
							}
						default:
							all = false
						}
					}
					if all && some {
						bound = true
					}
				}
				if ci, ok := ins.(ssa.CallInstruction); ok && isExtCall(ci, "os.Remove") {
					p := accessPath(ci.Common().Args[0])
					if strings.Contains(p, "formMetricIdxFileName(") {
						okIdx = true
					} else if strings.Contains(p, "listMetricFiles(") && strings.Contains(p, "[") {
						okFile = true
					}
				}
			})
			c.Check(bound && okFile && okIdx, fnKey(rm)+" / removes-oldest", rm.Pos(), "removes i < len(files)-maxFileAmount+1 (%v) oldest files (%v) and their index files (%v)", bound, okFile, okIdx)
		},
	})

	register(&Rule{
		ID: "metriclog.index-before-lines", Props: []string{"C17"}, Floor: 2,
		Doc: "in DefaultMetricLogWriter.Write, on the path where a new second starts, the index entry is written (and flushed) before the lines of that second; latestOpSec advances only after the lines were written without error",
		Run: func(c *Ctx) {
			w := c.P.Func(mlPkg + ".(*DefaultMetricLogWriter).Write")
			wi := c.P.Func(mlPkg + ".(*DefaultMetricLogWriter).writeIndex")
			wl := c.P.Func(mlPkg + ".(*DefaultMetricLogWriter).writeItemsAndFlush")
			if w == nil || wi == nil || wl == nil {
				c.AnchorLost("metric writer functions")
				return
			}
			var idxCall, linesCall ssa.Instruction
			for _, ci := range callsIn(w) {
				if isStaticCallTo(ci, wi) {
					if _, deferred := ci.(*ssa.Defer); deferred {
						c.Violate(fnKey(w)+" / index-write-deferred", ci.Pos(), "the index entry is written by a deferred call, i.e. after the lines of the second")
						return
					}
					idxCall = ci.(ssa.Instruction)
				}
				if isStaticCallTo(ci, wl) {
					linesCall = ci.(ssa.Instruction)
				}
			}
			if idxCall == nil || linesCall == nil {
				c.Violate(fnKey(w)+" / calls", w.Pos(), "Write must write an index entry and the lines")
				return
			}
			// the branch "timeSec > latestOpSec": every path from its true successor to the lines passes the index write
			ok := false
			eachInstr(w, func(ins ssa.Instruction) {
				ifi, isIf := ins.(*ssa.If)
				if !isIf {
					return
				}
				cc := canonCond(ifi.Cond, true)
				if strings.HasPrefix(cc, "{DefaultMetricLogWriter}.latestOpSec < ") {
					first := ifi.Block().Succs[0].Instrs[0]
					if first == idxCall {
						ok = true
						return
					}
					all, _ := throughVia(first, linesCall, idxCall)
					if all && instrReaches(first, linesCall) {
						ok = true
					}
				}
			})
			c.Check(ok, fnKey(w)+" / index-first", idxCall.Pos(), "on the new-second path the index entry precedes the lines on every path")
			// flush inside writeIndex
			flushed := false
			for _, ci := range callsIn(wi) {
				if isExtCall(ci, "bufio.(Writer).Flush") {
					flushed = true
				}
			}
			c.Check(flushed, fnKey(wi)+" / flushes", wi.Pos(), "the index entry is flushed before the data lines are written")
			// latestOpSec store
			n := 0
			eachInstr(w, func(ins ssa.Instruction) {
				st, isSt := ins.(*ssa.Store)
				if !isSt {
					return
				}
				if fa, isFa := st.Addr.(*ssa.FieldAddr); isFa && fieldName(fa.X.Type(), fa.Field) == "latestOpSec" {
					n++
					okS := instrDominates(linesCall, st)
					if okS {
						_, okS = anyFact(canonFacts(st.Block()), ".writeItemsAndFlush(", " == nil")
						if !okS {
							_, okS = anyFact(canonFacts(st.Block()), "nil == ", ".writeItemsAndFlush(")
						}
					}
					c.Check(okS, fmt.Sprintf("%s / latestOpSec#%d", fnKey(w), n), st.Pos(), "latestOpSec advances only after the lines were written successfully")
				}
			})
		},
	})

	register(&Rule{
		ID: "metriclog.line-format-agreement", Props: []string{"C17"}, Floor: 9,
		Doc: "for every field the decoder MetricItemFromFatString stores from column k of a line, the encoder ToFatString feeds column k of its '|'-separated format from that same MetricItem field (and the number of verbs equals the number of arguments)",
		Run: func(c *Ctx) {
			enc := c.P.Func("core/base.(*MetricItem).ToFatString")
			dec := c.P.Func("core/base.MetricItemFromFatString")
			if enc == nil || dec == nil {
				c.AnchorLost("MetricItem.ToFatString / MetricItemFromFatString")
				return
			}
			// encoder columns
			var cols []string
			var format string
			for _, ci := range callsIn(enc) {
				if !isExtCall(ci, "fmt.Fprintf", "fmt.Sprintf") {
					continue
				}
				args := ci.Common().Args
				fi := len(args) - 2
				if cv, ok := args[fi].(*ssa.Const); ok && cv.Value != nil && cv.Value.Kind() == constant.String {
					format = constant.StringVal(cv.Value)
				}
				sl, ok := args[len(args)-1].(*ssa.Slice)
				if !ok {
					continue
				}
				al, ok := sl.X.(*ssa.Alloc)
				if !ok {
					continue
				}
				vals := map[int64]string{}
				for _, r := range refsOf(al) {
					if ia, ok := r.(*ssa.IndexAddr); ok {
						k, _ := constInt(ia.Index)
						for _, r2 := range refsOf(ia) {
							if st, ok := r2.(*ssa.Store); ok {
								vals[k] = rootField(st.Val, 0)
							}
						}
					}
				}
				for k := int64(0); k < int64(len(vals)); k++ {
					cols = append(cols, vals[k])
				}
			}
			parts := strings.Split(format, "|")
			verbs := strings.Count(format, "%")
			c.Check(format != "" && len(parts) == len(cols) && verbs == len(cols), fnKey(enc)+" / columns", enc.Pos(), "format %q has %d columns / %d verbs for %d arguments %v", format, len(parts), verbs, len(cols), cols)
			// decoder
			n := 0
			eachInstr(dec, func(ins ssa.Instruction) {
				st, ok := ins.(*ssa.Store)
				if !ok {
					return
				}
				fa, ok := st.Addr.(*ssa.FieldAddr)
				if !ok || !typeIs(fa.X.Type(), "core/base", "MetricItem") {
					return
				}
				k, ok := columnOf(st.Val, 0)
				if !ok {
					return
				}
				n++
				fname := fieldName(fa.X.Type(), fa.Field)
				got := "<none>"
				if int(k) < len(cols) {
					got = cols[k]
				}
				c.Check(got == fname, fmt.Sprintf("%s / column %d -> %s", fnKey(dec), k, fname), st.Pos(), "decoder reads %s from column %d; encoder writes %s there", fname, k, got)
			})
			// table-driven decoding: `for i, dst := range [...]*uint64{&item.A, &item.B, ...} { v := parse(arr[base+i]); *dst = v }`
			eachInstr(dec, func(ins ssa.Instruction) {
				st, ok := ins.(*ssa.Store)
				if !ok {
					return
				}
				// dst = table[i]: element of a local array (ranged over by value) or of a local slice / array by address
				var table *ssa.Alloc
				var loopIdx ssa.Value
				switch a := st.Addr.(type) {
				case *ssa.Index:
					if ld, ok := a.X.(*ssa.UnOp); ok && ld.Op == token.MUL {
						table, _ = ld.X.(*ssa.Alloc)
					}
					loopIdx = a.Index
				case *ssa.UnOp:
					if ia, ok := a.X.(*ssa.IndexAddr); ok && a.Op == token.MUL {
						table, _ = ia.X.(*ssa.Alloc)
						if sl, ok := ia.X.(*ssa.Slice); ok {
							table, _ = sl.X.(*ssa.Alloc)
						}
						loopIdx = ia.Index
					}
				}
				if table == nil || loopIdx == nil {
					return
				}
				base, ok := columnBaseOf(st.Val, loopIdx, 0)
				if !ok {
					return
				}
				for _, r := range refsOf(table) {
					el, ok := r.(*ssa.IndexAddr)
					if !ok {
						continue
					}
					j, isConst := constInt(el.Index)
					if !isConst {
						continue
					}
					for _, r2 := range refsOf(el) {
						es, ok := r2.(*ssa.Store)
						if !ok || es.Addr != ssa.Value(el) {
							continue
						}
						fa, ok := es.Val.(*ssa.FieldAddr)
						if !ok || !typeIs(fa.X.Type(), "core/base", "MetricItem") {
							continue
						}
						n++
						k := base + j
						fname := fieldName(fa.X.Type(), fa.Field)
						got := "<none>"
						if int(k) < len(cols) {
							got = cols[k]
						}
						c.Check(got == fname, fmt.Sprintf("%s / column %d -> %s", fnKey(dec), k, fname), es.Pos(), "decoder reads %s from column %d (entry %d of its field table); encoder writes %s there", fname, k, j, got)
					}
				}
			})
			// decoding driven by a package-level table of {column index, accessor of the destination field}:
			// `for _, col := range columns { v := parse(arr[col.index]); *col.field(item) = v }`
			eachInstr(dec, func(ins ssa.Instruction) {
				st, ok := ins.(*ssa.Store)
				if !ok {
					return
				}
				call, ok := stripConv(st.Addr).(*ssa.Call)
				if !ok || call.Call.IsInvoke() || call.Call.StaticCallee() != nil {
					return
				}
				glob, idx, fnPath := tableIndexedBy(resolve(call.Call.Value))
				if glob == nil {
					return
				}
				colIdx := columnIndexValue(st.Val, 0)
				if colIdx == nil {
					return
				}
				g2, idx2, idxPath := tableIndexedBy(resolve(colIdx))
				if g2 != glob || !sameValue(idx, idx2) {
					c.Undecided(fnKey(dec)+" / column table", st.Pos(), "the destination accessor and the column index do not come from the same element of one table")
					return
				}
				elems, okT := globalTable(glob)
				if !okT {
					c.Undecided(fnKey(dec)+" / column table", st.Pos(), "the column table %s is filled under keys that are not constants", glob.Name())
					return
				}
				for j := int64(0); j < int64(len(elems)); j++ {
					e := elems[j]
					k, isK := int64(0), false
					if e[idxPath] != nil {
						k, isK = constInt(e[idxPath])
					}
					fn := funcOfValue(e[fnPath])
					fname := ""
					if fn != nil {
						if rs := returnsOf(fn); len(rs) == 1 && len(rs[0].Results) == 1 {
							if fa, ok := stripConv(rs[0].Results[0]).(*ssa.FieldAddr); ok && typeIs(fa.X.Type(), "core/base", "MetricItem") {
								if _, isPar := fa.X.(*ssa.Parameter); isPar {
									fname = fieldName(fa.X.Type(), fa.Field)
								}
							}
						}
					}
					if !isK || fname == "" {
						c.Undecided(fmt.Sprintf("%s / column table entry %d", fnKey(dec), j), st.Pos(), "entry %d of %s is not {constant column, accessor returning the address of a MetricItem field}", j, glob.Name())
						continue
					}
					n++
					got := "<none>"
					if int(k) < len(cols) {
						got = cols[k]
					}
					c.Check(got == fname, fmt.Sprintf("%s / column %d -> %s", fnKey(dec), k, fname), fn.Pos(), "decoder reads %s from column %d (entry %d of %s); encoder writes %s there", fname, k, j, glob.Name(), got)
				}
			})
			if n == 0 {
				c.Violate(fnKey(dec)+" / columns", dec.Pos(), "decoder stores no field from a column")
			}
		},
	})

	register(&Rule{
		ID: "metriclog.files-closed", Props: []string{"C17"}, Floor: 4,
		Doc: "every file opened by the metric log reader / searcher (os.Open or the module's open helpers) is, on every path to a return, either closed (deferred or direct), returned to the caller, or nil because opening failed",
		Run: func(c *Ctx) {
			openers := map[*ssa.Function]bool{}
			if f := c.P.Func(mlPkg + ".openFileAndSeekTo"); f != nil {
				openers[f] = true
			}
			n := 0
			ordf := map[string]int{}
			for _, f := range c.P.FuncsIn(modPath + "/" + mlPkg) {
				if isTestOrExample(f) {
					continue
				}
				for _, ci := range callsIn(f) {
					call, ok := ci.(*ssa.Call)
					if !ok {
						continue
					}
					if !isExtCall(ci, "os.Open") && !openers[call.Call.StaticCallee()] {
						continue
					}
					var file, errv ssa.Value
					for _, r := range refsOf(call) {
						if ex, ok := r.(*ssa.Extract); ok {
							if ex.Index == 0 {
								file = ex
							} else {
								errv = ex
							}
						}
					}
					if file == nil {
						continue
					}
					n++
					ordf[fnKey(f)]++
					key := fmt.Sprintf("%s / open#%d", fnKey(f), ordf[fnKey(f)])
					var closes []ssa.Instruction
					eachInstr(f, func(ins ssa.Instruction) {
						switch x := ins.(type) {
						case *ssa.Defer:
							if cal := x.Call.StaticCallee(); cal != nil && extFuncName(cal) == "os.(File).Close" && resolve(x.Call.Args[0]) == file {
								closes = append(closes, x)
							}
						case *ssa.Call:
							if cal := x.Call.StaticCallee(); cal != nil && extFuncName(cal) == "os.(File).Close" && resolve(x.Call.Args[0]) == file {
								closes = append(closes, x)
							}
						}
					})
					bad := ""
					for _, r := range returnsOf(f) {
						if !instrReaches(call, r) {
							continue
						}
						returned := false
						for _, res := range r.Results {
							if resolve(res) == file {
								returned = true
							}
						}
						closed := false
						for _, cl := range closes {
							if instrDominates(cl, r) {
								closed = true
							}
						}
						failed := false
						for _, ft := range condFacts(r.Block()) {
							if b, ok := ft.Cond.(*ssa.BinOp); ok && errv != nil && resolve(b.X) == errv && isNilConst(b.Y) {
								if (b.Op == token.NEQ && ft.Truth) || (b.Op == token.EQL && !ft.Truth) {
									failed = true
								}
							}
						}
						if !returned && !closed && !failed && bad == "" {
							bad = c.P.Pos(r.Pos())
						}
					}
					if bad != "" {
						c.Violate(key, call.Pos(), "the file opened here is neither closed nor returned on the path to the return at %s (descriptor leak on every search)", bad)
					} else {
						c.Hold(key, call.Pos(), "closed, returned or nil on every path")
					}
				}
			}
		},
	})
}

// rootField names the MetricItem field a value is computed from (through conversions and single-argument calls).
func rootField(v ssa.Value, d int) string {
	if d > 6 {
		return "?"
	}
	switch x := stripConv(v).(type) {
	case *ssa.UnOp:
		if fa, ok := x.X.(*ssa.FieldAddr); ok {
			return fieldName(fa.X.Type(), fa.Field)
		}
		return rootField(x.X, d+1)
	case *ssa.Call:
		for _, a := range x.Call.Args {
			if r := rootField(a, d+1); r != "?" {
				return r
			}
		}
	case *ssa.Extract:
		return rootField(x.Tuple, d+1)
	}
	return "?"
}

// columnOf finds the constant index k such that v is computed from arr[k] of a strings.Split result.
// columnBaseOf: v was parsed from column base+idx of the split line, idx being the given (loop index) value.
func columnBaseOf(v ssa.Value, idx ssa.Value, d int) (int64, bool) {
	if d > 6 {
		return 0, false
	}
	switch x := stripConv(v).(type) {
	case *ssa.UnOp:
		if ia, ok := x.X.(*ssa.IndexAddr); ok && strings.Contains(accessPath(ia.X), "strings.Split(") {
			if bo, ok := ia.Index.(*ssa.BinOp); ok && bo.Op == token.ADD {
				if k, isK := constInt(bo.X); isK && sameValue(bo.Y, idx) {
					return k, true
				}
				if k, isK := constInt(bo.Y); isK && sameValue(bo.X, idx) {
					return k, true
				}
			}
			if sameValue(ia.Index, idx) {
				return 0, true
			}
		}
		return columnBaseOf(x.X, idx, d+1)
	case *ssa.Extract:
		return columnBaseOf(x.Tuple, idx, d+1)
	case *ssa.Call:
		if len(x.Call.Args) > 0 {
			return columnBaseOf(x.Call.Args[0], idx, d+1)
		}
	}
	return 0, false
}

func columnOf(v ssa.Value, d int) (int64, bool) {
	if d > 6 {
		return 0, false
	}
	switch x := stripConv(v).(type) {
	case *ssa.UnOp:
		if ia, ok := x.X.(*ssa.IndexAddr); ok {
			if k, ok := constInt(ia.Index); ok && strings.Contains(accessPath(ia.X), "strings.Split(") {
				return k, true
			}
		}
		return columnOf(x.X, d+1)
	case *ssa.Extract:
		return columnOf(x.Tuple, d+1)
	case *ssa.Call:
		if len(x.Call.Args) > 0 {
			return columnOf(x.Call.Args[0], d+1)
		}
	}
	return 0, false
}

func init() {
	register(&Rule{
		ID: "metriclog.index-in-same-file", Props: []string{"C17"}, Floor: 1,
		Doc: "in DefaultMetricLogWriter.Write no call that can replace the current file (anything reaching closeCurAndNewFile: day roll, size roll) lies on a path between writing the index entry of a second and writing that second's lines: the index entry and the lines it points to end up in the same file pair (otherwise the lines become unreachable once the file holding the index entry is removed)",
		Run: func(c *Ctx) {
			w := c.P.Func(mlPkg + ".(*DefaultMetricLogWriter).Write")
			wi := c.P.Func(mlPkg + ".(*DefaultMetricLogWriter).writeIndex")
			wl := c.P.Func(mlPkg + ".(*DefaultMetricLogWriter).writeItemsAndFlush")
			nf := c.P.Func(mlPkg + ".(*DefaultMetricLogWriter).closeCurAndNewFile")
			if w == nil || wi == nil || wl == nil || nf == nil {
				c.AnchorLost("metric writer functions")
				return
			}
			// functions that can switch files
			par, _ := c.P.Reach([]*ssa.Function{w}, false)
			canRoll := map[*ssa.Function]bool{}
			for f := range par {
				p2, _ := c.P.Reach([]*ssa.Function{f}, false)
				if _, ok := p2[nf]; ok && f != w {
					canRoll[f] = true
				}
			}
			var idxCall, linesCall ssa.Instruction
			for _, ci := range callsIn(w) {
				if isStaticCallTo(ci, wi) {
					if _, deferred := ci.(*ssa.Defer); deferred {
						c.Violate(fnKey(w)+" / index-write-deferred", ci.Pos(), "the index entry is written by a deferred call, i.e. after the lines of the second")
						return
					}
					idxCall = ci.(ssa.Instruction)
				}
				if isStaticCallTo(ci, wl) {
					linesCall = ci.(ssa.Instruction)
				}
			}
			if idxCall == nil || linesCall == nil {
				c.Violate(fnKey(w)+" / calls", w.Pos(), "Write must write an index entry and the lines")
				return
			}
			bad := ""
			for _, ci := range callsIn(w) {
				cal := ci.Common().StaticCallee()
				if cal == nil || !canRoll[cal] {
					continue
				}
				in := ci.(ssa.Instruction)
				if instrReaches(idxCall, in) && instrReaches(in, linesCall) {
					bad = fmt.Sprintf("%s at %s", cal.Name(), c.P.Pos(ci.Pos()))
				}
			}
			c.Check(bad == "", fnKey(w)+" / no-roll-between-index-and-lines", idxCall.Pos(), "a file roll (%s) can happen after the index entry of a second was written and before its lines are: the entry lands in the old file's index while the lines open the new file", bad)
		},
	})
}

// droppedErrorReturns lists the returns of f whose error result is the constant nil although the return is dominated
// by the fact `e != nil` for an error value e produced by a call.
func droppedErrorReturns(f *ssa.Function) []*ssa.Return {
	res := f.Signature.Results()
	if res.Len() == 0 || !isErrorType(res.At(res.Len()-1).Type()) {
		return nil
	}
	var out []*ssa.Return
	for _, r := range returnsOf(f) {
		last := r.Results[len(r.Results)-1]
		if !isNilConst(last) {
			continue
		}
		for _, ft := range condFacts(r.Block()) {
			bo, ok := ft.Cond.(*ssa.BinOp)
			if !ok || !((bo.Op == token.NEQ && ft.Truth) || (bo.Op == token.EQL && !ft.Truth)) {
				continue
			}
			var e ssa.Value
			if isNilConst(bo.Y) {
				e = bo.X
			} else if isNilConst(bo.X) {
				e = bo.Y
			}
			if e == nil || !isErrorType(e.Type()) {
				continue
			}
			switch x := e.(type) {
			case *ssa.Call:
				out = append(out, r)
			case *ssa.Extract:
				if _, isCall := x.Tuple.(*ssa.Call); isCall {
					out = append(out, r)
				}
			}
		}
	}
	return out
}

func isErrorType(t types.Type) bool {
	n, ok := t.(*types.Named)
	return ok && n.Obj().Pkg() == nil && n.Obj().Name() == "error"
}

func init() {
	register(&Rule{
		ID: "metriclog.write-errors-reported", Props: []string{"C17"}, Floor: 8,
		Doc: "in the metric log writer no function that returns an error returns nil on a path on which a call has just reported an error (err != nil): a batch whose lines could not be written must not be acknowledged - Write would advance latestOpSec, keep the already written index entry, and the caller would believe the second is on disk",
		Run: func(c *Ctx) {
			n := 0
			for _, f := range c.P.ModuleFuncs() {
				if f.Pkg == nil || !strings.HasSuffix(f.Pkg.Pkg.Path(), mlPkg) || isTestOrExample(f) {
					continue
				}
				if f.Signature.Recv() == nil || !strings.Contains(f.Signature.Recv().Type().String(), "DefaultMetricLogWriter") {
					continue
				}
				res := f.Signature.Results()
				if res.Len() == 0 || !isErrorType(res.At(res.Len()-1).Type()) {
					continue
				}
				n++
				bad := droppedErrorReturns(f)
				pos := f.Pos()
				if len(bad) > 0 {
					pos = bad[0].Pos()
				}
				c.Check(len(bad) == 0, fnKey(f)+" / no-error-swallowed", pos, "%d return(s) answer nil although a call reported an error on that path", len(bad))
			}
			c.Stat("writer functions returning error", n)
		},
	})
}

// ------------------------------------------------------------------------------------------------ searcher position cache
// The searcher remembers, for the last query, a byte offset inside ONE index file. An offset is meaningful only in the
// file it was taken from: used in another index file it skips that file's first entries.

func init() {
	register(&Rule{
		ID: "metriclog.cached-position-own-file", Props: []string{"C17"}, Floor: 2,
		Doc: "the cached index offset of the searcher is used only with the file it was computed for: getOffsetStartAndFileIdx hands the cached offset out only under `file name == cachedPos.metricFilename` (together with that file's number), and searchOffsetAndRead passes it to findOffsetToStart only for that first file - every later file of the scan starts at offset 0. Otherwise the answer to a query depends on the queries issued before on the same searcher",
		Run: func(c *Ctx) {
			get := c.P.Func(mlPkg + ".(*DefaultMetricSearcher).getOffsetStartAndFileIdx")
			srch := c.P.Func(mlPkg + ".(*DefaultMetricSearcher).searchOffsetAndRead")
			find := c.P.Func(mlPkg + ".(*DefaultMetricSearcher).findOffsetToStart")
			if get == nil || srch == nil || find == nil {
				c.AnchorLost("DefaultMetricSearcher.getOffsetStartAndFileIdx / searchOffsetAndRead / findOffsetToStart")
				return
			}
			// (1) the cached offset leaves getOffsetStartAndFileIdx only for the cached file
			n, okAll := 0, true
			why := ""
			offIdx := 0 // which component of the result carries the offset: result 0, or a field of the result struct
			nparts := len(get.Signature.Results().At(0).Type().String())
			_ = nparts
			parts := 1
			if st, ok := get.Signature.Results().At(0).Type().Underlying().(*types.Struct); ok {
				parts = st.NumFields()
			}
			for _, r := range returnsOf(get) {
				for k := 0; k < parts; k++ {
					var comp ssa.Value
					if parts == 1 {
						comp = r.Results[0]
					} else {
						comp = returnPart(r, k)
					}
					if comp == nil {
						continue
					}
					for _, cs := range splitPhiCases(comp, r.Block(), nil, 0) {
						if !strings.Contains(accessPath(cs.val), ".curOffsetInIdx") {
							continue
						}
						offIdx = k
						n++
						fs := canonFacts(cs.block, cs.extra...)
						same := false
						for k := range fs {
							if strings.Contains(k, " == ") && strings.Contains(k, ".cachedPos.metricFilename") && strings.Contains(k, "{[]string}") {
								same = true
							}
						}
						if !same {
							okAll = false
							why = factList(fs)
						}
					}
				}
			}
			c.Check(n > 0 && okAll, fnKey(get)+" / cached-offset-only-for-cached-file", get.Pos(), "%d alternative(s) hand out cachedPos.curOffsetInIdx; each under `filenames[j] == cachedPos.metricFilename` (facts of the offending one: [%s])", n, why)
			// (2) in the scan, the cached offset is used for the first file only
			// the offset component of a getOffsetStartAndFileIdx result (tuple element or struct field, however it is read)
			isRes0 := func(v ssa.Value) bool {
				call, idx, ok := callPart(v)
				return ok && idx == offIdx && isStaticCallTo(call, get)
			}
			isOtherPart := func(v ssa.Value) bool {
				call, idx, ok := callPart(v)
				return ok && idx != offIdx && isStaticCallTo(call, get)
			}
			m := 0
			for _, ci := range callsIn(srch) {
				if !isStaticCallTo(ci, find) {
					continue
				}
				m++
				arg := ci.Common().Args[len(ci.Common().Args)-1]
				ok, msg := true, ""
				for _, cs := range splitPhiCases(arg, ci.Block(), nil, 0) {
					if z, isC := constInt(cs.val); isC && z == 0 {
						continue
					}
					if isRes0(cs.val) {
						// the edge carrying the cached offset must not come from inside the loop (i.e. be reachable from the call)
						if cs.block != ci.Block() || len(cs.extra) > 0 {
							if !blockReach(ci.Block())[cs.block] && cs.block != ci.Block() {
								continue
							}
						}
						// ... unless it is selected by comparing the file number with the cached file's number
						byNumber := false
						for k := range canonFacts(cs.block, cs.extra...) {
							if strings.Contains(k, " == ") && strings.Contains(k, "getOffsetStartAndFileIdx(") && strings.Contains(k, "#1") {
								byNumber = true
							}
						}
						for _, ft := range append(append([]Fact{}, condFacts(cs.block)...), cs.extra...) {
							if bo, ok := ft.Cond.(*ssa.BinOp); ok && bo.Op == token.EQL && ft.Truth && (isOtherPart(bo.X) || isOtherPart(bo.Y)) {
								byNumber = true
							}
						}
						if byNumber {
							continue
						}
						ok, msg = false, "the cached offset is passed again for a later file of the scan"
						continue
					}
					ok, msg = false, "start offset "+accessPath(cs.val)+" is neither the cached offset of the first file nor 0"
				}
				c.Check(ok, fmt.Sprintf("%s / findOffsetToStart#%d", fnKey(srch), m), ci.Pos(), "start offset = cached offset for the first file, 0 for every later file (%s)", msg)
			}
			if m == 0 {
				c.Violate(fnKey(srch)+" / findOffsetToStart", srch.Pos(), "the scan no longer calls findOffsetToStart")
			}
		},
	})
}

func init() {
	register(&Rule{
		ID: "metriclog.no-unchecked-short-read", Props: []string{"C17"}, Floor: 1,
		Doc: "the metric log searcher / reader never takes the bytes of a raw Read([]byte) for a complete record without looking at the byte count: a file cut inside a fixed-size index record yields a short read with a nil error, and decoding the buffer then mixes the torn record with stale bytes of the previous one. Records are read with encoding/binary.Read / io.ReadFull (which report io.ErrUnexpectedEOF), or the count returned by Read is compared",
		Run: func(c *Ctx) {
			nFull, nRaw := 0, 0
			for _, f := range c.P.ModuleFuncs() {
				if f.Pkg == nil || !strings.HasSuffix(f.Pkg.Pkg.Path(), mlPkg) || isTestOrExample(f) {
					continue
				}
				for _, ci := range callsIn(f) {
					if isExtCall(ci, "encoding/binary.Read", "io.ReadFull", "io.ReadAtLeast") {
						nFull++
						continue
					}
					cc := ci.Common()
					name := ""
					var sig *types.Signature
					if cc.IsInvoke() {
						name, sig = cc.Method.Name(), cc.Method.Type().(*types.Signature)
					} else if cal := cc.StaticCallee(); cal != nil && !inModule(fnPkgPath(cal)) {
						name, sig = cal.Name(), cal.Signature
					}
					if name != "Read" || sig == nil || sig.Params().Len() != 1 || sig.Results().Len() != 2 {
						continue
					}
					if sl, ok := sig.Params().At(0).Type().Underlying().(*types.Slice); !ok || !types.Identical(sl.Elem(), types.Typ[types.Byte]) {
						continue
					}
					nRaw++
					counted := false
					if v := ci.Value(); v != nil {
						for _, r := range refsOf(v) {
							if ex, ok := r.(*ssa.Extract); ok && ex.Index == 0 {
								for _, r2 := range refsOf(ex) {
									if b, ok := r2.(*ssa.BinOp); ok && isComparison(b.Op) {
										counted = true
									}
								}
							}
						}
					}
					c.Check(counted, fmt.Sprintf("%s / raw-read#%d", fnKey(f), nRaw), ci.Pos(), "the byte count of a raw Read is compared before the buffer is decoded")
				}
			}
			c.Check(nFull > 0 || nRaw > 0, mlPkg+" / record-reads", token.NoPos, "%d record read(s) through binary.Read / io.ReadFull, %d raw Read call(s)", nFull, nRaw)
		},
	})
}

func init() {
	register(&Rule{
		ID: "metriclog.complete-lines-only", Props: []string{"C17"}, Floor: 1,
		Doc: "the metric log reader parses a line only when its terminator was read: lines are obtained with bufio.Reader.ReadString / ReadBytes / ReadSlice('\\n') and handed on only when that call reported no error. bufio.Reader.ReadLine and bufio.Scanner deliver the unterminated tail of a file cut mid-write as an ordinary line, which then parses as an item that was never written (shorter numbers, missing trailing columns)",
		Run: func(c *Ctx) {
			n := 0
			for _, f := range c.P.ModuleFuncs() {
				if f.Pkg == nil || !strings.HasSuffix(f.Pkg.Pkg.Path(), mlPkg) || isTestOrExample(f) {
					continue
				}
				for _, ci := range callsIn(f) {
					switch {
					case isExtCall(ci, "bufio.(Reader).ReadLine", "bufio.(Scanner).Scan", "bufio.(Scanner).Text", "bufio.(Scanner).Bytes"):
						n++
						c.Violate(fmt.Sprintf("%s / line-source#%d", fnKey(f), n), ci.Pos(), "%s cannot tell a terminated line from the cut tail of the file", calleeDesc(ci))
					case isExtCall(ci, "bufio.(Reader).ReadString", "bufio.(Reader).ReadBytes", "bufio.(Reader).ReadSlice"):
						n++
						// the data result may flow on only under err == nil
						ok := true
						var data, errv ssa.Value
						if v := ci.Value(); v != nil {
							for _, r := range refsOf(v) {
								if ex, isEx := r.(*ssa.Extract); isEx {
									if ex.Index == 0 {
										data = ex
									} else {
										errv = ex
									}
								}
							}
						}
						if data != nil {
							for _, r := range refsOf(data) {
								guarded := false
								for _, ft := range condFacts(r.Block()) {
									if b, isB := ft.Cond.(*ssa.BinOp); isB && (b.X == errv || b.Y == errv) && (isNilConst(b.X) || isNilConst(b.Y)) {
										if (b.Op == token.EQL && ft.Truth) || (b.Op == token.NEQ && !ft.Truth) {
											guarded = true
										}
									}
								}
								if !guarded {
									ok = false
								}
							}
						}
						c.Check(ok && errv != nil, fmt.Sprintf("%s / line-source#%d", fnKey(f), n), ci.Pos(), "the text read up to the terminator is used only when the read reported no error (an error means the terminator is missing)")
					}
				}
			}
			if n == 0 {
				c.Violate(mlPkg+" / line-source", token.NoPos, "the reader no longer reads lines through bufio")
			}
		},
	})
}

func init() {
	register(&Rule{
		ID: "metriclog.seconds-compared-with-seconds", Props: []string{"C17"}, Floor: 2,
		Doc: "the index file and the searcher's cached position are kept in seconds, the query interface in milliseconds. Every comparison of the cached second (cachedPos.curSecInIdx) or of a second read from the index file has a seconds value on the other side: a millisecond quantity divided by 1000, another second from the index / cache, or a parameter that receives such a value at every call site. A millisecond value compared with a second is always larger, which silently disables the 'query begins before the cached position' guard",
		Run: func(c *Ctx) {
			n := 0
			for _, f := range c.P.ModuleFuncs() {
				if f.Pkg == nil || !strings.HasSuffix(f.Pkg.Pkg.Path(), mlPkg) || isTestOrExample(f) {
					continue
				}
				if f.Signature.Recv() == nil || !strings.Contains(f.Signature.Recv().Type().String(), "DefaultMetricSearcher") {
					continue
				}
				// locals filled from the index file
				idxLocals := map[*ssa.Alloc]bool{}
				for _, ci := range callsIn(f) {
					if isExtCall(ci, "encoding/binary.Read") && len(ci.Common().Args) == 3 {
						if al, ok := stripConv(ci.Common().Args[2]).(*ssa.Alloc); ok && strings.Contains(strings.ToLower(al.Comment), "sec") {
							idxLocals[al] = true
						}
					}
				}
				var isSec func(v ssa.Value, d int) bool
				isSec = func(v ssa.Value, d int) bool {
					if d > 3 {
						return false
					}
					switch x := v.(type) {
					case *ssa.BinOp:
						if x.Op == token.QUO {
							if k, ok := constInt(x.Y); ok && k == 1000 {
								return true
							}
						}
					case *ssa.UnOp:
						if x.Op == token.MUL {
							if al, ok := x.X.(*ssa.Alloc); ok {
								if idxLocals[al] {
									return true
								}
								if sv := allocSingleStore(al); sv != nil {
									return isSec(sv, d+1)
								}
							}
							if strings.HasSuffix(accessPath(x), ".curSecInIdx") {
								return true
							}
						}
					case *ssa.Phi:
						for _, e := range x.Edges {
							if !isSec(e, d+1) {
								return false
							}
						}
						return true
					case *ssa.Parameter:
						fn := x.Parent()
						idx := -1
						for i, p := range fn.Params {
							if p == x {
								idx = i
							}
						}
						callers := c.P.StaticCallers(fn)
						if len(callers) == 0 || idx < 0 {
							return false
						}
						for _, cs := range callers {
							if idx >= len(cs.Common().Args) || !isSec(cs.Common().Args[idx], d+1) {
								return false
							}
						}
						return true
					}
					return false
				}
				isSecSide := func(v ssa.Value) bool {
					if u, ok := v.(*ssa.UnOp); ok && u.Op == token.MUL {
						if al, ok := u.X.(*ssa.Alloc); ok && idxLocals[al] {
							return true
						}
						return strings.HasSuffix(accessPath(u), ".curSecInIdx")
					}
					return false
				}
				eachInstr(f, func(ins ssa.Instruction) {
					b, ok := ins.(*ssa.BinOp)
					if !ok || !isComparison(b.Op) {
						return
					}
					var other ssa.Value
					if isSecSide(b.X) {
						other = b.Y
					} else if isSecSide(b.Y) {
						other = b.X
					} else {
						return
					}
					n++
					c.Check(isSec(other, 0), fmt.Sprintf("%s / second-comparison#%d", fnKey(f), n), b.Pos(), "%s is compared with a seconds value (%s)", accessPath(b), accessPath(other))
				})
			}
			if n == 0 {
				c.Violate(mlPkg+" / second-comparisons", token.NoPos, "no comparison of index seconds found in the searcher")
			}
		},
	})
}

func init() {
	register(&Rule{
		ID: "metriclog.scan-stops-only-when-told", Props: []string{"C17"}, Floor: 2,
		Doc: "the reader's scan over the files after the starting one (ReadMetrics, ReadMetricsByEndTime) leaves its loop only because the file list is exhausted, a limit passed in by the caller is reached, the per-file reader reported an error, or the per-file reader said not to continue (its shouldContinue result): no other condition - in particular nothing derived from how many items a file contributed after the resource filter - ends the scan, or items of later retained files inside the range are silently dropped",
		Run: func(c *Ctx) {
			for _, fn := range []string{mlPkg + ".(*defaultMetricLogReader).ReadMetrics", mlPkg + ".(*defaultMetricLogReader).ReadMetricsByEndTime"} {
				f := c.P.Func(fn)
				if f == nil {
					c.AnchorLost(fn)
					continue
				}
				loop := loopBlocks(f)
				n, bad := 0, ""
				for _, b := range f.Blocks {
					if !loop[b] || len(b.Instrs) == 0 {
						continue
					}
					ifi, ok := b.Instrs[len(b.Instrs)-1].(*ssa.If)
					if !ok {
						continue
					}
					leaves := !loop[b.Succs[0]] || !loop[b.Succs[1]]
					if !leaves {
						continue
					}
					n++
					cond, _ := stripNot(ifi.Cond, true)
					okCond := false
					isCont := func(v ssa.Value) bool {
						x, ok := v.(*ssa.Extract)
						if !ok {
							return false
						}
						call, isCall := x.Tuple.(*ssa.Call)
						return isCall && call.Call.StaticCallee() != nil && strings.HasPrefix(call.Call.StaticCallee().Name(), "readMetricsInOneFile") && x.Index == 1
					}
					switch x := cond.(type) {
					case *ssa.Extract:
						if isCont(x) {
							okCond = true // shouldContinue
						}
					case *ssa.Phi:
						// the flag as a loop-carried variable: the first file's answer, then each later file's
						okCond = true
						seenP := map[*ssa.Phi]bool{}
						var walk func(ph *ssa.Phi)
						walk = func(ph *ssa.Phi) {
							if seenP[ph] {
								return
							}
							seenP[ph] = true
							for _, e := range ph.Edges {
								if p2, isP := e.(*ssa.Phi); isP {
									walk(p2)
								} else if !isCont(e) {
									okCond = false
								}
							}
						}
						walk(x)
					case *ssa.BinOp:
						p := accessPath(x)
						if strings.Contains(p, "builtin len({[]string})") {
							okCond = true // file list exhausted
						}
						if _, isP := stripConv(x.X).(*ssa.Parameter); isP {
							okCond = true // a limit given by the caller (max lines)
						}
						if _, isP := stripConv(x.Y).(*ssa.Parameter); isP {
							okCond = true
						}
						if isNilConst(x.X) || isNilConst(x.Y) {
							other := x.X
							if isNilConst(x.X) {
								other = x.Y
							}
							if ex, isEx := other.(*ssa.Extract); isEx && isErrorType(ex.Type()) {
								okCond = true // error of the per-file reader
							}
						}
					}
					if !okCond {
						bad = c.P.Pos(ifi.Pos()) + ": " + accessPath(ifi.Cond)
					}
				}
				c.Check(n > 0 && bad == "", fnKey(f)+" / loop-exits", f.Pos(), "%d loop exit(s), each on list exhausted / reader error / shouldContinue (offending: %q)", n, bad)
			}
		},
	})
}

// columnIndexValue: v is computed from arr[x] of a strings.Split result; returns x.
func columnIndexValue(v ssa.Value, d int) ssa.Value {
	if d > 6 {
		return nil
	}
	switch x := stripConv(v).(type) {
	case *ssa.UnOp:
		if ia, ok := x.X.(*ssa.IndexAddr); ok && strings.Contains(accessPath(ia.X), "strings.Split(") {
			return ia.Index
		}
		return columnIndexValue(x.X, d+1)
	case *ssa.Extract:
		return columnIndexValue(x.Tuple, d+1)
	case *ssa.Call:
		if len(x.Call.Args) > 0 {
			return columnIndexValue(x.Call.Args[0], d+1)
		}
	}
	return nil
}

func init() {
	register(&Rule{
		ID: "metriclog.file-order-numeric", Props: []string{"C17"}, Floor: 1,
		Doc: "the comparator that orders metric log files decides by a lexicographic string comparison only where that agrees with the numeric order of the roll numbers: the two strings are known to have equal length (a length comparison or a zero length difference dominates), or they are the (fixed-width) date parts on the branch where the dates differ. A plain string comparison of roll numbers puts `.10` before `.2`: after ten rolls in a day the searcher skips retained files, retention deletes the newest ones and the writer reopens (truncates) a file that is not the latest",
		Run: func(c *Ctx) {
			f := c.P.Func(mlPkg + ".filenameComparator")
			if f == nil {
				c.AnchorLost("metric filenameComparator")
				return
			}
			n := 0
			for _, g := range withNewHelpers(withAnon(f)) {
				k := 0
				eachInstr(g, func(ins ssa.Instruction) {
					b, ok := ins.(*ssa.BinOp)
					if !ok || (b.Op != token.LSS && b.Op != token.GTR && b.Op != token.LEQ && b.Op != token.GEQ) {
						return
					}
					bt, ok := b.X.Type().Underlying().(*types.Basic)
					if !ok || bt.Info()&types.IsString == 0 {
						return
					}
					n++
					k++
					key := fmt.Sprintf("%s / string-order#%d", fnKey(g), k)
					xs, ys := accessPath(b.X), accessPath(b.Y)
					fs := canonFacts(b.Block())
					why := ""
					for fct := range fs {
						switch {
						case strings.Contains(fct, "len(") && (strings.HasSuffix(fct, " == 0") || strings.HasPrefix(fct, "0 == ") || (strings.Contains(fct, " == ") && strings.Count(fct, "len(") >= 2)):
							why = "equal lengths: " + fct
						case fct == xs+" != "+ys || fct == ys+" != "+xs:
							if why == "" {
								why = "the operands differ and are the first key (date parts): " + fct
							}
						}
					}
					// the `differ` justification holds for the first key only: not below an equality of an earlier key
					if strings.HasPrefix(why, "the operands differ") {
						for fct := range fs {
							if strings.Contains(fct, " == ") && !strings.Contains(fct, "len(") && !strings.Contains(fct, "nil") && strings.Contains(fct, "strings.Split(") {
								why = ""
							}
						}
					}
					c.Check(why != "", key, b.Pos(), "%s %s %s decides the file order only where it agrees with numeric order (%s)", xs, b.Op, ys, why)
				})
			}
			if n == 0 {
				c.Hold(fnKey(f)+" / string-order", f.Pos(), "the comparator makes no lexicographic string comparison")
			}
		},
	})
}
