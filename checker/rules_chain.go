package main

import (
	"fmt"
	"go/token"
	"go/types"
	"strings"

	"golang.org/x/tools/go/ssa"
)

// Slot chain rules: C16.

func init() {
	register(&Rule{
		ID: "chain.stable-sort", Props: []string{"C16"}, Floor: 3,
		Doc: "every function that appends to one of SlotChain's slot lists re-sorts that list with sort.SliceStable and a less function that compares the two elements' Order() with a strict '<' (insertion order on ties; an unstable sort or '<=' reorders equal slots)",
		Run: func(c *Ctx) {
			sc := c.P.Named("core/base.SlotChain")
			if sc == nil {
				c.AnchorLost("SlotChain")
				return
			}
			lists := map[string]bool{"statPres": true, "ruleChecks": true, "stats": true}
			for fld := range lists {
				for _, s := range fieldStores(c.P, sc, fld) {
					if rootIsAlloc(s.fa.X) {
						continue // constructor
					}
					f := s.fn
					key := fmt.Sprintf("%s / sort %s", fnKey(f), fld)
					var stable ssa.CallInstruction
					bad := ""
					for _, ci := range callsIn(f) {
						if isExtCall(ci, "sort.Slice", "sort.Sort") && instrReaches(s.st, ci.(ssa.Instruction)) {
							bad = "unstable sort (sort.Slice / sort.Sort): slots with equal Order() may be reordered once the list exceeds 12 elements"
						}
						if isExtCall(ci, "sort.SliceStable", "sort.Stable") && instrDominates(s.st, ci.(ssa.Instruction)) {
							stable = ci
						}
					}
					if bad != "" {
						c.Violate(key, s.st.Pos(), "%s", bad)
						continue
					}
					if stable == nil {
						c.Violate(key, s.st.Pos(), "slot list %s is appended to but not re-sorted with a stable sort on every path", fld)
						continue
					}
					args := stable.Common().Args
					// the list itself, or the very slice value that was just stored into it (a local alias of the new list)
					alias := ""
					if !strings.HasSuffix(accessPath(args[0]), "."+fld) {
						if sameValue(resolve(args[0]), resolve(s.st.Val)) || stripConv(resolve(args[0])) == stripConv(resolve(s.st.Val)) {
							alias = accessPath(resolve(s.st.Val))
						} else {
							c.Violate(key, stable.Pos(), "the sorted slice is %s, not the list that was appended to", accessPath(args[0]))
							continue
						}
					}
					mc, ok := stripConv(args[1]).(*ssa.MakeClosure)
					if !ok {
						c.Undecided(key, stable.Pos(), "less function is not a function literal")
						continue
					}
					less := mc.Fn.(*ssa.Function)
					okLess := false
					detail := ""
					// captured variables are rendered by what they hold (a local alias of the list is the list)
					env := map[ssa.Value]string{}
					for k, fv := range less.FreeVars {
						if k >= len(mc.Bindings) {
							break
						}
						switch bv := mc.Bindings[k].(type) {
						case *ssa.Alloc:
							if sv := allocSingleStore(bv); sv != nil {
								env[fv] = "&" + accessPath(sv)
							}
						default:
							env[fv] = accessPath(bv)
						}
					}
					if rs := returnsOf(less); len(rs) == 1 && len(less.Params) == 2 {
						if b, ok := rs[0].Results[0].(*ssa.BinOp); ok {
							cc := ""
							withPathEnv(env, func() { cc = canonCond(b, true) })
							i, j := accessPath(less.Params[0]), accessPath(less.Params[1])
							detail = cc
							parts := strings.Split(cc, " < ")
							elem := func(part, idx string) bool {
								if !strings.HasSuffix(part, ".Order()") {
									return false
								}
								return strings.Contains(part, "."+fld+"["+idx+"]") || (alias != "" && strings.Contains(part, alias+"["+idx+"]"))
							}
							if len(parts) == 2 && elem(parts[0], i) && elem(parts[1], j) {
								okLess = true
							}
						}
					}
					c.Check(okLess, key, stable.Pos(), "stable sort with less = %q (want list[i].Order() < list[j].Order())", detail)
				}
			}
		},
	})

	register(&Rule{
		ID: "chain.phase-order", Props: []string{"C16"}, Floor: 6,
		Doc: "in SlotChain.Entry prepare slots run before rule-check slots before statistic slots (no path back), each phase iterates its own list; the rule-check loop stops at the first blocked result, which becomes the context's result; each statistic slot is told exactly one of passed / blocked, selected by that final result, and the block error passed is the final result's",
		Run: func(c *Ctx) {
			f := c.P.Func("core/base.(*SlotChain).Entry")
			if f == nil {
				c.AnchorLost("SlotChain.Entry")
				return
			}
			type inv struct {
				ci   ssa.CallInstruction
				list string
			}
			phase := map[string][]inv{}
			for _, ci := range callsIn(f) {
				cc := ci.Common()
				if !cc.IsInvoke() {
					continue
				}
				var ph string
				switch {
				case isInvokeOf(ci, "StatPrepareSlot", "Prepare"):
					ph = "prepare"
				case isInvokeOf(ci, "RuleCheckSlot", "Check"):
					ph = "check"
				case isInvokeOf(ci, "StatSlot", "OnEntryPassed"), isInvokeOf(ci, "StatSlot", "OnEntryBlocked"):
					ph = "stat"
				default:
					continue
				}
				phase[ph] = append(phase[ph], inv{ci, accessPath(cc.Value)})
			}
			wantList := map[string]string{"prepare": "{SlotChain}.statPres[", "check": "{SlotChain}.ruleChecks[", "stat": "{SlotChain}.stats["}
			for _, ph := range []string{"prepare", "check", "stat"} {
				if len(phase[ph]) == 0 {
					c.Violate(fnKey(f)+" / "+ph+"-phase", f.Pos(), "SlotChain.Entry no longer runs the %s slots", ph)
					continue
				}
				for i, in := range phase[ph] {
					c.Check(strings.HasPrefix(in.list, wantList[ph]), fmt.Sprintf("%s / %s-phase#%d / list", fnKey(f), ph, i+1), in.ci.Pos(), "%s slot taken from %s (want an element of %s])", ph, in.list, wantList[ph])
				}
			}
			order := []string{"prepare", "check", "stat"}
			for a := 0; a < len(order); a++ {
				for b := 0; b < a; b++ {
					bad := false
					for _, later := range phase[order[a]] {
						for _, earlier := range phase[order[b]] {
							if instrReaches(later.ci.(ssa.Instruction), earlier.ci.(ssa.Instruction)) {
								bad = true
							}
						}
					}
					c.Check(!bad, fmt.Sprintf("%s / %s-after-%s", fnKey(f), order[a], order[b]), f.Pos(), "no %s slot runs after a %s slot has run", order[b], order[a])
				}
			}
			// short-circuit
			for i, in := range phase["check"] {
				res, ok := in.ci.(*ssa.Call)
				if !ok {
					continue
				}
				key := fmt.Sprintf("%s / check#%d / short-circuit", fnKey(f), i+1)
				var trueBlk *ssa.BasicBlock
				for _, ref := range refsOf(res) {
					call, ok := ref.(*ssa.Call)
					if !ok || !isBlockedCall(call) {
						continue
					}
					for _, r2 := range refsOf(call) {
						if ifi, ok := r2.(*ssa.If); ok {
							trueBlk = ifi.Block().Succs[0]
						}
					}
				}
				if trueBlk == nil {
					c.Violate(key, in.ci.Pos(), "the result of a rule-check slot is not tested with IsBlocked()")
					continue
				}
				stops := trueBlk != in.ci.Block() && !blockReach(trueBlk)[in.ci.Block()]
				// the blocked result becomes ctx.RuleCheckResult
				becomes := false
				ectx := c.P.Named("core/base.EntryContext")
				for _, s := range fieldStores(c.P, ectx, "RuleCheckResult") {
					if s.fn != f {
						continue
					}
					if phi, ok := s.st.Val.(*ssa.Phi); ok {
						for _, e := range phi.Edges {
							if e == ssa.Value(res) {
								becomes = true
							}
						}
					}
					if s.st.Val == ssa.Value(res) {
						becomes = true
					}
				}
				c.Check(stops && becomes, key, in.ci.Pos(), "first blocked result stops the rule-check loop (%v) and is stored as the context's result (%v)", stops, becomes)
			}
			// stat selection
			for i, in := range phase["stat"] {
				key := fmt.Sprintf("%s / stat#%d / selected-by-final-result", fnKey(f), i+1)
				passed := in.ci.Common().Method.Name() == "OnEntryPassed"
				ok := false
				for _, ft := range factsAt(in.ci.(ssa.Instruction)) {
					call, isCall := ft.Cond.(*ssa.Call)
					if !isCall || !isBlockedCall(call) {
						continue
					}
					final := strings.HasSuffix(accessPath(call.Call.Args[0]), "{EntryContext}.RuleCheckResult")
					if final && ft.Truth == !passed {
						ok = true
					}
				}
				if !passed && ok {
					be := accessPath(in.ci.Common().Args[1])
					ok = strings.HasSuffix(be, "{EntryContext}.RuleCheckResult.blockErr")
				}
				c.Check(ok, key, in.ci.Pos(), "%s must be selected by IsBlocked()==%v of the final ctx.RuleCheckResult", in.ci.Common().Method.Name(), !passed)
			}
		},
	})

	register(&Rule{
		ID: "chain.recover-coverage", Props: []string{"C16"}, Floor: 6,
		Doc: "every invocation of a user-implementable callback (Prepare, Check, StatSlot.*, ExitHandler values) reachable from api.Entry / SentinelEntry.Exit / api.TraceError lies in a function with a deferred recover(), or in a function all of whose callers are covered; the recover path of SlotChain.Entry returns nil and api.entry turns a nil result into a passed entry (fail open)",
		Run: func(c *Ctx) {
			roots := []*ssa.Function{c.P.Func("api.Entry"), c.P.Func("core/base.(*SentinelEntry).Exit"), c.P.Func("api.TraceError")}
			for i, r := range roots {
				if r == nil {
					c.AnchorLost([]string{"api.Entry", "SentinelEntry.Exit", "api.TraceError"}[i])
					return
				}
			}
			par, order := c.P.Reach(roots, false)
			_ = par
			inCone := map[*ssa.Function]bool{}
			for _, f := range order {
				inCone[f] = true
			}
			g := c.P.Bounded(false)
			callersOf := map[*ssa.Function][]*ssa.Function{}
			for a, succ := range g {
				if !inCone[a] {
					continue
				}
				for _, b := range succ {
					callersOf[b] = append(callersOf[b], a)
				}
			}
			memo := map[*ssa.Function]int{} // 1 covered, 2 not, 3 in progress
			var covered func(f *ssa.Function) bool
			covered = func(f *ssa.Function) bool {
				switch memo[f] {
				case 1:
					return true
				case 2:
					return false
				case 3:
					return true // cycle: decided by the other callers
				}
				memo[f] = 3
				if hasDeferredRecover(f) {
					memo[f] = 1
					return true
				}
				cs := callersOf[f]
				isRoot := false
				for _, r := range roots {
					if r == f {
						isRoot = true
					}
				}
				if len(cs) == 0 || isRoot {
					memo[f] = 2
					return false
				}
				for _, cl := range cs {
					if !covered(cl) {
						memo[f] = 2
						return false
					}
				}
				memo[f] = 1
				return true
			}
			userIfaces := map[string]bool{"StatPrepareSlot": true, "RuleCheckSlot": true, "StatSlot": true}
			n := 0
			ordc := map[string]int{}
			for _, f := range order {
				if relPkg(fnPkgPath(f)) != "core/base" && relPkg(fnPkgPath(f)) != "api" {
					continue // the built-in slots' own nested invokes (e.g. TrafficShapingChecker) are library code
				}
				for _, ci := range callsIn(f) {
					cc := ci.Common()
					user := false
					what := ""
					if cc.IsInvoke() {
						if nmd, ok := cc.Value.Type().(*types.Named); ok && userIfaces[nmd.Obj().Name()] && cc.Method.Name() != "Order" {
							user = true
							what = nmd.Obj().Name() + "." + cc.Method.Name()
						}
					} else if cc.StaticCallee() == nil {
						if nmd, ok := cc.Value.Type().(*types.Named); ok && nmd.Obj().Name() == "ExitHandler" {
							user = true
							what = "ExitHandler"
						}
					}
					if !user {
						continue
					}
					n++
					ordc[fnKey(f)+what]++
					key := fmt.Sprintf("%s / %s#%d", fnKey(f), what, ordc[fnKey(f)+what])
					c.Check(covered(f), key, ci.Pos(), "a panic raised by this user callback must be recovered before it reaches the caller of Entry / Exit")
				}
			}
			// fail open
			apiEntry := c.P.Func("api.entry")
			chainEntry := c.P.Func("core/base.(*SlotChain).Entry")
			if apiEntry == nil || chainEntry == nil {
				c.AnchorLost("api.entry / SlotChain.Entry")
				return
			}
			// Follow every path from the call of SlotChain.Entry under the assumption that its result is nil (tests of
			// the result against nil are decided, everything else is explored both ways): each such path must end in a
			// return of a non-nil entry with a nil block error, and must not hand the nil result to anything.
			okOpen, whyNot := false, ""
			var chainCall *ssa.Call
			for _, ci := range callsIn(apiEntry) {
				if call, ok := ci.(*ssa.Call); ok && isStaticCallTo(ci, chainEntry) {
					chainCall = call
				}
			}
			if chainCall == nil {
				c.AnchorLost("call of SlotChain.Entry in api.entry")
				return
			}
			{
				isRes := func(v ssa.Value) bool { return resolve(v) == ssa.Value(chainCall) }
				seenB := map[*ssa.BasicBlock]bool{}
				nret := 0
				var walk func(b *ssa.BasicBlock, from int)
				walk = func(b *ssa.BasicBlock, from int) {
					for _, ins := range b.Instrs[from:] {
						switch x := ins.(type) {
						case ssa.CallInstruction:
							cc := x.Common()
							uses := cc.IsInvoke() && isRes(cc.Value)
							for _, a := range cc.Args {
								if isRes(a) {
									uses = true
								}
							}
							if uses && whyNot == "" {
								whyNot = "the nil result is passed to " + calleeDesc(x) + " at " + c.P.Pos(x.Pos())
							}
						case *ssa.Return:
							nret++
							if len(x.Results) != 2 || isNilConst(x.Results[0]) || !isNilConst(x.Results[1]) {
								if whyNot == "" {
									whyNot = "with a nil result the return at " + c.P.Pos(x.Pos()) + " does not hand out a passed entry"
								}
							}
						case *ssa.If:
							takeT, takeF := true, true
							cond, pos := stripNot(x.Cond, true)
							if bo, ok := cond.(*ssa.BinOp); ok && (bo.Op == token.EQL || bo.Op == token.NEQ) {
								var other ssa.Value
								if isNilConst(bo.Y) {
									other = bo.X
								} else if isNilConst(bo.X) {
									other = bo.Y
								}
								if other != nil && isRes(other) {
									isNil := bo.Op == token.EQL // value of the comparison when the result is nil
									if !pos {
										isNil = !isNil
									}
									takeT, takeF = isNil, !isNil
								}
							}
							if takeT && !seenB[b.Succs[0]] {
								seenB[b.Succs[0]] = true
								walk(b.Succs[0], 0)
							}
							if takeF && !seenB[b.Succs[1]] {
								seenB[b.Succs[1]] = true
								walk(b.Succs[1], 0)
							}
							return
						}
					}
					if _, isIf := b.Instrs[len(b.Instrs)-1].(*ssa.If); !isIf {
						for _, s := range b.Succs {
							if !seenB[s] {
								seenB[s] = true
								walk(s, 0)
							}
						}
					}
				}
				walk(chainCall.Block(), instrIndex(chainCall)+1)
				okOpen = whyNot == "" && nret > 0
			}
			c.Check(okOpen, fnKey(apiEntry)+" / nil-result-passes", apiEntry.Pos(), "a nil TokenResult (internal panic recovered in SlotChain.Entry) must be mapped to a passed entry%s", func() string {
				if whyNot != "" {
					return ": " + whyNot
				}
				return ""
			}())
			// recover closure of SlotChain.Entry must not re-panic and the function's recover result is nil (named result absent => nil)
			for _, gfn := range chainEntry.AnonFuncs {
				if !callsRecover(gfn) {
					continue
				}
				rep := false
				eachInstr(gfn, func(ins ssa.Instruction) {
					if _, ok := ins.(*ssa.Panic); ok {
						rep = true
					}
				})
				c.Check(!rep, fnKey(chainEntry)+" / recover-does-not-repanic", gfn.Pos(), "the deferred recover must swallow the panic")
			}
		},
	})
}
