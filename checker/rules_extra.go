package main

import (
	"fmt"
	"go/token"
	"go/types"
	"sort"
	"strings"

	"golang.org/x/tools/go/ssa"
)

// Rules added after the first round of independently seeded changes (DESIGN.md section 9): each is a structural
// necessary condition that the seeded change violated and the earlier rules did not look at.

func init() {
	register(&Rule{
		ID: "cb.trip-check-on-closed-completion", Props: []string{"C03"}, Floor: 3,
		Doc: "in every OnRequestComplete of core/circuitbreaker, every path from the recording of the completion (the totalCount increment) to a return either handles the Open / HalfOpen state or evaluates the minimum-request-amount test (and hence the threshold test) - no completion recorded while the breaker is closed skips the trip decision",
		Run: func(c *Ctx) {
			ifn := c.P.Named(cbPkg + ".CircuitBreaker")
			if ifn == nil {
				c.AnchorLost("CircuitBreaker")
				return
			}
			names := cbStateNames(c.P)
			for _, f := range c.P.Implementations(ifn.Underlying().(*types.Interface), "OnRequestComplete") {
				if relPkg(fnPkgPath(f)) != cbPkg {
					continue
				}
				var inc ssa.Instruction
				for _, ci := range callsIn(f) {
					if an, ok := atomicFuncName(ci); ok && strings.HasPrefix(an, "Add") && strings.HasSuffix(accessPath(ci.Common().Args[0]), ".totalCount") {
						inc = ci.(ssa.Instruction)
					}
				}
				if inc == nil {
					c.Violate(fnKey(f)+" / records", f.Pos(), "OnRequestComplete no longer counts the completion")
					continue
				}
				stateHandled := func(b *ssa.BasicBlock) bool {
					for _, ft := range condFacts(b) {
						bo, ok := ft.Cond.(*ssa.BinOp)
						if !ok || bo.Op != token.EQL || !ft.Truth {
							continue
						}
						if k, ok := constInt(bo.Y); ok && (names[k] == "Open" || names[k] == "HalfOpen") {
							return true
						}
						if k, ok := constInt(bo.X); ok && (names[k] == "Open" || names[k] == "HalfOpen") {
							return true
						}
					}
					return false
				}
				ok, at := allPathsHit(inc, func(x ssa.Instruction) bool {
					if u, isU := x.(*ssa.UnOp); isU && u.Op == token.MUL {
						if fa, isFa := u.X.(*ssa.FieldAddr); isFa && fieldName(fa.X.Type(), fa.Field) == "minRequestAmount" {
							return true
						}
					}
					if r, isR := x.(*ssa.Return); isR && stateHandled(r.Block()) {
						return true
					}
					return false
				}, nil)
				if ok {
					c.Hold(fnKey(f)+" / trip-check-reached", inc.Pos(), "every closed-state completion reaches the minimum-amount / threshold test")
				} else {
					c.Violate(fnKey(f)+" / trip-check-reached", instrPos(at), "a completion recorded while the breaker is closed returns without evaluating the trip condition: if this completion is the one that makes 'window >= minimum and ratio/count >= threshold' true (e.g. a good request that supplies the missing minimum amount, or after old successes expired) the breaker stays closed")
				}
			}
		},
	})

	register(&Rule{
		ID: "hotspot.cache-recency", Props: []string{"C05"}, Floor: 2,
		Doc: "LruCacheMap.Get and LruCacheMap.AddIfAbsent obtain the value they return on a hit from an LRU method that refreshes the entry's recency (reaches container/list MoveToFront): the value that is being metered stays the most recently used one, so traffic on other values can only evict idle values",
		Run: func(c *Ctx) {
			cm := c.P.Named("core/hotspot/cache.LruCacheMap")
			lru := c.P.Named("core/hotspot/cache.LRU")
			if cm == nil || lru == nil {
				c.AnchorLost("cache.LruCacheMap / LRU")
				return
			}
			refreshes := func(m *ssa.Function) bool {
				for _, ci := range callsIn(m) {
					if isExtCall(ci, "container/list.(List).MoveToFront") {
						return true
					}
				}
				return false
			}
			for _, name := range []string{"Get", "AddIfAbsent"} {
				f := c.P.Func("core/hotspot/cache.(*LruCacheMap)." + name)
				if f == nil {
					c.AnchorLost("LruCacheMap." + name)
					continue
				}
				n := 0
				for _, r := range returnsOf(f) {
					for _, cs := range returnValueCases(r, 0) {
						if isNilConst(cs.val) {
							continue
						}
						n++
						// origin call on the LRU
						var origin *ssa.Function
						var walk func(v ssa.Value, d int)
						walk = func(v ssa.Value, d int) {
							if d > 6 || origin != nil {
								return
							}
							switch x := stripConv(v).(type) {
							case *ssa.TypeAssert:
								walk(x.X, d+1)
							case *ssa.Extract:
								walk(x.Tuple, d+1)
							case *ssa.Call:
								if cal := x.Call.StaticCallee(); cal != nil && cal.Signature.Recv() != nil && namedOf(cal.Signature.Recv().Type()) == lru {
									origin = cal
								}
							case *ssa.UnOp:
								if al, ok := x.X.(*ssa.Alloc); ok {
									for _, ref := range refsOf(al) {
										if st, ok := ref.(*ssa.Store); ok && st.Addr == ssa.Value(al) {
											walk(st.Val, d+1)
										}
									}
								}
							case *ssa.Phi:
								for _, e := range x.Edges {
									walk(e, d+1)
								}
							}
						}
						walk(cs.val, 0)
						key := fmt.Sprintf("%s / hit-value#%d", fnKey(f), n)
						if origin == nil {
							c.Undecided(key, r.Pos(), "origin of the returned value %s not recognised", accessPath(cs.val))
							continue
						}
						c.Check(refreshes(origin), key, r.Pos(), "the value returned on a hit comes from LRU.%s, which %s the entry's recency", origin.Name(), map[bool]string{true: "refreshes", false: "does NOT refresh"}[refreshes(origin)])
					}
				}
				if n == 0 {
					c.Violate(fnKey(f)+" / hit-value", f.Pos(), "no hit path found")
				}
			}
		},
	})

	register(&Rule{
		ID: "window.collectors-visit-all", Props: []string{"C08"}, Floor: 2,
		Doc: "the functions that collect buckets from the circular array (valuesWithTime, ValuesConditional) leave their scan loop only through the loop condition: no break / return from inside the loop, so a stale or expired slot cannot hide valid buckets behind it",
		Run: func(c *Ctx) {
			get := c.P.Func(sbPkg + ".(*AtomicBucketWrapArray).get")
			if get == nil {
				c.AnchorLost("AtomicBucketWrapArray.get")
				return
			}
			for _, ci := range c.P.StaticCallers(get) {
				f := ci.Parent()
				if isTestOrExample(f) || f.Name() == "currentBucketOfTime" {
					continue
				}
				blk := ci.Block()
				loops := loopBlocks(f)
				if !loops[blk] {
					c.Info(fnKey(f)+" / scan-loop", ci.Pos(), "bucket fetched outside a loop")
					continue
				}
				// the natural loop containing blk: blocks that reach blk and are reached from blk
				reachFrom := blockReach(blk)
				inLoop := map[*ssa.BasicBlock]bool{blk: true}
				for _, b := range f.Blocks {
					if reachFrom[b] && blockReach(b)[blk] {
						inLoop[b] = true
					}
				}
				// header: the loop block that dominates all loop blocks
				var header *ssa.BasicBlock
				for b := range inLoop {
					dom := true
					for o := range inLoop {
						if !b.Dominates(o) {
							dom = false
						}
					}
					if dom {
						header = b
					}
				}
				bad := ""
				for b := range inLoop {
					for _, s := range b.Succs {
						if !inLoop[s] && b != header {
							bad = c.P.Pos(instrPos(b.Instrs[len(b.Instrs)-1]))
						}
					}
					for _, ins := range b.Instrs {
						if _, ok := ins.(*ssa.Return); ok {
							bad = c.P.Pos(instrPos(ins))
						}
					}
				}
				c.Check(bad == "" && header != nil, fnKey(f)+" / scan-loop-exits", ci.Pos(), "the scan over the circular array is left only through its loop condition (early exit at %s)", bad)
			}
		},
	})

	register(&Rule{
		ID: "window.start-writers", Props: []string{"C09"}, Floor: 3,
		Doc: "BucketWrap.BucketStart is written (atomic Store / Swap / CompareAndSwap / Add) only inside BucketGenerator.ResetBucketTo implementations, i.e. after the bucket's data was cleared (window.reset-before-publish), or by plain stores into freshly allocated wraps: nobody else can publish a new start time over stale data",
		Run: func(c *Ctx) {
			bg := bucketGeneratorIface(c.P)
			if bg == nil {
				c.AnchorLost("BucketGenerator")
				return
			}
			resetters := map[*ssa.Function]bool{}
			for _, f := range c.P.Implementations(bg, "ResetBucketTo") {
				resetters[f] = true
			}
			n := 0
			for _, f := range c.P.ModuleFuncs() {
				if isTestOrExample(f) || !c.P.LiveFuncs()[f] {
					continue
				}
				for _, ci := range callsIn(f) {
					an, ok := atomicFuncName(ci)
					if !ok || strings.HasPrefix(an, "Load") || !isBucketStartAddr(ci.Common().Args[0]) {
						continue
					}
					n++
					c.Check(resetters[f], fmt.Sprintf("%s / atomic.%s(BucketStart)#%d", fnKey(f), an, n), ci.Pos(), "the bucket start is published outside a ResetBucketTo implementation: a reader can see the new start time before the previous cycle's data is cleared")
				}
			}
		},
	})

	register(&Rule{
		ID: "throttling.cas-spacing", Props: []string{"C10"}, Floor: 1,
		Doc: "every CompareAndSwap on the throttling checker's lastPassedTime that admits a request is dominated by the spacing test on the very values it swaps: (old + interval) <= new, with `old` the CAS's expected value and `new` the value stored (a retry with a re-loaded `old` must re-check the spacing)",
		Run: func(c *Ctx) {
			f := c.P.Func("core/flow.(*ThrottlingChecker).DoCheck")
			if f == nil {
				c.AnchorLost("ThrottlingChecker.DoCheck")
				return
			}
			n := 0
			for _, ci := range callsIn(f) {
				an, ok := atomicFuncName(ci)
				if !ok || !strings.HasPrefix(an, "CompareAndSwap") || !strings.HasSuffix(accessPath(ci.Common().Args[0]), ".lastPassedTime") {
					continue
				}
				n++
				old, nw := ci.Common().Args[1], ci.Common().Args[2]
				okS := false
				for _, ft := range factsAt(ci.(ssa.Instruction)) {
					b, isB := ft.Cond.(*ssa.BinOp)
					if !isB {
						continue
					}
					lhs, rhs, op, truth := b.X, b.Y, b.Op, ft.Truth
					// normalise to lhs <= rhs (true)
					switch {
					case op == token.LEQ && truth:
					case op == token.GEQ && truth:
						lhs, rhs = rhs, lhs
					case op == token.GTR && !truth:
					case op == token.LSS && !truth:
						lhs, rhs = rhs, lhs
					default:
						continue
					}
					sum, isSum := lhs.(*ssa.BinOp)
					if !isSum || sum.Op != token.ADD || (!sameValue(sum.X, old) && !sameValue(sum.Y, old)) {
						continue
					}
					if sameValue(rhs, nw) {
						okS = true
					}
				}
				c.Check(okS, fmt.Sprintf("%s / CAS(lastPassedTime)#%d", fnKey(f), n), ci.Pos(), "the admitting CAS replaces `%s` by `%s` under a dominating (old + interval) <= new test on these same values: %v", accessPath(old), accessPath(nw), okS)
			}
			if n == 0 {
				c.Info(fnKey(f)+" / CAS(lastPassedTime)", f.Pos(), "no CAS fast path")
			}
		},
	})

	register(&Rule{
		ID: "cb.deadline-store-unconditional", Props: []string{"C12", "C03"}, Floor: 1,
		Doc: "circuitBreakerBase.updateNextRetryTimestamp stores now + retryTimeoutMs into nextRetryTimestampMs with an atomic Store on every path (no branch, no CAS that may keep an older deadline): every opening gets a deadline a full retry timeout after it",
		Run: func(c *Ctx) {
			f := c.P.Func(cbPkg + ".(*circuitBreakerBase).updateNextRetryTimestamp")
			if f == nil {
				c.AnchorLost("updateNextRetryTimestamp")
				return
			}
			ok := false
			detail := "no atomic store"
			for _, ci := range callsIn(f) {
				an, isA := atomicFuncName(ci)
				if !isA || !strings.HasSuffix(accessPath(ci.Common().Args[0]), ".nextRetryTimestampMs") {
					continue
				}
				if !strings.HasPrefix(an, "Store") {
					detail = "deadline written with " + an + " (may keep an older deadline)"
					continue
				}
				v := accessPath(ci.Common().Args[1])
				uncond := len(condFacts(ci.Block())) == 0
				allRet := true
				for _, r := range returnsOf(f) {
					if !instrDominates(ci.(ssa.Instruction), r) {
						allRet = false
					}
				}
				if uncond && allRet && strings.Contains(v, "CurrentTimeMillis()") && strings.Contains(v, "retryTimeoutMs") && strings.Contains(v, " + ") {
					ok = true
				} else {
					detail = fmt.Sprintf("store of %s, unconditional=%v, on every path=%v", v, uncond, allRet)
				}
			}
			c.Check(ok, fnKey(f)+" / unconditional-store", f.Pos(), "deadline = now + retryTimeoutMs stored on every path (%s)", map[bool]string{true: "ok", false: detail}[ok])
		},
	})

	register(&Rule{
		ID: "datasource.updater-after-consistency", Props: []string{"C18"}, Floor: 1,
		Doc: "in DefaultPropertyHandler.Handle every invocation of the updater is dominated by the isPropertyConsistent call on the converted property (which records it as the last applied one): the handler's memory of 'what is in force' changes whenever the rules do, so a later delivery is skipped only if it really equals what is applied",
		Run: func(c *Ctx) {
			h := c.P.Func("ext/datasource.(*DefaultPropertyHandler).Handle")
			cons := c.P.Func("ext/datasource.(*DefaultPropertyHandler).isPropertyConsistent")
			if h == nil || cons == nil {
				c.AnchorLost("DefaultPropertyHandler.Handle / isPropertyConsistent")
				return
			}
			var consCall ssa.Instruction
			for _, ci := range callsIn(h) {
				if isStaticCallTo(ci, cons) {
					consCall = ci.(ssa.Instruction)
				}
			}
			n := 0
			for _, ci := range callsIn(h) {
				cc := ci.Common()
				if cc.StaticCallee() != nil || cc.IsInvoke() {
					continue
				}
				if !strings.HasSuffix(accessPath(cc.Value), ".updater") {
					continue
				}
				n++
				ok := consCall != nil && instrDominates(consCall, ci.(ssa.Instruction))
				c.Check(ok, fmt.Sprintf("%s / updater#%d", fnKey(h), n), ci.Pos(), "the updater runs only after isPropertyConsistent recorded the property being applied")
			}
			if n == 0 {
				c.Violate(fnKey(h)+" / updater", h.Pos(), "Handle never invokes the updater")
			}
		},
	})

	register(&Rule{
		ID: "outlier.lists-always-set", Props: []string{"C20"}, Floor: 1,
		Doc: "in outlier.Slot.Check every return after the node check is dominated by SetFilterNodes and SetHalfOpenNodes on the result: the pooled TokenResult keeps these lists across requests, so a path that skips the stores reports a previous request's nodes",
		Run: func(c *Ctx) {
			f := c.P.Func("core/outlier.(*Slot).Check")
			can := c.P.Func("core/outlier.checkAllNodes")
			if f == nil || can == nil {
				c.AnchorLost("outlier.Slot.Check / checkAllNodes")
				return
			}
			var chk, setF, setH ssa.Instruction
			for _, ci := range callsIn(f) {
				cal := ci.Common().StaticCallee()
				if cal == nil {
					continue
				}
				switch {
				case cal == can:
					chk = ci.(ssa.Instruction)
				case cal.Name() == "SetFilterNodes":
					setF = ci.(ssa.Instruction)
				case cal.Name() == "SetHalfOpenNodes":
					setH = ci.(ssa.Instruction)
				}
			}
			if chk == nil {
				c.Violate(fnKey(f)+" / node-check", f.Pos(), "the slot no longer evaluates the nodes")
				return
			}
			n := 0
			for _, r := range returnsOf(f) {
				if !instrReaches(chk, r) {
					continue
				}
				n++
				ok := setF != nil && setH != nil && instrDominates(setF, r) && instrDominates(setH, r)
				c.Check(ok, fmt.Sprintf("%s / return#%d / lists-set", fnKey(f), n), r.Pos(), "filter and half-open lists are (re)written on every path that returns after the node check")
			}
		},
	})
}

// Rules added after the second round of independently seeded changes.

func init() {
	register(&Rule{
		ID: "entry.resource-from-options", Props: []string{"C01", "C07"}, Floor: 1,
		Doc: "the ResourceWrapper api.entry puts into the context is built from THIS call's name, resource type and traffic type: it is the result of base.NewResourceWrapper on those three values (whose constructor copies them into the fields the getters return), or of a helper every return of which is such a constructor call on its own three parameters or a lookup in a cache whose key mentions all three parameters. (Inbound statistics and the system gate are selected by ctx.Resource.FlowType(); a wrapper remembered from an earlier call with another traffic type misroutes both.)",
		Run: func(c *Ctx) {
			f := c.P.Func("api.entry")
			ctor := c.P.Func("core/base.NewResourceWrapper")
			rw := c.P.Named("core/base.ResourceWrapper")
			ectx := c.P.Named("core/base.EntryContext")
			if f == nil || ctor == nil || rw == nil || ectx == nil {
				c.AnchorLost("api.entry / NewResourceWrapper / ResourceWrapper")
				return
			}
			// the constructor copies its parameters into the fields
			st := rw.Underlying().(*types.Struct)
			copied := map[string]bool{}
			eachInstr(ctor, func(ins ssa.Instruction) {
				if s, ok := ins.(*ssa.Store); ok {
					if fa, ok := s.Addr.(*ssa.FieldAddr); ok && namedOf(fa.X.Type()) == rw {
						if p, ok := s.Val.(*ssa.Parameter); ok {
							copied[fieldName(fa.X.Type(), fa.Field)+"<-"+accessPath(p)] = true
						}
					}
				}
			})
			c.Check(len(copied) == st.NumFields(), fnKey(ctor)+" / copies-parameters", ctor.Pos(), "NewResourceWrapper stores each of its parameters into a field: %v", keysOfB(copied))
			wantArgs := func(call *ssa.Call, a0, a1, a2 string) bool {
				if len(call.Call.Args) != 3 {
					return false
				}
				return accessPath(call.Call.Args[0]) == a0 && accessPath(call.Call.Args[1]) == a1 && accessPath(call.Call.Args[2]) == a2
			}
			// all three of this call's values
			name, typ, flow := "{string}", "{EntryOptions}.resourceType", "{EntryOptions}.entryType"
			var judge func(v ssa.Value, fn *ssa.Function, a0, a1, a2 string, depth int) string
			judge = func(v ssa.Value, fn *ssa.Function, a0, a1, a2 string, depth int) string {
				v = resolve(v)
				switch x := v.(type) {
				case *ssa.Phi:
					for _, e := range x.Edges {
						if r := judge(e, fn, a0, a1, a2, depth); r != "" {
							return r
						}
					}
					return ""
				case *ssa.Call:
					cal := x.Call.StaticCallee()
					if cal == ctor {
						if wantArgs(x, a0, a1, a2) {
							return ""
						}
						return fmt.Sprintf("NewResourceWrapper(%s, %s, %s) is not built from (%s, %s, %s)", accessPath(x.Call.Args[0]), accessPath(x.Call.Args[1]), accessPath(x.Call.Args[2]), a0, a1, a2)
					}
					if cal != nil && inModule(fnPkgPath(cal)) && cal.Blocks != nil && depth < 2 && wantArgs(x, a0, a1, a2) && len(cal.Params) == 3 {
						p0, p1, p2 := accessPath(cal.Params[0]), accessPath(cal.Params[1]), accessPath(cal.Params[2])
						for _, r := range returnsOf(cal) {
							if msg := judge(r.Results[0], cal, p0, p1, p2, depth+1); msg != "" {
								return cal.Name() + ": " + msg
							}
						}
						return ""
					}
				case *ssa.TypeAssert:
					return judge(x.X, fn, a0, a1, a2, depth)
				case *ssa.Extract:
					// value loaded from a cache: the key must mention all three parameters
					if call, ok := x.Tuple.(*ssa.Call); ok {
						n := ""
						if cal := call.Call.StaticCallee(); cal != nil {
							n = extFuncName(cal)
						}
						if strings.HasPrefix(n, "sync.(Map).Load") && len(call.Call.Args) >= 2 {
							k := accessPath(call.Call.Args[1])
							if strings.Contains(k, a0) && strings.Contains(k, a1) && strings.Contains(k, a2) {
								return ""
							}
							return fmt.Sprintf("wrapper taken from a cache keyed by %s, which does not include all of (%s, %s, %s): the first call on a key fixes the traffic / resource type of all later ones", k, a0, a1, a2)
						}
					}
					if lk, ok := x.Tuple.(*ssa.Lookup); ok {
						k := accessPath(lk.Index)
						if strings.Contains(k, a0) && strings.Contains(k, a1) && strings.Contains(k, a2) {
							return ""
						}
						return fmt.Sprintf("wrapper taken from a map keyed by %s, which does not include all of (%s, %s, %s)", k, a0, a1, a2)
					}
				case *ssa.Lookup:
					k := accessPath(x.Index)
					if strings.Contains(k, a0) && strings.Contains(k, a1) && strings.Contains(k, a2) {
						return ""
					}
					return fmt.Sprintf("wrapper taken from a map keyed by %s, which does not include all of (%s, %s, %s)", k, a0, a1, a2)
				}
				return "origin " + accessPath(v) + " of the wrapper is not a constructor call on this call's values"
			}
			n := 0
			for _, s := range fieldStores(c.P, ectx, "Resource") {
				if s.fn != f {
					continue
				}
				n++
				msg := judge(s.st.Val, f, name, typ, flow, 0)
				c.Check(msg == "", fmt.Sprintf("%s / ctx.Resource#%d", fnKey(f), n), s.st.Pos(), "the context's resource is built from this call's (name, resourceType, entryType)%s", map[bool]string{true: "", false: ": " + msg}[msg == ""])
			}
			if n == 0 {
				c.Violate(fnKey(f)+" / ctx.Resource", f.Pos(), "api.entry no longer sets the context's resource")
			}
		},
	})

	register(&Rule{
		ID: "hotspot.stat-slot-only-adds", Props: []string{"C06"}, Floor: 2,
		Doc: "ConcurrencyStatSlot's callbacks touch the per-value concurrency cache only through Get: they never Remove / Purge / Add / AddIfAbsent a cell (a cell removed while another admitted entry of that value has not yet been counted loses that entry's unit)",
		Run: func(c *Ctx) {
			for _, name := range []string{"OnEntryPassed", "OnEntryBlocked", "OnCompleted"} {
				f := c.P.Func(hsPkg + ".(*ConcurrencyStatSlot)." + name)
				if f == nil {
					c.AnchorLost("ConcurrencyStatSlot." + name)
					continue
				}
				_, order := c.P.Reach([]*ssa.Function{f}, false)
				bad := ""
				for _, g := range order {
					if relPkg(fnPkgPath(g)) != hsPkg {
						continue
					}
					for _, ci := range callsIn(g) {
						cc := ci.Common()
						if cc.IsInvoke() && typeIs(cc.Value.Type(), hsPkg+"/cache", "ConcurrentCounterCache") {
							switch cc.Method.Name() {
							case "Get", "Contains", "Len", "Keys":
							default:
								bad = fmt.Sprintf("%s.%s at %s", accessPath(cc.Value), cc.Method.Name(), c.P.Pos(ci.Pos()))
							}
						}
					}
				}
				c.Check(bad == "", fnKey(f)+" / cache-read-only", f.Pos(), "statistic callbacks only look cells up (%s)", bad)
			}
		},
	})
}

func init() {
	register(&Rule{
		ID: "stat.node-per-resource", Props: []string{"C01", "C02", "C04", "C15"}, Floor: 3,
		Doc: "stat.GetOrCreateResourceNode returns, on every path, either the node registered under the requested resource name (a lookup of resNodeMap by that very name, possibly through GetResourceNode) or a node freshly created for that name by NewResourceNode(name, ...): no two resource names ever share a statistic node, so passes, completions and the in-flight gauge are attributed to the resource that was entered and a rule's window counts only its own resource",
		Run: func(c *Ctx) {
			f := c.P.Func("core/stat.GetOrCreateResourceNode")
			getN := c.P.Func("core/stat.GetResourceNode")
			newN := c.P.Func("core/stat.NewResourceNode")
			g := c.P.Global("core/stat.resNodeMap")
			if f == nil || getN == nil || newN == nil || g == nil {
				c.AnchorLost("stat.GetOrCreateResourceNode / GetResourceNode / NewResourceNode / resNodeMap")
				return
			}
			// helpers of the package that store into resNodeMap ("create under the lock" extracted into a function)
			creators := map[*ssa.Function]bool{}
			for _, h := range c.P.FuncsIn(modPath + "/core/stat") {
				if isTestOrExample(h) || h == f {
					continue
				}
				eachInstr(h, func(ins ssa.Instruction) {
					if mu, ok := ins.(*ssa.MapUpdate); ok {
						if ld, ok := mu.Map.(*ssa.UnOp); ok && ld.X == ssa.Value(g) && len(h.Params) > 0 {
							if b, ok := h.Params[0].Type().Underlying().(*types.Basic); ok && b.Kind() == types.String {
								creators[h] = true
							}
						}
					}
				})
			}
			delegated := false
			var checkFn func(f *ssa.Function)
			checkFn = func(f *ssa.Function) {
				nameP := accessPath(f.Params[0])
				var judge func(v ssa.Value, d int) string
				judge = func(v ssa.Value, d int) string {
					if d > 5 {
						return "too deep"
					}
					switch x := resolve(v).(type) {
					case *ssa.Phi:
						for _, e := range x.Edges {
							if m := judge(e, d+1); m != "" {
								return m
							}
						}
						return ""
					case *ssa.Call:
						cal := x.Call.StaticCallee()
						if (cal == getN || cal == newN) && len(x.Call.Args) >= 1 && accessPath(x.Call.Args[0]) == nameP {
							return ""
						}
						if creators[cal] && len(x.Call.Args) >= 1 && accessPath(x.Call.Args[0]) == nameP {
							delegated = true // judged as a function of its own below
							return ""
						}
						return "call " + accessPath(x) + " is not GetResourceNode / NewResourceNode of the requested name"
					case *ssa.Lookup:
						if ld, ok := x.X.(*ssa.UnOp); ok && ld.X == ssa.Value(g) && accessPath(x.Index) == nameP {
							return ""
						}
						return "lookup " + accessPath(x) + " is not resNodeMap[name]"
					case *ssa.Extract:
						return judge(x.Tuple, d+1)
					case *ssa.UnOp:
						if _, isG := x.X.(*ssa.Global); isG {
							return "the package-level node " + accessPath(x) + " is handed out for an arbitrary resource name"
						}
						// result variable of a function with defer: every value stored into it is a returned value
						if al, ok := x.X.(*ssa.Alloc); ok {
							n := 0
							for _, r := range refsOf(al) {
								if st, ok := r.(*ssa.Store); ok && st.Addr == ssa.Value(al) {
									n++
									if m := judge(st.Val, d+1); m != "" {
										return m
									}
								}
							}
							if n > 0 {
								return ""
							}
						}
					case *ssa.Const:
						if x.Value == nil {
							return "nil is returned: the entry gets no statistic node (a typed-nil StatNode defeats the nil guards of the statistic slot; pass and completion are recorded nowhere)"
						}
					}
					return "origin " + accessPath(v) + " is not a per-name node"
				}
				for i, r := range returnsOf(f) {
					msg := judge(r.Results[0], 0)
					c.Check(msg == "", fmt.Sprintf("%s / return#%d", fnKey(f), i+1), r.Pos(), "returns the node of the requested resource name%s", map[bool]string{true: "", false: ": " + msg + " - several resources would share one window and one in-flight gauge"}[msg == ""])
				}
				// a created node is registered under its own name
				okStore := false
				eachInstr(f, func(ins ssa.Instruction) {
					if mu, ok := ins.(*ssa.MapUpdate); ok {
						if ld, ok := mu.Map.(*ssa.UnOp); ok && ld.X == ssa.Value(g) {
							okStore = accessPath(mu.Key) == nameP && judge(mu.Value, 0) == ""
							c.Check(okStore, fnKey(f)+" / registers-under-own-name", mu.Pos(), "resNodeMap[%s] = %s", accessPath(mu.Key), accessPath(mu.Value))
						}
					}
				})
				if !okStore && !delegated {
					c.Violate(fnKey(f)+" / registers", f.Pos(), "a newly created node is not registered under the requested name")
				}
				// check-then-act: the node is stored only when, under the very write lock that covers the store, the
				// name was looked up and found absent. Otherwise two first entries of one resource each register a node and
				// the entry counted on the overwritten node is lost to the in-flight gauge for its whole lifetime.
				isOp := func(ins ssa.Instruction, want string) bool {
					ci, ok := ins.(ssa.CallInstruction)
					if !ok {
						return false
					}
					if _, isDefer := ins.(*ssa.Defer); isDefer {
						return false
					}
					k, op, ok := mutexOp(ci)
					return ok && op == want && strings.HasSuffix(k, "rnsMux")
				}
				lock := func(ins ssa.Instruction) bool { return isOp(ins, "Lock") }
				unlock := func(ins ssa.Instruction) bool { return isOp(ins, "Unlock") || isOp(ins, "RUnlock") }
				eachInstr(f, func(ins ssa.Instruction) {
					mu, ok := ins.(*ssa.MapUpdate)
					if !ok {
						return
					}
					if ld, ok := mu.Map.(*ssa.UnOp); !ok || ld.X != ssa.Value(g) {
						return
					}
					held := mustBeforeInstr(mu, lock, unlock)
					rechecked := false
					eachInstr(f, func(x ssa.Instruction) {
						lk, ok := x.(*ssa.Lookup)
						if !ok {
							return
						}
						if ld, ok := lk.X.(*ssa.UnOp); !ok || ld.X != ssa.Value(g) || accessPath(lk.Index) != nameP {
							return
						}
						if !mustBeforeInstr(lk, lock, unlock) || !reachedOnlyIfAbsent(lk, mu) {
							return
						}
						released := false
						eachInstr(f, func(u ssa.Instruction) {
							if unlock(u) && instrReaches(lk, u) && instrReaches(u, mu) {
								released = true
							}
						})
						if !released {
							rechecked = true
						}
					})
					c.Check(held && rechecked, fnKey(f)+" / absent-rechecked-under-write-lock", mu.Pos(), "the node is registered with rnsMux write-held (%v) and only after resNodeMap[name] was found absent under that same hold (%v): concurrent first entries of one resource must end up on one node", held, rechecked)
				})
			}
			checkFn(f)
			if delegated {
				var hs []*ssa.Function
				for h := range creators {
					hs = append(hs, h)
				}
				sort.Slice(hs, func(i, j int) bool { return fnKey(hs[i]) < fnKey(hs[j]) })
				for _, h := range hs {
					delegated = false
					checkFn(h)
				}
			}
		},
	})
}

func init() {
	register(&Rule{
		ID: "stat.node-reads-through-view", Props: []string{"C07", "C08"}, Floor: 8,
		Doc: "every statistic a BaseStatNode reports (QPS, sums, max / average / minimum response time, peak concurrency - the figures the system rules and the BBR estimate compare) is read through the node's own SlidingWindowMetric view (n.metric), i.e. over the node's configured interval; the underlying BucketLeapArray (n.arr, the longer shared array) is only written (result-less calls) and handed to view constructors. A reader that asks the array directly reports figures of a different, longer window than its sibling readers",
		Run: func(c *Ctx) {
			bn := c.P.Named("core/stat.BaseStatNode")
			if bn == nil {
				c.AnchorLost("core/stat.BaseStatNode")
				return
			}
			n := 0
			for _, f := range c.P.FuncsIn(modPath + "/core/stat") {
				recv := f.Signature.Recv()
				if recv == nil || namedOf(recv.Type()) != bn || isTestOrExample(f) || f.Blocks == nil {
					continue
				}
				n++
				bad := ""
				viaView := 0
				for _, ci := range callsIn(f) {
					cal := ci.Common().StaticCallee()
					if cal == nil || cal.Signature.Recv() == nil || len(ci.Common().Args) == 0 {
						continue
					}
					p := accessPath(ci.Common().Args[0])
					if strings.HasSuffix(p, ".metric") {
						viaView++
					}
					if strings.HasSuffix(p, ".arr") && cal.Signature.Results().Len() > 0 {
						bad = c.P.Pos(ci.Pos()) + ": " + cal.Name()
					}
				}
				c.Check(bad == "", fnKey(f)+" / no-read-from-array", f.Pos(), "%d call(s) through the view; value-returning call on the underlying array: %q", viaView, bad)
			}
			if n == 0 {
				c.AnchorLost("methods of BaseStatNode")
			}
		},
	})
}
