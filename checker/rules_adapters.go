package main

import (
	"fmt"
	"go/ast"
	"go/token"
	"go/types"
	"path/filepath"
	"sort"
	"strings"

	"golang.org/x/tools/go/cfg"
	"golang.org/x/tools/go/packages"
)

// E12: adapter protocol. AST + go/cfg + types.Info (go/ssa is not available for modules whose
// dependency closure does not type-check, e.g. hertz).

type entrySite struct {
	prog      *Program
	pkg       *packages.Package
	fnName    string   // Decl$1$2
	fnNode    ast.Node // *ast.FuncDecl or *ast.FuncLit that directly contains the call
	body      *ast.BlockStmt
	encl      []ast.Node // enclosing functions, outermost first (incl. fnNode)
	call      *ast.CallExpr
	assign    *ast.AssignStmt
	entryObj  types.Object // nil if assigned to _
	blockObj  types.Object // nil if assigned to _
	ordinal   int
	withChain bool
	g         *cfg.CFG
	copies    map[ast.Node]bool // assignments that only move the results out of an expanded helper's temporaries
}

func (s *entrySite) key() string {
	return fmt.Sprintf("%s.%s / api.Entry#%d", s.pkgKey(), s.fnName, s.ordinal)
}

// pkgKey names the package by its directory under the repository (kratos declares kitex's import path).
func (s *entrySite) pkgKey() string {
	if len(s.pkg.GoFiles) > 0 {
		if rel, err := filepath.Rel(repoRoot, filepath.Dir(s.pkg.GoFiles[0])); err == nil {
			return filepath.ToSlash(rel)
		}
	}
	return relPkg(s.pkg.PkgPath)
}

func isAPIFunc(info *types.Info, call *ast.CallExpr, name string) bool {
	var id *ast.Ident
	switch f := call.Fun.(type) {
	case *ast.SelectorExpr:
		id = f.Sel
	case *ast.Ident:
		id = f
	default:
		return false
	}
	obj := info.Uses[id]
	fn, ok := obj.(*types.Func)
	if !ok || fn.Pkg() == nil {
		return false
	}
	return fn.Pkg().Path() == modPath+"/api" && fn.Name() == name
}

// collectEntrySites finds every call of api.Entry in non-test files of the adapter packages.
func collectEntrySites(progs []*Program) []*entrySite {
	var out []*entrySite
	for _, p := range progs {
		for _, pk := range p.Pkgs {
			if !strings.Contains(pk.PkgPath, "/pkg/adapters/") || strings.Contains(pk.PkgPath, "/example") {
				continue
			}
			for _, file := range pk.Syntax {
				fname := p.Fset.Position(file.Pos()).Filename
				if strings.HasSuffix(fname, "_test.go") {
					continue
				}
				for _, d := range file.Decls {
					fd, ok := d.(*ast.FuncDecl)
					if !ok || fd.Body == nil {
						continue
					}
					name := fd.Name.Name
					if fd.Recv != nil && len(fd.Recv.List) > 0 {
						name = "(" + types.ExprString(fd.Recv.List[0].Type) + ")." + name
					}
					collectInFunc(p, pk, name, fd, fd.Body, []ast.Node{fd}, &out)
				}
			}
		}
	}
	sort.SliceStable(out, func(i, j int) bool { return out[i].key() < out[j].key() })
	return out
}

func collectInFunc(p *Program, pk *packages.Package, name string, fn ast.Node, body *ast.BlockStmt, encl []ast.Node, out *[]*entrySite) {
	// direct statements of this function (not nested literals)
	ord := 0
	litN := 0
	var g *cfg.CFG
	ast.Inspect(body, func(n ast.Node) bool {
		switch x := n.(type) {
		case *ast.FuncLit:
			litN++
			collectInFunc(p, pk, fmt.Sprintf("%s$%d", name, litN), x, x.Body, append(append([]ast.Node{}, encl...), x), out)
			return false
		case *ast.AssignStmt:
			if len(x.Rhs) == 1 {
				if call, ok := x.Rhs[0].(*ast.CallExpr); ok && isAPIFunc(pk.TypesInfo, call, "Entry") {
					ord++
					if g == nil {
						g = cfg.New(body, func(c *ast.CallExpr) bool { return !isPanicCall(pk.TypesInfo, c) })
					}
					s := &entrySite{prog: p, pkg: pk, fnName: name, fnNode: fn, body: body, encl: encl, call: call, assign: x, ordinal: ord, g: g}
					if len(x.Lhs) == 2 {
						s.entryObj = lhsObj(pk.TypesInfo, x.Lhs[0])
						s.blockObj = lhsObj(pk.TypesInfo, x.Lhs[1])
						// results parked in the temporaries of an expanded helper and copied out right away
						// (`_ilN_r0, _ilN_r1 = api.Entry(...); entry, blockErr = _ilN_r0, _ilN_r1`): the copies are the variables
						for hop := 0; hop < 3; hop++ {
							moved := false
							ast.Inspect(body, func(m ast.Node) bool {
								as, ok := m.(*ast.AssignStmt)
								if !ok || as == x || len(as.Lhs) != len(as.Rhs) {
									return true
								}
								for k, r := range as.Rhs {
									id, ok := r.(*ast.Ident)
									if !ok || !strings.HasPrefix(id.Name, "_il") {
										continue
									}
									o := pk.TypesInfo.Uses[id]
									if o != nil && o == s.entryObj {
										if no := lhsObj(pk.TypesInfo, as.Lhs[k]); no != nil {
											s.entryObj, moved = no, true
										}
									} else if o != nil && o == s.blockObj {
										if no := lhsObj(pk.TypesInfo, as.Lhs[k]); no != nil {
											s.blockObj, moved = no, true
										}
									} else {
										continue
									}
									if s.copies == nil {
										s.copies = map[ast.Node]bool{}
									}
									s.copies[as] = true
								}
								return true
							})
							if !moved {
								break
							}
						}
					}
					for _, a := range call.Args {
						if c2, ok := a.(*ast.CallExpr); ok && isAPIFunc(pk.TypesInfo, c2, "WithSlotChain") {
							s.withChain = true
						}
					}
					*out = append(*out, s)
				}
			}
		case *ast.CallExpr:
			// Entry call not in a 2-value assignment
			if isAPIFunc(pk.TypesInfo, x, "Entry") {
				found := false
				for _, s := range *out {
					if s.call == x {
						found = true
					}
				}
				if !found {
					// will be picked by the AssignStmt case if it is one (Inspect visits the parent first)
				}
			}
		}
		return true
	})
}

func isPanicCall(info *types.Info, c *ast.CallExpr) bool {
	if id, ok := c.Fun.(*ast.Ident); ok {
		if b, ok := info.Uses[id].(*types.Builtin); ok && b.Name() == "panic" {
			return true
		}
	}
	return false
}

func lhsObj(info *types.Info, e ast.Expr) types.Object {
	// a field of a local struct variable (`out.err`): the field stands for the variable
	if se, ok := e.(*ast.SelectorExpr); ok {
		if base, ok := se.X.(*ast.Ident); ok {
			if v, ok := info.Uses[base].(*types.Var); ok && !v.IsField() && v.Parent() != nil && v.Parent() != v.Pkg().Scope() {
				if f, ok := info.Uses[se.Sel].(*types.Var); ok && f.IsField() {
					return f
				}
			}
		}
		return nil
	}
	id, ok := e.(*ast.Ident)
	if !ok || id.Name == "_" {
		return nil
	}
	if o := info.Defs[id]; o != nil {
		return o
	}
	return info.Uses[id]
}

// ---- CFG node positions

type nodeRef struct {
	b *cfg.Block
	i int
}

func findNode(g *cfg.CFG, n ast.Node) (nodeRef, bool) {
	for _, b := range g.Blocks {
		for i, x := range b.Nodes {
			if x == n {
				return nodeRef{b, i}, true
			}
			// the assignment may be nested (e.g. in an if-init): match by containment of position
			if x.Pos() <= n.Pos() && n.End() <= x.End() {
				if _, isStmt := x.(ast.Stmt); isStmt {
					if containsNode(x, n) {
						return nodeRef{b, i}, true
					}
				}
			}
		}
	}
	return nodeRef{}, false
}

func containsNode(root, n ast.Node) bool {
	found := false
	ast.Inspect(root, func(x ast.Node) bool {
		if x == n {
			found = true
		}
		if _, ok := x.(*ast.FuncLit); ok && x != n {
			return false
		}
		return !found
	})
	return found
}

// usesObj reports whether node n (excluding nested function literals unless deep) mentions obj.
func usesObj(info *types.Info, n ast.Node, obj types.Object, deep bool) bool {
	if obj == nil {
		return false
	}
	found := false
	ast.Inspect(n, func(x ast.Node) bool {
		if !deep {
			if _, ok := x.(*ast.FuncLit); ok {
				return false
			}
		}
		if id, ok := x.(*ast.Ident); ok && (info.Uses[id] == obj) {
			found = true
		}
		return !found
	})
	return found
}

// nilTest recognises `obj != nil` / `obj == nil` (either operand order); returns the operator.
func nilTest(info *types.Info, e ast.Expr, obj types.Object) (token.Token, bool) {
	e = ast.Unparen(e)
	be, ok := e.(*ast.BinaryExpr)
	if !ok || (be.Op != token.NEQ && be.Op != token.EQL) {
		return 0, false
	}
	isObj := func(x ast.Expr) bool {
		x = ast.Unparen(x)
		if se, ok := x.(*ast.SelectorExpr); ok {
			return obj != nil && info.Uses[se.Sel] == obj
		}
		id, ok := x.(*ast.Ident)
		return ok && obj != nil && info.Uses[id] == obj
	}
	isNil := func(x ast.Expr) bool {
		id, ok := ast.Unparen(x).(*ast.Ident)
		if !ok {
			return false
		}
		_, isNilObj := info.Uses[id].(*types.Nil)
		return isNilObj
	}
	if (isObj(be.X) && isNil(be.Y)) || (isObj(be.Y) && isNil(be.X)) {
		return be.Op, true
	}
	return 0, false
}

// handlerCalls returns the handler invocations contained in node n (not descending into literals).
func (s *entrySite) handlerCalls(n ast.Node) []*ast.CallExpr {
	info := s.pkg.TypesInfo
	var out []*ast.CallExpr
	ast.Inspect(n, func(x ast.Node) bool {
		if _, ok := x.(*ast.FuncLit); ok {
			return false
		}
		c, ok := x.(*ast.CallExpr)
		if !ok {
			return true
		}
		if s.isHandlerCall(info, c) {
			out = append(out, c)
		}
		return true
	})
	return out
}

func sentinelPkg(p *types.Package) bool {
	return p != nil && inModule(p.Path())
}

func (s *entrySite) isHandlerCall(info *types.Info, c *ast.CallExpr) bool {
	switch f := ast.Unparen(c.Fun).(type) {
	case *ast.Ident:
		v, ok := info.Uses[f].(*types.Var)
		if !ok {
			return false
		}
		if _, isSig := v.Type().Underlying().(*types.Signature); !isSig {
			return false
		}
		// a func-typed parameter of this or an enclosing function whose type is not declared by sentinel
		if n, ok := v.Type().(*types.Named); ok && sentinelPkg(n.Obj().Pkg()) {
			return false
		}
		for _, e := range s.encl {
			var ft *ast.FuncType
			switch x := e.(type) {
			case *ast.FuncDecl:
				ft = x.Type
			case *ast.FuncLit:
				ft = x.Type
			}
			if ft == nil || ft.Params == nil {
				continue
			}
			for _, fld := range ft.Params.List {
				for _, nm := range fld.Names {
					if info.Defs[nm] == v {
						return true
					}
				}
			}
		}
		return false
	case *ast.SelectorExpr:
		sel := info.Selections[f]
		if sel == nil || sel.Kind() != types.MethodVal {
			return false
		}
		m, ok := sel.Obj().(*types.Func)
		if !ok || sentinelPkg(m.Pkg()) {
			return false
		}
		if m.Name() == "Next" {
			return true
		}
		// the wrapped client's method of the same name as the enclosing method (go-micro client wrapper)
		if fd, ok := s.encl[0].(*ast.FuncDecl); ok && fd.Recv != nil && fd.Name.Name == m.Name() && len(s.encl) == 1 {
			return true
		}
	}
	return false
}

func isExitCall(info *types.Info, c *ast.CallExpr, entryObj types.Object) bool {
	se, ok := ast.Unparen(c.Fun).(*ast.SelectorExpr)
	if !ok || se.Sel.Name != "Exit" {
		return false
	}
	id, ok := ast.Unparen(se.X).(*ast.Ident)
	return ok && entryObj != nil && info.Uses[id] == entryObj
}

// nodeIsExit: a `defer entry.Exit(...)` (deferred=true) or a plain `entry.Exit(...)` statement.
func nodeIsExit(info *types.Info, n ast.Node, entryObj types.Object) (isExit, deferred bool) {
	switch x := n.(type) {
	case *ast.DeferStmt:
		if isExitCall(info, x.Call, entryObj) {
			return true, true
		}
		// defer func() { ... entry.Exit() ... }(): counts only if the closure calls Exit on every one of its paths
		// (a path that re-panics or returns before Exit leaks the entry)
		if fl, ok := x.Call.Fun.(*ast.FuncLit); ok {
			if closureExitsOnAllPaths(info, fl, entryObj) {
				return true, true
			}
		}
	case *ast.ExprStmt:
		if c, ok := x.X.(*ast.CallExpr); ok && isExitCall(info, c, entryObj) {
			return true, false
		}
	}
	return false, false
}

// walk explores the CFG forward from start (exclusive of nodes before index i in the first block).
// visit returns stop=true to cut the path at that node. atExit is called for every path end (block without successors).
func walkCFG(start nodeRef, visit func(nodeRef, ast.Node) (stop bool), atExit func(b *cfg.Block)) {
	type st struct {
		b *cfg.Block
		i int
	}
	seen := map[*cfg.Block]bool{}
	var rec func(b *cfg.Block, i int)
	rec = func(b *cfg.Block, i int) {
		for ; i < len(b.Nodes); i++ {
			if visit(nodeRef{b, i}, b.Nodes[i]) {
				return
			}
		}
		if len(b.Succs) == 0 {
			if atExit != nil {
				atExit(b)
			}
			return
		}
		for _, s := range b.Succs {
			if !seen[s] {
				seen[s] = true
				rec(s, 0)
			}
		}
	}
	rec(start.b, start.i)
}

// branchSplit finds, on every path from the Entry assignment, the first test of blockObj against nil.
// It returns the start blocks of the blocked and admitted branches and the nodes used before the test.
type split struct {
	blocked, admitted []*cfg.Block
	earlyUse          []ast.Node // uses of entry / handler calls before the test
	untested          bool       // some path reaches the function end or a use without the test
}

func (s *entrySite) split() split {
	var sp split
	info := s.pkg.TypesInfo
	ref, ok := findNode(s.g, s.assign)
	if !ok {
		sp.untested = true
		return sp
	}
	seen := map[*cfg.Block]bool{}
	var rec func(b *cfg.Block, i int)
	rec = func(b *cfg.Block, i int) {
		for ; i < len(b.Nodes); i++ {
			n := b.Nodes[i]
			if e, ok := n.(ast.Expr); ok && i == len(b.Nodes)-1 && len(b.Succs) == 2 {
				if op, ok := nilTest(info, e, s.blockObj); ok {
					if op == token.NEQ {
						sp.blocked = append(sp.blocked, b.Succs[0])
						sp.admitted = append(sp.admitted, b.Succs[1])
					} else {
						sp.blocked = append(sp.blocked, b.Succs[1])
						sp.admitted = append(sp.admitted, b.Succs[0])
					}
					return
				}
			}
			if s.copies[n] {
				continue
			}
			if usesObj(info, n, s.entryObj, true) || len(s.handlerCalls(n)) > 0 {
				sp.earlyUse = append(sp.earlyUse, n)
				sp.untested = true
				return
			}
		}
		if len(b.Succs) == 0 {
			sp.untested = true
			return
		}
		for _, x := range b.Succs {
			if !seen[x] {
				seen[x] = true
				rec(x, 0)
			}
		}
	}
	rec(ref.b, ref.i+1)
	return sp
}

func reachableBlocks(starts []*cfg.Block) map[*cfg.Block]bool {
	seen := map[*cfg.Block]bool{}
	q := append([]*cfg.Block{}, starts...)
	for _, b := range q {
		seen[b] = true
	}
	for len(q) > 0 {
		b := q[0]
		q = q[1:]
		for _, x := range b.Succs {
			if !seen[x] {
				seen[x] = true
				q = append(q, x)
			}
		}
	}
	return seen
}

func (p *Program) nodePos(n ast.Node) string {
	ps := p.Fset.Position(n.Pos())
	rel, err := filepath.Rel(repoRoot, ps.Filename)
	if err != nil {
		rel = ps.Filename
	}
	return fmt.Sprintf("%s:%d", rel, ps.Line)
}

// optionsHasFallback: does the function read a struct (declared in the adapter package) with a field whose name contains "fallback"?
func (s *entrySite) fallbackFields() map[*types.Var]bool {
	out := map[*types.Var]bool{}
	sc := s.pkg.Types.Scope()
	// struct types of the adapter package that the enclosing functions actually read
	used := map[*types.TypeName]bool{}
	ast.Inspect(s.encl[0], func(x ast.Node) bool {
		if id, ok := x.(*ast.Ident); ok {
			if v, ok := s.pkg.TypesInfo.Uses[id].(*types.Var); ok {
				if n := namedOf(v.Type()); n != nil && n.Obj().Pkg() == s.pkg.Types {
					used[n.Obj()] = true
				}
			}
		}
		return true
	})
	for _, n := range sc.Names() {
		tn, ok := sc.Lookup(n).(*types.TypeName)
		if !ok || !used[tn] {
			continue
		}
		st, ok := tn.Type().Underlying().(*types.Struct)
		if !ok {
			continue
		}
		for i := 0; i < st.NumFields(); i++ {
			if strings.Contains(strings.ToLower(st.Field(i).Name()), "fallback") {
				out[st.Field(i)] = true
			}
		}
	}
	return out
}

func init() {
	const minSites = 25

	register(&Rule{
		ID: "adapter.block-checked", Props: []string{"C19"}, Floor: minSites, Needs: "adapters",
		Doc: "at every api.Entry call site under pkg/adapters the *BlockError result is bound to a variable and compared with nil on every path before any use of the entry and before any handler invocation (a blocked request yields a nil entry)",
		Run: func(c *Ctx) {
			for _, s := range collectEntrySites(c.Adapters) {
				pos := s.prog.nodePos(s.call)
				switch {
				case s.blockObj == nil:
					c.addAt(Violated, s.key(), pos, "block result of api.Entry is discarded: when the request is blocked the entry is nil and the following use of it (Exit / Context) dereferences nil; the handler contract is void")
				default:
					sp := s.split()
					if sp.untested {
						what := "function end"
						if len(sp.earlyUse) > 0 {
							what = s.prog.nodePos(sp.earlyUse[0])
						}
						c.addAt(Violated, s.key(), pos, "a path from api.Entry reaches %s without testing the block error against nil", what)
					} else {
						c.addAt(Holds, s.key(), pos, "block error tested against nil before any use of the entry or handler call (%d test sites)", len(sp.blocked))
					}
				}
			}
		},
	})

	register(&Rule{
		ID: "adapter.blocked-no-handler", Props: []string{"C19"}, Floor: 21, Needs: "adapters",
		Doc: "from the blocked branch of the nil test no handler invocation and no use of the (nil) entry is reachable; if the adapter's options declare a block-fallback field the blocked branch consults one",
		Run: func(c *Ctx) {
			for _, s := range collectEntrySites(c.Adapters) {
				if s.blockObj == nil {
					continue // reported by adapter.block-checked
				}
				sp := s.split()
				if sp.untested {
					continue
				}
				info := s.pkg.TypesInfo
				pos := s.prog.nodePos(s.call)
				bad := ""
				usesFallback := false
				fb := s.fallbackFields()
				// locals of the enclosing functions that hold a fallback hook (`fallback := options.blockFallback`)
				fbLocal := map[types.Object]bool{}
				if len(fb) > 0 {
					isFbSel := func(e ast.Expr) bool {
						se, ok := e.(*ast.SelectorExpr)
						if !ok {
							return false
						}
						if sel := info.Selections[se]; sel != nil {
							if v, ok := sel.Obj().(*types.Var); ok && fb[v] {
								return true
							}
						}
						return false
					}
					ast.Inspect(s.encl[0], func(x ast.Node) bool {
						switch a := x.(type) {
						case *ast.AssignStmt:
							if len(a.Lhs) == len(a.Rhs) {
								for i, l := range a.Lhs {
									if id, ok := l.(*ast.Ident); ok && isFbSel(a.Rhs[i]) {
										if o := info.ObjectOf(id); o != nil {
											fbLocal[o] = true
										}
									}
								}
							}
						case *ast.ValueSpec:
							if len(a.Names) == len(a.Values) {
								for i, id := range a.Names {
									if isFbSel(a.Values[i]) {
										if o := info.ObjectOf(id); o != nil {
											fbLocal[o] = true
										}
									}
								}
							}
						}
						return true
					})
				}
				for b := range reachableBlocks(sp.blocked) {
					for _, n := range b.Nodes {
						if hs := s.handlerCalls(n); len(hs) > 0 && bad == "" {
							bad = "handler invoked at " + s.prog.nodePos(hs[0]) + " although the request was blocked"
						}
						if usesObj(info, n, s.entryObj, true) && bad == "" {
							bad = "nil entry used at " + s.prog.nodePos(n) + " on the blocked path"
						}
						ast.Inspect(n, func(x ast.Node) bool {
							if se, ok := x.(*ast.SelectorExpr); ok {
								if sel := info.Selections[se]; sel != nil {
									if v, ok := sel.Obj().(*types.Var); ok && fb[v] {
										usesFallback = true
									}
								}
							}
							if id, ok := x.(*ast.Ident); ok && fbLocal[info.Uses[id]] {
								usesFallback = true
							}
							return true
						})
					}
				}
				if bad != "" {
					c.addAt(Violated, s.key(), pos, "%s", bad)
					continue
				}
				if len(fb) > 0 && !usesFallback {
					c.addAt(Violated, s.key(), pos, "the adapter declares a block fallback option but the blocked branch never consults it")
					continue
				}
				// gin runs the remaining handlers of the chain after a middleware returns unless the context was aborted:
				// returning from the blocked branch is not enough, every path through it must abort (or hand over to the fallback)
				if strings.HasSuffix(s.pkg.PkgPath, "/adapters/gin") || strings.HasSuffix(s.pkg.Dir, "/adapters/gin") {
					stops := func(n ast.Node) bool {
						found := false
						ast.Inspect(n, func(x ast.Node) bool {
							call, ok := x.(*ast.CallExpr)
							if !ok {
								return true
							}
							if id, ok := call.Fun.(*ast.Ident); ok && fbLocal[info.Uses[id]] && localFallbackAborts(s, info, info.Uses[id], fb) {
								found = true // a local holding the custom fallback, or else a default that aborts
							}
							if se, ok := call.Fun.(*ast.SelectorExpr); ok {
								if sel := info.Selections[se]; sel != nil {
									if v, ok := sel.Obj().(*types.Var); ok && fb[v] {
										found = true // custom fallback, documented to abort
									}
									if fn, ok := sel.Obj().(*types.Func); ok && strings.HasPrefix(fn.Name(), "Abort") {
										found = true
									}
								}
							}
							return true
						})
						return found
					}
					seenB := map[*cfg.Block]bool{}
					leak := ""
					var walk func(b *cfg.Block)
					walk = func(b *cfg.Block) {
						if seenB[b] || leak != "" {
							return
						}
						seenB[b] = true
						for _, n := range b.Nodes {
							if stops(n) {
								return
							}
						}
						if len(b.Succs) == 0 {
							leak = s.prog.nodePos(lastNodeOr(b, s.fnNode))
							return
						}
						for _, sc := range b.Succs {
							walk(sc)
						}
					}
					for _, b := range sp.blocked {
						walk(b)
					}
					if leak != "" {
						c.addAt(Violated, s.key(), pos, "gin: a path through the blocked branch returns at %s without c.Abort*(...) or the fallback: gin then runs the wrapped handler for a request that was rejected", leak)
						continue
					}
				}
				c.addAt(Holds, s.key(), pos, "blocked branch returns without handler call or entry use (fallback consulted: %v)", usesFallback)
			}
		},
	})

	register(&Rule{
		ID: "adapter.exit-deferred", Props: []string{"C19"}, Floor: minSites, Needs: "adapters",
		Doc: "on the admitted path entry.Exit is reached on every path to the function end, and a `defer entry.Exit()` precedes every handler invocation on all paths (so the entry is exited when the handler panics or returns early)",
		Run: func(c *Ctx) {
			for _, s := range collectEntrySites(c.Adapters) {
				info := s.pkg.TypesInfo
				pos := s.prog.nodePos(s.call)
				var starts []nodeRef
				if s.blockObj == nil {
					if r, ok := findNode(s.g, s.assign); ok {
						starts = []nodeRef{{r.b, r.i + 1}}
					}
				} else {
					sp := s.split()
					if sp.untested {
						continue
					}
					for _, b := range sp.admitted {
						starts = append(starts, nodeRef{b, 0})
					}
				}
				if s.entryObj == nil {
					c.addAt(Violated, s.key(), pos, "entry discarded: it can never be exited")
					continue
				}
				bad := ""
				for _, st := range starts {
					// path-sensitive walk: state = exit seen (deferred)
					type state struct {
						b   *cfg.Block
						def bool
						any bool
					}
					seen := map[state]bool{}
					var rec func(b *cfg.Block, i int, def, any bool)
					rec = func(b *cfg.Block, i int, def, any bool) {
						for ; i < len(b.Nodes); i++ {
							n := b.Nodes[i]
							if ex, d := nodeIsExit(info, n, s.entryObj); ex {
								any = true
								if d {
									def = true
								}
								continue
							}
							if hs := s.handlerCalls(n); len(hs) > 0 && !def && bad == "" {
								bad = "handler invoked at " + s.prog.nodePos(hs[0]) + " with no `defer entry.Exit()` on some path before it: a panic or early return in the handler leaks the entry (concurrency never released)"
							}
						}
						if len(b.Succs) == 0 {
							if !any && bad == "" {
								bad = "a path from the admitted branch reaches the function end at " + s.prog.nodePos(lastNodeOr(b, s.fnNode)) + " without entry.Exit"
							}
							return
						}
						for _, x := range b.Succs {
							k := state{x, def, any}
							if !seen[k] {
								seen[k] = true
								rec(x, 0, def, any)
							}
						}
					}
					rec(st.b, st.i, false, false)
				}
				if bad != "" {
					c.addAt(Violated, s.key(), pos, "%s", bad)
				} else {
					c.addAt(Holds, s.key(), pos, "Exit on every admitted path; deferred before every handler invocation")
				}
			}
		},
	})

	// adapters that wrap nothing: named exceptions with a reason
	noHandler := map[string]string{
		"pkg/adapters/gear.SentinelMiddleware$1": "gear middleware has no next(): the framework continues the chain after the middleware returns",
		"pkg/adapters/micro.NewStreamWrapper$1":  "stream wrapper returns the stream; there is no handler to invoke",
	}

	register(&Rule{
		ID: "adapter.handler-once", Props: []string{"C19"}, Floor: 21, Needs: "adapters",
		Doc: "on every admitted path the wrapped handler is invoked exactly once and never inside a loop",
		Run: func(c *Ctx) {
			for _, s := range collectEntrySites(c.Adapters) {
				pos := s.prog.nodePos(s.call)
				var starts []nodeRef
				if s.blockObj == nil {
					if r, ok := findNode(s.g, s.assign); ok {
						starts = []nodeRef{{r.b, r.i + 1}}
					}
				} else {
					sp := s.split()
					if sp.untested {
						continue
					}
					for _, b := range sp.admitted {
						starts = append(starts, nodeRef{b, 0})
					}
				}
				fk := s.pkgKey() + "." + s.fnName
				minC, maxC, loop := 1<<30, 0, false
				for _, st := range starts {
					onPath := map[*cfg.Block]bool{}
					var rec func(b *cfg.Block, i int, n int)
					rec = func(b *cfg.Block, i int, n int) {
						if onPath[b] {
							// cycle: a handler call inside it is a repeated invocation
							for _, nd := range b.Nodes {
								if len(s.handlerCalls(nd)) > 0 {
									loop = true
								}
							}
							return
						}
						onPath[b] = true
						defer func() { onPath[b] = false }()
						for ; i < len(b.Nodes); i++ {
							n += len(s.handlerCalls(b.Nodes[i]))
						}
						if len(b.Succs) == 0 {
							if n < minC {
								minC = n
							}
							if n > maxC {
								maxC = n
							}
							return
						}
						for _, x := range b.Succs {
							rec(x, 0, n)
						}
					}
					rec(st.b, st.i, 0)
				}
				if why, ok := noHandler[fk]; ok && maxC == 0 {
					c.addAt(Holds, s.key()+" / exception", pos, "%s", why)
					continue
				}
				switch {
				case loop:
					c.addAt(Violated, s.key(), pos, "handler invocation inside a loop on the admitted path")
				case minC == 1 && maxC == 1:
					c.addAt(Holds, s.key(), pos, "exactly one handler invocation on every admitted path")
				default:
					c.addAt(Violated, s.key(), pos, "admitted paths invoke the handler between %d and %d times (want exactly once)", minC, maxC)
				}
			}
		},
	})

	register(&Rule{
		ID: "adapter.errors-traced", Props: []string{"C19"}, Floor: 13, Needs: "adapters",
		Doc: "when the handler invocation yields an error value, every path from it to the function end either passes the nil branch of a test of that error or calls api.TraceError(entry, thatError) (sites using a custom slot chain attribute errors per callee and are out of scope)",
		Run: func(c *Ctx) {
			errT := types.Universe.Lookup("error").Type()
			for _, s := range collectEntrySites(c.Adapters) {
				if s.withChain || s.entryObj == nil {
					continue
				}
				info := s.pkg.TypesInfo
				pos := s.prog.nodePos(s.call)
				// locate handler invocations reachable from this site's admitted branch
				sp0 := s.split()
				if s.blockObj == nil || sp0.untested {
					continue
				}
				admitted := reachableBlocks(sp0.admitted)
				for _, b := range s.g.Blocks {
					if !admitted[b] {
						continue
					}
					for i, n := range b.Nodes {
						for _, h := range s.handlerCalls(n) {
							tv := info.Types[h]
							var errIdx = -1
							nres := 0
							switch t := tv.Type.(type) {
							case *types.Tuple:
								nres = t.Len()
								for k := 0; k < t.Len(); k++ {
									if types.Identical(t.At(k).Type(), errT) {
										errIdx = k
									}
								}
							default:
								if tv.Type != nil && types.Identical(tv.Type, errT) {
									errIdx, nres = 0, 1
								}
							}
							if errIdx < 0 {
								continue // handler yields no error value
							}
							key := s.key() + " / handler-error"
							// the error must be bound to a variable by the statement containing the call
							var errObj types.Object
							if as, ok := n.(*ast.AssignStmt); ok && len(as.Rhs) == 1 && ast.Unparen(as.Rhs[0]) == h && len(as.Lhs) == nres {
								errObj = lhsObj(info, as.Lhs[errIdx])
							}
							if vs, ok := n.(*ast.ValueSpec); ok && len(vs.Values) == 1 && ast.Unparen(vs.Values[0]) == h && len(vs.Names) == nres {
								errObj = info.Defs[vs.Names[errIdx]] // var err error = handler(...)
							}
							if errObj == nil {
								c.addAt(Violated, key, s.prog.nodePos(h), "the handler's error result is not bound to a variable (returned or dropped directly): it is never reported through api.TraceError, so error-based rules never see it")
								continue
							}
							bad := ""
							seen := map[*cfg.Block]bool{}
							var rec func(b *cfg.Block, i int)
							rec = func(b *cfg.Block, i int) {
								for ; i < len(b.Nodes); i++ {
									nd := b.Nodes[i]
									if e, ok := nd.(ast.Expr); ok && i == len(b.Nodes)-1 && len(b.Succs) == 2 {
										if op, ok := nilTest(info, e, errObj); ok {
											// follow only the non-nil branch
											nx := b.Succs[0]
											if op == token.EQL {
												nx = b.Succs[1]
											}
											if !seen[nx] {
												seen[nx] = true
												rec(nx, 0)
											}
											return
										}
									}
									traced := false
									ast.Inspect(nd, func(x ast.Node) bool {
										if cl, ok := x.(*ast.CallExpr); ok && isAPIFunc(info, cl, "TraceError") && len(cl.Args) == 2 {
											if usesObj(info, cl.Args[0], s.entryObj, false) && usesObj(info, cl.Args[1], errObj, false) {
												traced = true
											}
										}
										return !traced
									})
									if traced {
										return
									}
								}
								if len(b.Succs) == 0 {
									if bad == "" {
										bad = "a path from the handler call reaches the function end at " + s.prog.nodePos(lastNodeOr(b, s.fnNode)) + " with a possibly non-nil handler error that was never passed to api.TraceError"
									}
									return
								}
								for _, x := range b.Succs {
									if !seen[x] {
										seen[x] = true
										rec(x, 0)
									}
								}
							}
							rec(b, i+1)
							if bad != "" {
								c.addAt(Violated, key, s.prog.nodePos(h), "%s", bad)
							} else {
								c.addAt(Holds, key, s.prog.nodePos(h), "handler error traced on its non-nil branch before return")
							}
						}
					}
				}
				_ = pos
			}
		},
	})

	register(&Rule{
		ID: "adapter.chain-built-once", Props: []string{"C15"}, Floor: minSites, Needs: "adapters",
		Doc: "no function that calls api.Entry adds slots to the chain returned by api.GlobalSlotChain(): the global chain is shared, unsynchronised, and iterated by every concurrent Entry",
		Run: func(c *Ctx) {
			done := map[ast.Node]bool{}
			for _, s := range collectEntrySites(c.Adapters) {
				info := s.pkg.TypesInfo
				// variables assigned from GlobalSlotChain()
				globals := map[types.Object]bool{}
				ast.Inspect(s.body, func(x ast.Node) bool {
					if as, ok := x.(*ast.AssignStmt); ok && len(as.Rhs) == 1 && len(as.Lhs) == 1 {
						if cl, ok := ast.Unparen(as.Rhs[0]).(*ast.CallExpr); ok && isAPIFunc(info, cl, "GlobalSlotChain") {
							if o := lhsObj(info, as.Lhs[0]); o != nil {
								globals[o] = true
							}
						}
					}
					return true
				})
				bad := ""
				ast.Inspect(s.body, func(x ast.Node) bool {
					cl, ok := x.(*ast.CallExpr)
					if !ok {
						return true
					}
					se, ok := ast.Unparen(cl.Fun).(*ast.SelectorExpr)
					if !ok || !strings.HasPrefix(se.Sel.Name, "Add") || !strings.HasSuffix(se.Sel.Name, "Slot") {
						return true
					}
					recv := ast.Unparen(se.X)
					if id, ok := recv.(*ast.Ident); ok && globals[info.Uses[id]] {
						bad = s.prog.nodePos(cl)
					}
					if c2, ok := recv.(*ast.CallExpr); ok && isAPIFunc(info, c2, "GlobalSlotChain") {
						bad = s.prog.nodePos(cl)
					}
					return true
				})
				key := s.key() + " / global-chain"
				if done[s.fnNode] && bad != "" {
					continue
				}
				if bad != "" {
					done[s.fnNode] = true
					c.addAt(Violated, s.pkgKey()+"."+s.fnName+" / global-chain-mutation", bad, "the request path appends to and re-sorts the shared global slot chain on every call while other goroutines iterate it in SlotChain.Entry (data race; chain grows without bound)")
				} else {
					c.addAt(Holds, key, s.prog.nodePos(s.call), "no mutation of the global slot chain on the request path")
				}
			}
		},
	})
}

func lastNodeOr(b *cfg.Block, def ast.Node) ast.Node {
	if len(b.Nodes) > 0 {
		return b.Nodes[len(b.Nodes)-1]
	}
	return def
}

// closureExitsOnAllPaths: every control-flow path through the function literal's body passes a call of
// entry.Exit before the body ends (normally or by panicking).
func closureExitsOnAllPaths(info *types.Info, fl *ast.FuncLit, entryObj types.Object) bool {
	g := cfg.New(fl.Body, func(c *ast.CallExpr) bool { return !isPanicCall(info, c) })
	if len(g.Blocks) == 0 {
		return false
	}
	hasExit := func(n ast.Node) bool {
		found := false
		ast.Inspect(n, func(y ast.Node) bool {
			if _, ok := y.(*ast.FuncLit); ok {
				return false
			}
			if c, ok := y.(*ast.CallExpr); ok && isExitCall(info, c, entryObj) {
				found = true
			}
			return !found
		})
		return found
	}
	any := false
	for _, b := range g.Blocks {
		for _, n := range b.Nodes {
			if hasExit(n) {
				any = true
			}
		}
	}
	if !any {
		return false
	}
	ok := true
	seen := map[*cfg.Block]bool{}
	var walk func(b *cfg.Block)
	walk = func(b *cfg.Block) {
		if seen[b] || !ok {
			return
		}
		seen[b] = true
		for _, n := range b.Nodes {
			if hasExit(n) {
				return // this path is fine from here on
			}
		}
		if len(b.Succs) == 0 {
			ok = false
			return
		}
		for _, s := range b.Succs {
			walk(s)
		}
	}
	walk(g.Blocks[0])
	return ok
}

// localFallbackAborts reports whether every value assigned to the local `obj` (a variable that holds the block
// fallback hook) is either the adapter's fallback option itself or a function of the package whose body calls
// c.Abort*(...) unconditionally (top-level statement), i.e. the default chosen when no fallback is configured.
func localFallbackAborts(s *entrySite, info *types.Info, obj types.Object, fb map[*types.Var]bool) bool {
	ok := true
	isFb := func(e ast.Expr) bool {
		if se, k := e.(*ast.SelectorExpr); k {
			if sel := info.Selections[se]; sel != nil {
				if v, k := sel.Obj().(*types.Var); k && fb[v] {
					return true
				}
			}
		}
		return false
	}
	aborts := func(body *ast.BlockStmt) bool {
		if body == nil {
			return false
		}
		for _, st := range body.List {
			if es, k := st.(*ast.ExprStmt); k {
				if call, k := es.X.(*ast.CallExpr); k {
					if se, k := call.Fun.(*ast.SelectorExpr); k {
						if sel := info.Selections[se]; sel != nil {
							if fn, k := sel.Obj().(*types.Func); k && strings.HasPrefix(fn.Name(), "Abort") {
								return true
							}
						}
					}
				}
			}
		}
		return false
	}
	check := func(rhs ast.Expr) {
		rhs = ast.Unparen(rhs)
		switch {
		case isFb(rhs):
		default:
			switch r := rhs.(type) {
			case *ast.FuncLit:
				if !aborts(r.Body) {
					ok = false
				}
			case *ast.Ident:
				fn, k := info.Uses[r].(*types.Func)
				if !k {
					ok = false
					return
				}
				var decl *ast.FuncDecl
				for _, f := range s.pkg.Syntax {
					for _, d := range f.Decls {
						if fd, k := d.(*ast.FuncDecl); k && info.Defs[fd.Name] == fn {
							decl = fd
						}
					}
				}
				if decl == nil || !aborts(decl.Body) {
					ok = false
				}
			default:
				ok = false
			}
		}
	}
	ast.Inspect(s.encl[0], func(x ast.Node) bool {
		switch a := x.(type) {
		case *ast.AssignStmt:
			if len(a.Lhs) == len(a.Rhs) {
				for i, l := range a.Lhs {
					if id, k := l.(*ast.Ident); k && info.ObjectOf(id) == obj {
						check(a.Rhs[i])
					}
				}
			}
		case *ast.ValueSpec:
			if len(a.Names) == len(a.Values) {
				for i, id := range a.Names {
					if info.ObjectOf(id) == obj {
						check(a.Values[i])
					}
				}
			}
		}
		return true
	})
	return ok
}
