package main

import (
	"encoding/json"
	"fmt"
	"os"
	"os/exec"
	"path/filepath"
	"sort"
	"strings"
	"sync"
)

// Self-test by seeded variants (thorough tier). Every variant is a one-spot source edit applied through the
// go/packages overlay (nothing is written to /repo); the rules of the property are re-run on the variant in a child
// process and the set of violated obligations is compared with the unmodified tree's. Breaking variants must add a
// violation; benign (behaviour-preserving) variants must add none and must not make a rule undecided.
// A variant whose `old` text no longer occurs exactly once in the file is reported `inapplicable`.
// Self-test results are recorded in the evidence and never change the exit code.

type variant struct {
	ID     string   `json:"id"`
	Props  []string `json:"props"`
	File   string   `json:"file"` // relative to the repository root
	Old    string   `json:"old"`
	New    string   `json:"new"`
	Expect string   `json:"expect"` // "fire" | "silent"
	Rule   string   `json:"rule,omitempty"`
	Why    string   `json:"why"`
	Patch  string   `json:"patch,omitempty"` // unified diff (path relative to /verif) applied in memory instead of Old/New
}

type childSpec struct {
	Prop    string  `json:"prop"`
	Variant variant `json:"variant"`
	Repo    string  `json:"repo"`
	Verif   string  `json:"verif"`
}

type childResult struct {
	Applicable bool     `json:"applicable"`
	Violated   []string `json:"violated"` // rule|key
	Undecided  []string `json:"undecided"`
	Errors     []string `json:"errors"`
	Regress    []string `json:"regress"` // rules whose obligation count fell below the floor on the variant
}

func variantsFor(prop string) []variant {
	out := seededVariants(prop)
	out = append(out, benignVariants(prop)...)
	for _, v := range allVariants {
		for _, p := range v.Props {
			if p == prop {
				out = append(out, v)
			}
		}
	}
	return out
}

func applyVariant(v variant) (string, []byte, bool) {
	path := filepath.Join(repoRoot, v.File)
	b, err := os.ReadFile(path)
	if err != nil {
		return path, nil, false
	}
	if v.ID == "baseline" {
		return path, b, true
	}
	s := string(b)
	if strings.Count(s, v.Old) != 1 {
		return path, nil, false
	}
	return path, []byte(strings.Replace(s, v.Old, v.New, 1)), true
}

// runVariantChild is the child process: load with overlay, run the property's rules, print violated keys.
func runVariantChild(spec string) int {
	var cs childSpec
	if err := json.Unmarshal([]byte(spec), &cs); err != nil {
		fmt.Fprintln(os.Stderr, err)
		return 2
	}
	repoRoot, verifRoot = cs.Repo, cs.Verif
	res := childResult{}
	var overlay map[string][]byte
	if cs.Variant.Patch != "" {
		var ok bool
		overlay, ok = applyPatchVariant(cs.Variant)
		if !ok {
			out, _ := json.Marshal(res)
			fmt.Println(string(out))
			return 0
		}
	} else {
		path, content, ok := applyVariant(cs.Variant)
		if !ok {
			out, _ := json.Marshal(res)
			fmt.Println(string(out))
			return 0
		}
		overlay = map[string][]byte{path: content}
	}
	res.Applicable = true
	rules := rulesFor(cs.Prop)
	wantMain, wantAd := needs(rules)
	var P *Program
	var adapters []*Program
	var err error
	if wantMain {
		P, err = LoadProgram(repoRoot, true, overlay)
		if err != nil {
			res.Errors = append(res.Errors, err.Error())
		} else if P.TypeErrors > 0 {
			res.Errors = append(res.Errors, fmt.Sprintf("variant does not type-check (%d errors)", P.TypeErrors))
		}
	}
	if wantAd && len(res.Errors) == 0 {
		adapters, err = LoadAdaptersOverlay(repoRoot, overlay)
		if err != nil {
			res.Errors = append(res.Errors, err.Error())
		}
	}
	if len(res.Errors) == 0 {
		obls, _, regress, crashes := runRules(rules, P, adapters, "quick")
		for _, o := range obls {
			switch o.Verdict {
			case Violated:
				res.Violated = append(res.Violated, o.Rule+"|"+o.Key)
			case Undecided:
				res.Undecided = append(res.Undecided, o.Rule+"|"+o.Key)
			}
		}
		res.Regress = append(res.Regress, regress...)
		for _, c := range crashes {
			res.Errors = append(res.Errors, strings.SplitN(c, "\n", 2)[0])
		}
	}
	out, _ := json.Marshal(res)
	fmt.Println(string(out))
	return 0
}

// selfTestImpl runs in the parent (thorough tier).
func runSelfTests(prop string, rules []*Rule) map[string]interface{} {
	vs := variantsFor(prop)
	summary := map[string]interface{}{}
	if len(vs) == 0 {
		summary["variants"] = 0
		return summary
	}
	// baseline violated set of the unmodified tree: run a child without modification (empty variant = inapplicable),
	// so take it from a dedicated baseline child that applies a no-op overlay
	self, err := os.Executable()
	if err != nil {
		summary["error"] = err.Error()
		return summary
	}
	run := func(v variant) (childResult, error) {
		spec, _ := json.Marshal(childSpec{Prop: prop, Variant: v, Repo: repoRoot, Verif: verifRoot})
		cmd := exec.Command(self, "-selftest-variant", string(spec))
		cmd.Env = goEnv()
		out, err := cmd.Output()
		var r childResult
		if err != nil {
			return r, fmt.Errorf("child failed: %v", err)
		}
		lines := strings.Split(strings.TrimSpace(string(out)), "\n")
		if e := json.Unmarshal([]byte(lines[len(lines)-1]), &r); e != nil {
			return r, e
		}
		return r, nil
	}
	baseFile := "api/api.go"
	for _, v := range vs {
		if v.File != "" {
			baseFile = v.File
			break
		}
	}
	base, err := run(variant{ID: "baseline", File: baseFile, Old: "package ", New: "package "})
	baseSet := map[string]bool{}
	if err == nil {
		// "package " occurs once at least; if not exactly once the baseline is inapplicable: fall back to empty set
		for _, k := range base.Violated {
			baseSet[k] = true
		}
	}
	type outcome struct {
		ID       string   `json:"id"`
		Expect   string   `json:"expect"`
		Result   string   `json:"result"` // detected | missed | silent | false-alarm | inapplicable | error
		NewViol  []string `json:"new_violations,omitempty"`
		Why      string   `json:"why"`
		WantRule string   `json:"want_rule,omitempty"`
	}
	outs := make([]outcome, len(vs))
	sem := make(chan struct{}, 4)
	var wg sync.WaitGroup
	for i, v := range vs {
		wg.Add(1)
		go func(i int, v variant) {
			defer wg.Done()
			sem <- struct{}{}
			defer func() { <-sem }()
			o := outcome{ID: v.ID, Expect: v.Expect, Why: v.Why, WantRule: v.Rule}
			r, err := run(v)
			switch {
			case err != nil:
				o.Result = "error: " + err.Error()
			case !r.Applicable:
				o.Result = "inapplicable"
			case len(r.Errors) > 0:
				o.Result = "error: " + strings.Join(r.Errors, "; ")
			default:
				for _, k := range r.Violated {
					if !baseSet[k] {
						o.NewViol = append(o.NewViol, k)
					}
				}
				sort.Strings(o.NewViol)
				if v.Expect == "known-miss" {
					o.Result = "known-miss"
					if len(o.NewViol) > 0 {
						o.Result = "detected"
					}
				} else if v.Expect == "fire" {
					o.Result = "missed"
					for _, k := range o.NewViol {
						if v.Rule == "" || strings.HasPrefix(k, v.Rule+"|") {
							o.Result = "detected"
						}
					}
				} else {
					o.Result = "silent"
					if len(o.NewViol) > 0 || len(r.Undecided) > 0 || len(r.Regress) > 0 {
						o.Result = "false-alarm"
						o.NewViol = append(o.NewViol, r.Undecided...)
						o.NewViol = append(o.NewViol, r.Regress...)
					}
				}
			}
			outs[i] = o
		}(i, v)
	}
	wg.Wait()
	nb, db, ns, ss, inap, errs, km := 0, 0, 0, 0, 0, 0, 0
	for _, o := range outs {
		switch {
		case o.Expect == "known-miss":
			km++
		case o.Result == "inapplicable":
			inap++
		case strings.HasPrefix(o.Result, "error"):
			errs++
		case o.Expect == "fire":
			nb++
			if o.Result == "detected" {
				db++
			}
		default:
			ns++
			if o.Result == "silent" {
				ss++
			}
		}
	}
	summary["variants"] = len(vs)
	summary["breaking"] = fmt.Sprintf("%d/%d detected", db, nb)
	summary["benign"] = fmt.Sprintf("%d/%d silent", ss, ns)
	summary["known_misses"] = km
	summary["inapplicable"] = inap
	summary["errors"] = errs
	summary["outcomes"] = outs
	fmt.Printf("selftest %s: breaking %d/%d detected, benign %d/%d silent, documented misses %d, inapplicable %d, errors %d\n", prop, db, nb, ss, ns, km, inap, errs)
	for _, o := range outs {
		if o.Result == "missed" || o.Result == "known-miss" || o.Result == "false-alarm" || strings.HasPrefix(o.Result, "error") || o.Result == "inapplicable" {
			fmt.Printf("  selftest %-12s %s (%s) %v\n", o.Result, o.ID, o.Why, o.NewViol)
		}
	}
	return summary
}
