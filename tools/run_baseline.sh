#!/bin/bash
# Runs the pinned suite (command from /root/.vp/BASELINE.json) against /repo and compares with stable_pass.
# usage: tools/run_baseline.sh [module ...]   (default: all modules in /w/out/gomods.txt)
export GOFLAGS=-mod=mod GOPROXY=off GOSUMDB=off GOTOOLCHAIN=local
OUT=$(mktemp /tmp/baseline.XXXXXX.json)
MODS="$@"
[ -z "$MODS" ] && MODS=$(cat /w/out/gomods.txt)
for m in $MODS; do
  (cd /repo/$m && go test -mod=mod -json -vet=off -count=1 -timeout 25m ./... ) >> $OUT 2>/dev/null
done
python3 - "$OUT" $MODS <<'PY'
import json,sys
out=sys.argv[1]; mods=sys.argv[2:]
b=json.load(open('/root/.vp/BASELINE.json'))
passed=set(); failed=set()
for l in open(out):
    try: e=json.loads(l)
    except Exception: continue
    if e.get('Test') and e.get('Action') in('pass','fail'):
        k=e['Package']+'::'+e['Test']
        (passed if e['Action']=='pass' else failed).add(k)
want=set(b['stable_pass'])
if len(mods)<17:
    # restrict to packages seen
    pk=set(k.split('::')[0] for k in passed|failed)
    want=set(k for k in want if k.split('::')[0] in pk)
missing=sorted(want-passed)
print(f"baseline tests expected={len(want)} passed_of_expected={len(want&passed)} failed_total={len(failed)}")
for m in missing[:40]: print("  NOT-PASSING", m)
af=set(b['always_fail'])
for f in sorted(failed-af)[:40]: print("  FAILED", f)
sys.exit(1 if missing else 0)
PY
rc=$?
rm -f $OUT
exit $rc
