#!/bin/bash
# Independently re-verifies a stored seeded change: in a fresh scratch worktree of /repo HEAD (outside /repo and /verif,
# removed afterwards) the demonstration must pass without the patch and fail with it, the tree must build with the
# patch, and the existing tests of the touched packages must still pass with it.
# usage: tools/verify_seeded.sh <id> [...]      prints one line per id; details in /tmp/verify_seeded_<id>.log
export GOFLAGS=-mod=mod GOPROXY=off GOSUMDB=off GOTOOLCHAIN=local GOWORK=off
for id in "$@"; do
  S=/verif/seeded/$id
  W=$(mktemp -d /tmp/vseed.XXXXXX)/w
  LOG=/tmp/verify_seeded_$id.log
  git -C /repo worktree prune
  git -C /repo worktree add -q --detach $W HEAD || { echo "$id: cannot create worktree"; continue; }
  (
    cd $W
    demos=$(cd $S/demo && find . -type f -name '*.go' | sed 's#^\./##')
    for d in $demos; do mkdir -p $W/$(dirname $d); cp $S/demo/$d $W/$d; done
    pkgs=$(for d in $demos; do dirname $d; done | sort -u)
    modof() { case $1 in pkg/adapters/*|pkg/datasource/*) echo $1 | cut -d/ -f1-3;; *) echo .;; esac; }
    run_demo() {
      rc=0
      for p in $pkgs; do
        m=$(modof $p); rel=${p#$m}; rel=${rel#/}; [ "$m" = . ] && rel=$p; [ -z "$rel" ] && rel=.
        (cd $W/$m && go test -count=1 -run 'Seed|ZZ|zz' ./$rel 2>&1 | grep -v '^{' | tail -12; exit ${PIPESTATUS[0]}) || rc=1
      done
      return $rc
    }
    echo "== demo WITHOUT patch"; run_demo; echo "rc_without=$?"
    git apply $S/patch.diff || { echo "PATCH DOES NOT APPLY"; exit 3; }
    echo "== build"; go build ./... && echo build_ok
    echo "== demo WITH patch"; run_demo; echo "rc_with=$?"
    for d in $demos; do mv $W/$d $W/$d.off; done
    echo "== existing tests of touched packages"
    for p in $(grep '^+++ b/' $S/patch.diff | sed 's#+++ b/##' | xargs -n1 dirname | sort -u); do
      m=$(modof $p); rel=${p#$m}; rel=${rel#/}; [ "$m" = . ] && rel=$p; [ -z "$rel" ] && rel=.
      (cd $W/$m && go test -count=1 ./$rel 2>&1 | grep -E '^(ok|FAIL|---)')
    done
  ) > $LOG 2>&1
  git -C /repo worktree remove --force $W; rm -rf $(dirname $W); git -C /repo worktree prune
  fails=$(grep -E '^--- FAIL' $LOG | grep -v -i 'seed' | grep -v TestHotSpotParamRuleJsonArrayParser | tr '\n' ' ')
  echo "$id: $(grep -E 'rc_without|build_ok|rc_with|DOES NOT' $LOG | tr '\n' ' ') existing_test_failures=[${fails}]"
done
