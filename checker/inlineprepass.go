package main

// Normalisation pre-pass ("virtual inlining").
//
// The rules are mostly intra-procedural: they look at one anchored function (SlotChain.Entry, currentBucketOfTime,
// the builders, ...). An "extract function" refactoring moves the construct a rule looks at into a helper the rule
// never heard of. Before the program is analysed, calls to helper functions that did NOT exist when the rules were
// written are therefore inlined at source level - in memory, through the go/packages overlay; /repo is not written.
//
// What is inlined: a static call whose callee
//   - is declared (with a body) in the same package, is unexported and not generic,
//   - is not listed in known_funcs.txt (the functions of the reference tree: every one of them may be an anchor or part
//     of a shape a rule was written against, so they keep their identity),
//   - is not on a call cycle, does not defer / recover, is never used as a value,
// and whose call stands in a statement context this file knows how to rewrite (expression statement, assignment /
// definition, return, the condition or init of an if, the tag of a switch, or - hoisted into a temporary - a
// sub-expression of one of these that is not behind && / || or inside a function literal).
// The callee body is copied; parameters, results and the receiver become block-local variables with fresh names;
// every `return` becomes an assignment to the result variables plus `break` out of a labelled `switch { default: }`
// that wraps the body. Each rewritten package is type-checked again; a rewrite that does not type-check is dropped.
//
// Positions: obligations are reported against the original files; lines of inlined text map back to the original
// line of the statement they replace (lineMaps).

import (
	"bytes"
	"crypto/sha256"
	_ "embed"
	"encoding/hex"
	"encoding/json"
	"fmt"
	"go/ast"
	"go/parser"
	"go/printer"
	"go/token"
	"go/types"
	"os"
	"path/filepath"
	"reflect"
	"sort"
	"strconv"
	"strings"
	"sync"
	"time"

	"golang.org/x/tools/go/packages"
)

//go:embed known_funcs.txt
var knownFuncsTxt string

var knownFuncs map[string]bool

// alwaysInline: helpers of the reference tree that are inlined as well, so that the rules see one canonical shape
// (the caller with the helper's body in it) whether or not a later change renames, splits or merges the helper.
var alwaysInline = []string{
	"core/hotspot|baseTrafficShapingController.extractArgs",
	"core/hotspot|baseTrafficShapingController.extractAttachmentArgs",
	"core/system|checkBbrSimple",
}

func loadKnownFuncs() map[string]bool {
	if knownFuncs == nil {
		knownFuncs = map[string]bool{}
		for _, l := range strings.Split(knownFuncsTxt, "\n") {
			l = strings.TrimSpace(l)
			if l != "" && !strings.HasPrefix(l, "#") {
				knownFuncs[l] = true
			}
		}
		for _, k := range alwaysInline {
			delete(knownFuncs, k)
		}
	}
	return knownFuncs
}

// funcKeyOf: "<package directory relative to the repository root>|<Recv.>Name"
func funcKeyOf(pkgRel string, fd *ast.FuncDecl) string {
	name := fd.Name.Name
	if fd.Recv != nil && len(fd.Recv.List) > 0 {
		t := fd.Recv.List[0].Type
		for {
			switch x := t.(type) {
			case *ast.StarExpr:
				t = x.X
				continue
			case *ast.ParenExpr:
				t = x.X
				continue
			case *ast.IndexExpr:
				t = x.X
				continue
			}
			break
		}
		if id, ok := t.(*ast.Ident); ok {
			name = id.Name + "." + name
		}
	}
	return pkgRel + "|" + name
}

// lineMaps: absolute file name -> for every line of the inlined content (1-based index) the line of the original file.
var lineMaps = map[string][]int{}
var lineMapsMu sync.Mutex

func mapLine(file string, line int) int {
	lineMapsMu.Lock()
	defer lineMapsMu.Unlock()
	if m, ok := lineMaps[file]; ok && line >= 1 && line < len(m) && m[line] > 0 {
		return m[line]
	}
	return line
}

type inlineStats struct {
	Inlined, Skipped, Packages int
}

var lastInlineStats inlineStats // of the last module processed (diagnostics only)

const inlineDisabledEnv = "SG_NO_INLINE"

// inlineHelpers returns an overlay (superset of the given one) in which calls to new helper functions are inlined.
// modRel is the module directory relative to the repository root ("" for the main module).
func inlineHelpers(dir string, overlay map[string][]byte, modRel string) (map[string][]byte, error) {
	if os.Getenv(inlineDisabledEnv) != "" {
		return overlay, nil
	}
	key := inlineCacheKey(dir, overlay)
	if key != "" {
		if ov, ok := readInlineCache(key); ok {
			out := map[string][]byte{}
			for k, v := range overlay {
				out[k] = v
			}
			for k, v := range ov {
				computeLineMap(k, originalContent(k, overlay), v)
				out[k] = v
			}
			return out, nil
		}
	}
	cfg := &packages.Config{Mode: packages.LoadSyntax, Dir: dir, Env: goEnv(), Overlay: overlay, Tests: false}
	pkgs, err := packages.Load(cfg, "./...")
	if err != nil {
		return overlay, err
	}
	known := loadKnownFuncs()
	result := map[string][]byte{}
	stats := inlineStats{}
	for _, pk := range pkgs {
		if len(pk.Errors) > 0 || pk.Types == nil || pk.TypesInfo == nil || len(pk.Syntax) == 0 || len(pk.CompiledGoFiles) == 0 {
			continue
		}
		pdir := filepath.Dir(pk.CompiledGoFiles[0])
		rel, err := filepath.Rel(dir, pdir)
		if err != nil || strings.HasPrefix(rel, "..") {
			continue
		}
		pkgRel := filepath.ToSlash(filepath.Join(modRel, rel))
		anyNew := false
		for _, k := range alwaysInline {
			if strings.HasPrefix(k, pkgRel+"|") {
				anyNew = true
			}
		}
		for _, f := range pk.Syntax {
			for _, d := range f.Decls {
				if fd, ok := d.(*ast.FuncDecl); ok && fd.Body != nil && !ast.IsExported(fd.Name.Name) && !known[funcKeyOf(pkgRel, fd)] {
					anyNew = true
				}
			}
		}
		if !anyNew {
			continue
		}
		t0 := time.Now()
		before := stats
		changed := inlinePackage(pk, pkgRel, overlay, known, &stats)
		if os.Getenv("SG_INLINE_DEBUG") != "" {
			fmt.Fprintf(os.Stderr, "INLINE-PREPASS %s: inlined %d skipped %d in %.1fs\n", pkgRel, stats.Inlined-before.Inlined, stats.Skipped-before.Skipped, time.Since(t0).Seconds())
		}
		for f, c := range changed {
			result[f] = c
		}
		if len(changed) > 0 {
			stats.Packages++
		}
	}
	lastInlineStats = stats
	out := map[string][]byte{}
	for k, v := range overlay {
		out[k] = v
	}
	for k, v := range result {
		computeLineMap(k, originalContent(k, overlay), v)
		out[k] = v
	}
	if key != "" {
		writeInlineCache(key, result)
	}
	return out, nil
}

func originalContent(file string, overlay map[string][]byte) []byte {
	if b, ok := overlay[file]; ok {
		return b
	}
	b, _ := os.ReadFile(file)
	return b
}

type mapImporter map[string]*types.Package

func (m mapImporter) Import(path string) (*types.Package, error) {
	if p, ok := m[path]; ok {
		return p, nil
	}
	return nil, fmt.Errorf("package %s not loaded", path)
}

type pkgFile struct {
	name    string
	content []byte
	frozen  bool // has //go: directives, build constraints or cgo: never rewritten
}

func inlinePackage(pk *packages.Package, pkgRel string, overlay map[string][]byte, known map[string]bool, stats *inlineStats) map[string][]byte {
	imp := mapImporter{}
	seen := map[*packages.Package]bool{}
	var addImports func(p *packages.Package)
	addImports = func(p *packages.Package) {
		if seen[p] {
			return
		}
		seen[p] = true
		for path, ip := range p.Imports {
			if ip.Types != nil {
				imp[path] = ip.Types
			}
			addImports(ip)
		}
	}
	addImports(pk)

	var files []*pkgFile
	for _, fn := range pk.CompiledGoFiles {
		if !strings.HasSuffix(fn, ".go") {
			return nil
		}
		c := originalContent(fn, overlay)
		fz := bytes.Contains(c, []byte("\n//go:")) || bytes.HasPrefix(c, []byte("//go:")) || bytes.Contains(c, []byte("// +build")) || bytes.Contains(c, []byte("import \"C\""))
		files = append(files, &pkgFile{name: fn, content: c, frozen: fz})
	}
	changed := map[string]bool{}
	failedSite := map[string]bool{}
	counter := 0
	for round := 0; round < 10; round++ {
		fset := token.NewFileSet()
		var asts []*ast.File
		for _, fs := range files {
			mode := parser.SkipObjectResolution
			if fs.frozen {
				mode |= parser.ParseComments
			}
			f, err := parser.ParseFile(fset, fs.name, fs.content, mode)
			if err != nil {
				return nil
			}
			asts = append(asts, f)
		}
		info := &types.Info{
			Types: map[ast.Expr]types.TypeAndValue{}, Defs: map[*ast.Ident]types.Object{}, Uses: map[*ast.Ident]types.Object{},
			Implicits: map[ast.Node]types.Object{}, Selections: map[*ast.SelectorExpr]*types.Selection{}, Scopes: map[ast.Node]*types.Scope{},
		}
		terr := 0
		conf := types.Config{Importer: imp, Error: func(error) { terr++ }}
		tpkg, _ := conf.Check(pk.PkgPath, fset, asts, info)
		if terr > 0 || tpkg == nil {
			return nil
		}
		il := &inliner{fset: fset, info: info, pkg: tpkg, pkgRel: pkgRel, known: known, decls: map[*types.Func]*ast.FuncDecl{}, failed: failedSite, counter: &counter}
		il.prepare(asts)
		any := false
		for i, f := range asts {
			if files[i].frozen {
				continue
			}
			il.doneKeys = nil
			n := il.rewriteFile(f)
			if n == 0 {
				continue
			}
			var buf bytes.Buffer
			if err := (&printer.Config{Mode: printer.UseSpaces | printer.TabIndent, Tabwidth: 8}).Fprint(&buf, fset, f); err != nil {
				for _, k := range il.doneKeys {
					failedSite[k] = true
				}
				any = true
				continue
			}
			prev := files[i].content
			files[i].content = buf.Bytes()
			if !packageTypeChecks(pk.PkgPath, files, imp) {
				pruneUnusedImports(pk.PkgPath, files, i, imp)
			}
			if !packageTypeChecks(pk.PkgPath, files, imp) {
				files[i].content = prev
				for _, k := range il.doneKeys {
					failedSite[k] = true
				}
				stats.Skipped += n
				any = true // try again without them
				continue
			}
			changed[files[i].name] = true
			stats.Inlined += n
			any = true
		}
		if !any {
			break
		}
	}
	// helpers that have no caller left are removed, so that rules which enumerate "every function that does X" do not
	// see the construct twice (once inlined, once in the now dead helper)
	if len(changed) > 0 {
		removeDeadHelpers(pk.PkgPath, pkgRel, files, imp, known, changed)
	}
	out := map[string][]byte{}
	for _, fs := range files {
		if changed[fs.name] {
			out[fs.name] = fs.content
		}
	}
	return out
}

func removeDeadHelpers(path, pkgRel string, files []*pkgFile, imp types.Importer, known map[string]bool, changed map[string]bool) {
	for iter := 0; iter < 4; iter++ {
		fset := token.NewFileSet()
		var asts []*ast.File
		for _, fs := range files {
			f, err := parser.ParseFile(fset, fs.name, fs.content, parser.SkipObjectResolution)
			if err != nil {
				return
			}
			asts = append(asts, f)
		}
		info := &types.Info{Defs: map[*ast.Ident]types.Object{}, Uses: map[*ast.Ident]types.Object{}}
		terr := 0
		conf := types.Config{Importer: imp, Error: func(error) { terr++ }}
		conf.Check(path, fset, asts, info)
		if terr > 0 {
			return
		}
		used := map[types.Object]bool{}
		for _, o := range info.Uses {
			used[o] = true
		}
		removedAny := false
		for i, f := range asts {
			if files[i].frozen {
				continue
			}
			var keep []ast.Decl
			removed := false
			for _, d := range f.Decls {
				if fd, ok := d.(*ast.FuncDecl); ok && fd.Body != nil && !ast.IsExported(fd.Name.Name) && !known[funcKeyOf(pkgRel, fd)] && !strings.HasPrefix(fd.Name.Name, "init") && fd.Name.Name != "main" {
					if obj := info.Defs[fd.Name]; obj != nil && !used[obj] {
						removed = true
						continue
					}
				}
				keep = append(keep, d)
			}
			if !removed {
				continue
			}
			f.Decls = keep
			var buf bytes.Buffer
			if err := (&printer.Config{Mode: printer.UseSpaces | printer.TabIndent, Tabwidth: 8}).Fprint(&buf, fset, f); err != nil {
				continue
			}
			prev := files[i].content
			files[i].content = buf.Bytes()
			if !packageTypeChecks(path, files, imp) {
				pruneUnusedImports(path, files, i, imp)
			}
			if !packageTypeChecks(path, files, imp) {
				files[i].content = prev
				continue
			}
			changed[files[i].name] = true
			removedAny = true
		}
		if !removedAny {
			return
		}
	}
}

func packageTypeChecks(path string, files []*pkgFile, imp types.Importer) bool {
	fset := token.NewFileSet()
	var asts []*ast.File
	for _, f := range files {
		a, err := parser.ParseFile(fset, f.name, f.content, parser.SkipObjectResolution)
		if err != nil {
			return false
		}
		asts = append(asts, a)
	}
	terr := 0
	conf := types.Config{Importer: imp, Error: func(e error) {
		terr++
		if os.Getenv("SG_INLINE_DEBUG") != "" {
			fmt.Fprintf(os.Stderr, "INLINE-PREPASS type error after rewrite: %v\n", e)
		}
	}}
	conf.Check(path, fset, asts, nil)
	return terr == 0
}

// ------------------------------------------------------------------------------------------------ the inliner

type inliner struct {
	fset     *token.FileSet
	info     *types.Info
	pkg      *types.Package
	pkgRel   string
	known    map[string]bool
	decls    map[*types.Func]*ast.FuncDecl
	declFile map[*types.Func]*ast.File
	cand     map[*types.Func]bool
	failed   map[string]bool
	counter  *int
	doneKeys []string
	touched  map[*ast.FuncDecl]bool // declarations rewritten in the current round
	curFile  *ast.File
	curFunc  *ast.FuncDecl
	siteOrd  map[string]int
}

func (il *inliner) calleeOf(call *ast.CallExpr) *types.Func {
	var id *ast.Ident
	switch fun := call.Fun.(type) {
	case *ast.Ident:
		id = fun
	case *ast.SelectorExpr:
		id = fun.Sel
	}
	if id == nil {
		return nil
	}
	fn, _ := il.info.Uses[id].(*types.Func)
	return fn
}

func (il *inliner) prepare(files []*ast.File) {
	il.declFile = map[*types.Func]*ast.File{}
	for _, f := range files {
		for _, d := range f.Decls {
			if fd, ok := d.(*ast.FuncDecl); ok && fd.Body != nil {
				if fn, ok := il.info.Defs[fd.Name].(*types.Func); ok {
					il.decls[fn] = fd
					il.declFile[fn] = f
				}
			}
		}
	}
	callFun := map[*ast.Ident]bool{}
	for _, f := range files {
		ast.Inspect(f, func(n ast.Node) bool {
			if call, ok := n.(*ast.CallExpr); ok {
				switch fun := call.Fun.(type) {
				case *ast.Ident:
					callFun[fun] = true
				case *ast.SelectorExpr:
					callFun[fun.Sel] = true
				}
			}
			return true
		})
	}
	asValue := map[*types.Func]bool{}
	for id, obj := range il.info.Uses {
		if fn, ok := obj.(*types.Func); ok && !callFun[id] {
			asValue[fn] = true
		}
	}
	callees := map[*types.Func][]*types.Func{}
	for fn, fd := range il.decls {
		ast.Inspect(fd.Body, func(n ast.Node) bool {
			if call, ok := n.(*ast.CallExpr); ok {
				if g := il.calleeOf(call); g != nil && g.Pkg() == il.pkg {
					callees[fn] = append(callees[fn], g)
				}
			}
			return true
		})
	}
	onCycle := func(fn *types.Func) bool {
		seen := map[*types.Func]bool{}
		var dfs func(g *types.Func) bool
		dfs = func(g *types.Func) bool {
			for _, h := range callees[g] {
				if h == fn {
					return true
				}
				if !seen[h] {
					seen[h] = true
					if dfs(h) {
						return true
					}
				}
			}
			return false
		}
		return dfs(fn)
	}
	ifaceMethods := map[string]bool{}
	for _, name := range il.pkg.Scope().Names() {
		if tn, ok := il.pkg.Scope().Lookup(name).(*types.TypeName); ok {
			if it, ok := tn.Type().Underlying().(*types.Interface); ok {
				for i := 0; i < it.NumMethods(); i++ {
					ifaceMethods[it.Method(i).Name()] = true
				}
			}
		}
	}
	il.cand = map[*types.Func]bool{}
	for fn, fd := range il.decls {
		if asValue[fn] || strings.HasPrefix(fn.Name(), "init") || fn.Name() == "main" || il.known[funcKeyOf(il.pkgRel, fd)] {
			continue
		}
		// a new exported function (IsExited, ThresholdFor, ...) is expanded at its uses inside the package like any other
		// new helper; its declaration stays (removeDeadHelpers only drops unexported ones)
		if fd.Type.TypeParams != nil {
			continue
		}
		sig := fn.Type().(*types.Signature)
		if sig.Recv() != nil {
			if ifaceMethods[fn.Name()] {
				continue
			}
			if n, ok := derefType(sig.Recv().Type()).(*types.Named); ok && n.TypeParams() != nil && n.TypeParams().Len() > 0 {
				continue
			}
		}
		bad := false
		topDefer := map[*ast.DeferStmt]bool{}
		for _, s := range fd.Body.List {
			if d, ok := s.(*ast.DeferStmt); ok && isUnlockCall(d.Call) {
				topDefer[d] = true
			}
		}
		ast.Inspect(fd.Body, func(n ast.Node) bool {
			switch x := n.(type) {
			case *ast.DeferStmt:
				// a mutex release deferred at the top level of the body is run by the expansion before every exit
				// that follows it; any other defer keeps the helper a call
				if !topDefer[x] {
					bad = true
				}
			case *ast.CallExpr:
				if id, ok := x.Fun.(*ast.Ident); ok {
					if b, ok := il.info.Uses[id].(*types.Builtin); ok && b.Name() == "recover" {
						bad = true
					}
				}
			case *ast.BranchStmt:
				if x.Tok == token.GOTO {
					bad = true
				}
			}
			return true
		})
		if bad || onCycle(fn) {
			continue
		}
		if il.fset.Position(fd.End()).Line-il.fset.Position(fd.Pos()).Line > 120 {
			continue
		}
		il.cand[fn] = true
	}
}

func derefType(t types.Type) types.Type {
	if p, ok := t.(*types.Pointer); ok {
		return p.Elem()
	}
	return t
}

func (il *inliner) rewriteFile(f *ast.File) int {
	il.curFile = f
	il.ensureImports(f)
	n := 0
	for _, d := range f.Decls {
		fd, ok := d.(*ast.FuncDecl)
		if !ok || fd.Body == nil {
			continue
		}
		il.curFunc = fd
		il.siteOrd = map[string]int{}
		k := il.rewriteBlock(fd.Body)
		if k > 0 {
			if il.touched == nil {
				il.touched = map[*ast.FuncDecl]bool{}
			}
			il.touched[fd] = true
		}
		n += k
	}
	return n
}

func (il *inliner) rewriteBlock(b *ast.BlockStmt) int {
	if b == nil {
		return 0
	}
	var n int
	b.List, n = il.rewriteList(b.List)
	return n
}

func (il *inliner) rewriteList(list []ast.Stmt) ([]ast.Stmt, int) {
	total := 0
	var out []ast.Stmt
	for _, s := range list {
		repl, n := il.rewriteStmt(s)
		total += n
		out = append(out, repl...)
	}
	return out, total
}

func (il *inliner) rewriteStmt(s ast.Stmt) ([]ast.Stmt, int) {
	if repl, ok := il.inlineIn(s); ok {
		return repl, 1
	}
	n := 0
	switch x := s.(type) {
	case *ast.BlockStmt:
		n += il.rewriteBlock(x)
	case *ast.IfStmt:
		n += il.rewriteBlock(x.Body)
		switch e := x.Else.(type) {
		case *ast.BlockStmt:
			n += il.rewriteBlock(e)
		case *ast.IfStmt:
			repl, k := il.rewriteStmt(e)
			n += k
			x.Else = asElse(repl)
		}
	case *ast.ForStmt:
		n += il.rewriteBlock(x.Body)
	case *ast.RangeStmt:
		n += il.rewriteBlock(x.Body)
	case *ast.SwitchStmt:
		n += il.rewriteClauses(x.Body)
	case *ast.TypeSwitchStmt:
		n += il.rewriteClauses(x.Body)
	case *ast.SelectStmt:
		n += il.rewriteClauses(x.Body)
	case *ast.LabeledStmt:
		switch in := x.Stmt.(type) {
		case *ast.ForStmt:
			n += il.rewriteBlock(in.Body)
		case *ast.RangeStmt:
			n += il.rewriteBlock(in.Body)
		case *ast.SwitchStmt:
			n += il.rewriteClauses(in.Body)
		case *ast.BlockStmt:
			n += il.rewriteBlock(in)
		}
	}
	// function literals in the expressions of this statement (closures, deferred functions, goroutines)
	for _, fl := range funcLitsOfStmt(s) {
		n += il.rewriteBlock(fl.Body)
	}
	return []ast.Stmt{s}, n
}

func asElse(repl []ast.Stmt) ast.Stmt {
	if len(repl) == 1 {
		switch r := repl[0].(type) {
		case *ast.IfStmt:
			return r
		case *ast.BlockStmt:
			return r
		}
	}
	return &ast.BlockStmt{List: repl}
}

func (il *inliner) rewriteClauses(b *ast.BlockStmt) int {
	n := 0
	if b == nil {
		return 0
	}
	for _, c := range b.List {
		switch cc := c.(type) {
		case *ast.CaseClause:
			var k int
			cc.Body, k = il.rewriteList(cc.Body)
			n += k
		case *ast.CommClause:
			var k int
			cc.Body, k = il.rewriteList(cc.Body)
			n += k
		}
	}
	return n
}

// funcLitsOfStmt: function literals that occur in the statement's own expressions (not in nested statement lists).
func funcLitsOfStmt(s ast.Stmt) []*ast.FuncLit {
	var out []*ast.FuncLit
	var exprs []ast.Expr
	switch x := s.(type) {
	case *ast.ExprStmt:
		exprs = []ast.Expr{x.X}
	case *ast.AssignStmt:
		exprs = append(append(exprs, x.Lhs...), x.Rhs...)
	case *ast.ReturnStmt:
		exprs = x.Results
	case *ast.DeferStmt:
		exprs = []ast.Expr{x.Call}
	case *ast.GoStmt:
		exprs = []ast.Expr{x.Call}
	case *ast.IfStmt:
		exprs = []ast.Expr{x.Cond}
		if x.Init != nil {
			out = append(out, funcLitsOfStmt(x.Init)...)
		}
	case *ast.SendStmt:
		exprs = []ast.Expr{x.Chan, x.Value}
	case *ast.DeclStmt:
		if gd, ok := x.Decl.(*ast.GenDecl); ok {
			for _, sp := range gd.Specs {
				if vs, ok := sp.(*ast.ValueSpec); ok {
					exprs = append(exprs, vs.Values...)
				}
			}
		}
	case *ast.SwitchStmt:
		if x.Tag != nil {
			exprs = []ast.Expr{x.Tag}
		}
	case *ast.RangeStmt:
		exprs = []ast.Expr{x.X}
	case *ast.ForStmt:
		if x.Cond != nil {
			exprs = []ast.Expr{x.Cond}
		}
	}
	for _, e := range exprs {
		if e == nil {
			continue
		}
		ast.Inspect(e, func(n ast.Node) bool {
			if fl, ok := n.(*ast.FuncLit); ok {
				out = append(out, fl)
				return false
			}
			return true
		})
	}
	return out
}

func exprsOf(s ast.Stmt) []*ast.Expr {
	switch x := s.(type) {
	case *ast.ExprStmt:
		return []*ast.Expr{&x.X}
	case *ast.AssignStmt:
		var out []*ast.Expr
		for i := range x.Rhs {
			out = append(out, &x.Rhs[i])
		}
		return out
	case *ast.ReturnStmt:
		var out []*ast.Expr
		for i := range x.Results {
			out = append(out, &x.Results[i])
		}
		return out
	case *ast.IfStmt:
		if x.Init == nil {
			return []*ast.Expr{&x.Cond}
		}
	case *ast.SwitchStmt:
		if x.Init == nil && x.Tag != nil {
			return []*ast.Expr{&x.Tag}
		}
	case *ast.SendStmt:
		return []*ast.Expr{&x.Value}
	}
	return nil
}

func (il *inliner) findCall(e *ast.Expr) (slot *ast.Expr, call *ast.CallExpr, fn *types.Func) {
	var walk func(p *ast.Expr, simpleOnly bool) bool
	walk = func(p *ast.Expr, simpleOnly bool) bool {
		switch x := (*p).(type) {
		case nil:
			return false
		case *ast.FuncLit:
			return false
		case *ast.CallExpr:
			if sel, ok := x.Fun.(*ast.SelectorExpr); ok {
				if walk(&sel.X, simpleOnly) {
					return true
				}
			}
			for i := range x.Args {
				if walk(&x.Args[i], simpleOnly) {
					return true
				}
			}
			if g := il.calleeOf(x); g != nil && g.Pkg() == il.pkg && il.cand[g] && il.decls[g] != nil && il.decls[g] != il.curFunc {
				if simpleOnly {
					if _, ok := il.simpleReturn(x, g); !ok {
						return false
					}
				}
				key := il.siteKey(g)
				// a callee whose own body was rewritten in this round holds fresh syntax without type information:
				// it is expanded in the next round, after the package has been parsed and checked again
				if !il.failed[key] && !il.touched[il.decls[g]] {
					slot, call, fn = p, x, g
					il.doneKeys = append(il.doneKeys, key)
					return true
				}
			}
			return false
		case *ast.BinaryExpr:
			if walk(&x.X, simpleOnly) {
				return true
			}
			if x.Op == token.LAND || x.Op == token.LOR {
				// behind a short-circuit operator only a pure single-expression callee may be substituted
				return walk(&x.Y, true)
			}
			return walk(&x.Y, simpleOnly)
		case *ast.UnaryExpr:
			return walk(&x.X, simpleOnly)
		case *ast.ParenExpr:
			return walk(&x.X, simpleOnly)
		case *ast.StarExpr:
			return walk(&x.X, simpleOnly)
		case *ast.SelectorExpr:
			return walk(&x.X, simpleOnly)
		case *ast.IndexExpr:
			return walk(&x.X, simpleOnly) || walk(&x.Index, simpleOnly)
		case *ast.SliceExpr:
			return walk(&x.X, simpleOnly) || walk(&x.Low, simpleOnly) || walk(&x.High, simpleOnly) || walk(&x.Max, simpleOnly)
		case *ast.TypeAssertExpr:
			return walk(&x.X, simpleOnly)
		case *ast.CompositeLit:
			for i := range x.Elts {
				if kv, ok := x.Elts[i].(*ast.KeyValueExpr); ok {
					if walk(&kv.Value, simpleOnly) {
						return true
					}
					continue
				}
				if walk(&x.Elts[i], simpleOnly) {
					return true
				}
			}
			return false
		}
		return false
	}
	walk(e, false)
	return
}

// peekCall reports whether e contains a call findCall would pick, without recording anything.
func (il *inliner) peekCall(e *ast.Expr) (*ast.Expr, *ast.CallExpr, *types.Func) {
	savedOrd := map[string]int{}
	for k, v := range il.siteOrd {
		savedOrd[k] = v
	}
	nKeys := len(il.doneKeys)
	slot, call, fn := il.findCall(e)
	il.siteOrd = savedOrd
	il.doneKeys = il.doneKeys[:nKeys]
	return slot, call, fn
}

func (il *inliner) siteKey(g *types.Func) string {
	name := ""
	if il.curFunc != nil {
		name = funcKeyOf(il.pkgRel, il.curFunc)
	}
	il.siteOrd[g.FullName()]++
	return fmt.Sprintf("%s@%s#%d", g.FullName(), name, il.siteOrd[g.FullName()])
}

func (il *inliner) inlineIn(s ast.Stmt) ([]ast.Stmt, bool) {
	switch x := s.(type) {
	case *ast.IfStmt:
		if x.Init != nil {
			if repl, ok := il.inlineIn(x.Init); ok {
				x.Init = nil
				return []ast.Stmt{&ast.BlockStmt{List: append(repl, x)}}, true
			}
			// nothing to expand in the init statement: `if init; cond {..}` is `{ init; if cond {..} }`, and a call
			// in the condition can then be expanded after the init statement has run
			if slot, call, _ := il.peekCall(&x.Cond); slot != nil && call != nil {
				init := x.Init
				x.Init = nil
				if repl, ok := il.inlineIn(x); ok {
					return []ast.Stmt{&ast.BlockStmt{List: append([]ast.Stmt{init}, repl...)}}, true
				}
				x.Init = init
			}
			return nil, false
		}
	case *ast.SwitchStmt:
		if x.Init != nil {
			if repl, ok := il.inlineIn(x.Init); ok {
				x.Init = nil
				return []ast.Stmt{&ast.BlockStmt{List: append(repl, x)}}, true
			}
			return nil, false
		}
	}
	var slot *ast.Expr
	var call *ast.CallExpr
	var fn *types.Func
	for _, e := range exprsOf(s) {
		slot, call, fn = il.findCall(e)
		if call != nil {
			break
		}
	}
	if call == nil {
		return nil, false
	}
	fail := func() ([]ast.Stmt, bool) {
		il.failed[il.doneKeys[len(il.doneKeys)-1]] = true
		il.doneKeys = il.doneKeys[:len(il.doneKeys)-1]
		return nil, false
	}
	sig := fn.Type().(*types.Signature)
	nres := sig.Results().Len()
	// a callee that is nothing but `return e1, ..., en` with simple arguments: substitute the expressions
	if exprs, ok := il.simpleReturn(call, fn); ok {
		direct := *slot == ast.Expr(call)
		switch x := s.(type) {
		case *ast.AssignStmt:
			if direct && len(x.Rhs) == 1 && slot == &x.Rhs[0] && (len(exprs) == len(x.Lhs) || len(exprs) == 1) {
				x.Rhs = exprs
				return []ast.Stmt{s}, true
			}
		case *ast.ReturnStmt:
			if direct && len(x.Results) == 1 && slot == &x.Results[0] {
				x.Results = exprs
				return []ast.Stmt{s}, true
			}
		}
		if len(exprs) == 1 {
			*slot = &ast.ParenExpr{X: exprs[0]}
			return []ast.Stmt{s}, true
		}
	}
	*il.counter++
	id := *il.counter
	body, resNames, ok := il.expand(call, fn, id)
	if !ok {
		return fail()
	}
	direct := *slot == ast.Expr(call)
	switch x := s.(type) {
	case *ast.ExprStmt:
		if direct && slot == &x.X {
			return []ast.Stmt{body}, true
		}
	case *ast.AssignStmt:
		if direct && len(x.Rhs) == 1 && nres == len(x.Lhs) && nres != 1 {
			var pre []ast.Stmt
			if x.Tok == token.DEFINE {
				for i, l := range x.Lhs {
					lid, ok := l.(*ast.Ident)
					if !ok {
						return fail()
					}
					if lid.Name == "_" {
						continue
					}
					if il.info.Defs[lid] != nil {
						te := il.typeExpr(sig.Results().At(i).Type())
						if te == nil {
							return fail()
						}
						pre = append(pre, varDecl(lid.Name, te, nil), useVar(lid.Name))
					}
				}
			}
			var rhs []ast.Expr
			for _, r := range resNames {
				rhs = append(rhs, ast.NewIdent(r))
			}
			body.List = append(body.List, &ast.AssignStmt{Lhs: x.Lhs, Tok: token.ASSIGN, Rhs: rhs})
			return append(pre, body), true
		}
	case *ast.ReturnStmt:
		if direct && len(x.Results) == 1 && nres != 1 {
			var rs []ast.Expr
			for _, r := range resNames {
				rs = append(rs, ast.NewIdent(r))
			}
			body.List = append(body.List, &ast.ReturnStmt{Results: rs})
			return []ast.Stmt{body}, true
		}
	}
	if nres != 1 {
		return fail()
	}
	tmp := fmt.Sprintf("_il%d_v", id)
	te := il.typeExpr(sig.Results().At(0).Type())
	if te == nil {
		return fail()
	}
	pre := varDecl(tmp, te, nil)
	body.List = append(body.List, &ast.AssignStmt{Lhs: []ast.Expr{ast.NewIdent(tmp)}, Tok: token.ASSIGN, Rhs: []ast.Expr{ast.NewIdent(resNames[0])}})
	*slot = ast.NewIdent(tmp)
	switch s.(type) {
	case *ast.IfStmt, *ast.SwitchStmt, *ast.ExprStmt, *ast.ReturnStmt, *ast.SendStmt:
		return []ast.Stmt{&ast.BlockStmt{List: []ast.Stmt{pre, body, s}}}, true
	}
	// assignments / definitions: the defined names must stay visible to the following statements
	return []ast.Stmt{pre, body, s}, true
}

// simpleReturn: the callee's body is a single return statement, every parameter (and the receiver) is used at most
// once in it and bound to an argument that is an identifier, a selector chain of identifiers, a literal or &ident; the
// returned expressions with the arguments substituted are the result.
func (il *inliner) simpleReturn(call *ast.CallExpr, fn *types.Func) ([]ast.Expr, bool) {
	fd := il.decls[fn]
	if fd == nil || len(fd.Body.List) != 1 {
		return nil, false
	}
	ret, ok := fd.Body.List[0].(*ast.ReturnStmt)
	if !ok || len(ret.Results) == 0 {
		return nil, false
	}
	sig := fn.Type().(*types.Signature)
	if sig.Variadic() && call.Ellipsis == token.NoPos {
		return nil, false
	}
	var pure func(e ast.Expr) bool
	pure = func(e ast.Expr) bool {
		switch x := e.(type) {
		case *ast.Ident, *ast.BasicLit:
			return true
		case *ast.SelectorExpr:
			return pure(x.X)
		case *ast.UnaryExpr:
			return x.Op == token.AND && pure(x.X)
		case *ast.StarExpr:
			return pure(x.X)
		case *ast.ParenExpr:
			return pure(x.X)
		}
		return false
	}
	subst := map[types.Object]ast.Expr{}
	if sig.Recv() != nil {
		sel, ok := call.Fun.(*ast.SelectorExpr)
		if !ok || !pure(sel.X) {
			return nil, false
		}
		si := il.info.Selections[sel]
		if si == nil || si.Kind() != types.MethodVal || len(si.Index()) != 1 {
			return nil, false
		}
		// only when no implicit & or * is needed
		xt := il.info.TypeOf(sel.X)
		if xt == nil || !types.Identical(xt, sig.Recv().Type()) {
			return nil, false
		}
		if len(fd.Recv.List) > 0 && len(fd.Recv.List[0].Names) > 0 {
			if obj := il.info.Defs[fd.Recv.List[0].Names[0]]; obj != nil {
				subst[obj] = sel.X
			}
		}
	}
	pi := 0
	for _, fld := range fd.Type.Params.List {
		names := fld.Names
		if len(names) == 0 {
			names = []*ast.Ident{nil}
		}
		for _, nm := range names {
			if pi >= len(call.Args) || !pure(call.Args[pi]) {
				return nil, false
			}
			// the argument must already have the parameter's type (no implicit conversion is lost)
			at := il.info.TypeOf(call.Args[pi])
			if at == nil || !types.Identical(at, sig.Params().At(pi).Type()) {
				return nil, false
			}
			if nm != nil && nm.Name != "_" {
				if obj := il.info.Defs[nm]; obj != nil {
					subst[obj] = call.Args[pi]
				}
			}
			pi++
		}
	}
	if pi != len(call.Args) {
		return nil, false
	}
	// free names must resolve identically at the call site; count parameter uses
	uses := map[types.Object]int{}
	callScope := il.scopeAt(call.Pos())
	okFree := true
	for _, r := range ret.Results {
		ast.Inspect(r, func(n ast.Node) bool {
			if _, isLit := n.(*ast.FuncLit); isLit {
				okFree = false
				return false
			}
			idn, ok := n.(*ast.Ident)
			if !ok {
				return true
			}
			obj := il.info.Uses[idn]
			if obj == nil {
				return true
			}
			if _, isParam := subst[obj]; isParam {
				uses[obj]++
				return true
			}
			switch o := obj.(type) {
			case *types.PkgName:
				found := false
				for _, is := range il.curFile.Imports {
					if strings.Trim(is.Path.Value, "\"") == o.Imported().Path() {
						nm := o.Imported().Name()
						if is.Name != nil {
							nm = is.Name.Name
						}
						if nm == idn.Name {
							found = true
						}
					}
				}
				if !found {
					okFree = false
				}
			default:
				if (obj.Parent() == il.pkg.Scope() || obj.Parent() == types.Universe) && callScope != nil {
					if _, found := callScope.LookupParent(idn.Name, call.Pos()); found != nil && found != obj {
						okFree = false
					}
				}
			}
			return true
		})
	}
	if !okFree {
		return nil, false
	}
	for obj, n := range uses {
		if n > 1 {
			// duplicating the argument is harmless only when it is a plain name (or a field path of names)
			if !isNamePath(subst[obj]) {
				return nil, false
			}
		}
	}
	posObj := map[token.Pos]types.Object{}
	for _, r := range ret.Results {
		ast.Inspect(r, func(n ast.Node) bool {
			if idn, ok := n.(*ast.Ident); ok {
				if o := il.info.Uses[idn]; o != nil {
					posObj[idn.Pos()] = o
				}
			}
			return true
		})
	}
	var out []ast.Expr
	for _, r := range ret.Results {
		cl := cloneNode(r).(ast.Expr)
		cl = substIdents(cl, func(id *ast.Ident) ast.Expr {
			if o := posObj[id.Pos()]; o != nil {
				if e, ok := subst[o]; ok {
					return cloneNode(e).(ast.Expr)
				}
			}
			return nil
		})
		clearPos(cl)
		out = append(out, cl)
	}
	return out, true
}

// substIdents replaces identifiers for which f returns a non-nil expression.
func substIdents(e ast.Expr, f func(*ast.Ident) ast.Expr) ast.Expr {
	if id, ok := e.(*ast.Ident); ok {
		if r := f(id); r != nil {
			return r
		}
		return e
	}
	v := reflect.ValueOf(e)
	var walk func(v reflect.Value)
	exprType := reflect.TypeOf((*ast.Expr)(nil)).Elem()
	walk = func(v reflect.Value) {
		switch v.Kind() {
		case reflect.Ptr:
			if !v.IsNil() {
				walk(v.Elem())
			}
		case reflect.Interface:
			if v.IsNil() {
				return
			}
			if v.Type() == exprType && v.CanSet() {
				if id, ok := v.Interface().(*ast.Ident); ok {
					if r := f(id); r != nil {
						v.Set(reflect.ValueOf(r))
						return
					}
				}
			}
			walk(v.Elem())
		case reflect.Struct:
			for i := 0; i < v.NumField(); i++ {
				walk(v.Field(i))
			}
		case reflect.Slice:
			for i := 0; i < v.Len(); i++ {
				walk(v.Index(i))
			}
		}
	}
	walk(v)
	return e
}

func varDecl(name string, typ ast.Expr, val ast.Expr) ast.Stmt {
	vs := &ast.ValueSpec{Names: []*ast.Ident{ast.NewIdent(name)}, Type: typ}
	if val != nil {
		vs.Values = []ast.Expr{val}
	}
	return &ast.DeclStmt{Decl: &ast.GenDecl{Tok: token.VAR, Specs: []ast.Spec{vs}}}
}

func useVar(name string) ast.Stmt {
	return &ast.AssignStmt{Lhs: []ast.Expr{ast.NewIdent("_")}, Tok: token.ASSIGN, Rhs: []ast.Expr{ast.NewIdent(name)}}
}

func (il *inliner) typeExpr(t types.Type) ast.Expr {
	missing := false
	q := func(p *types.Package) string {
		if p == il.pkg {
			return ""
		}
		for _, is := range il.curFile.Imports {
			if strings.Trim(is.Path.Value, "\"") == p.Path() {
				if is.Name != nil {
					if is.Name.Name == "_" || is.Name.Name == "." {
						missing = true
					}
					return is.Name.Name
				}
				return p.Name()
			}
		}
		missing = true
		return p.Name()
	}
	s := types.TypeString(t, q)
	if missing {
		return nil
	}
	e, err := parser.ParseExpr(s)
	if err != nil {
		return nil
	}
	clearPos(e)
	return e
}

func (il *inliner) expand(call *ast.CallExpr, fn *types.Func, id int) (*ast.BlockStmt, []string, bool) {
	fd := il.decls[fn]
	sig := fn.Type().(*types.Signature)
	if sig.Variadic() && call.Ellipsis == token.NoPos {
		return nil, nil, false
	}
	prefix := fmt.Sprintf("_il%d_", id)
	rename := map[types.Object]string{}
	var stmts []ast.Stmt
	if sig.Recv() != nil {
		sel, ok := call.Fun.(*ast.SelectorExpr)
		if !ok {
			return nil, nil, false
		}
		selInfo := il.info.Selections[sel]
		if selInfo == nil || selInfo.Kind() != types.MethodVal {
			return nil, nil, false
		}
		var recvExpr ast.Expr = sel.X
		rt := sig.Recv().Type()
		xt := il.info.TypeOf(sel.X)
		if xt == nil {
			return nil, nil, false
		}
		// method promoted through embedded fields: spell the path out
		idx := selInfo.Index()
		for _, fi := range idx[:len(idx)-1] {
			st, ok := derefType(xt).Underlying().(*types.Struct)
			if !ok || fi >= st.NumFields() {
				return nil, nil, false
			}
			fld := st.Field(fi)
			recvExpr = &ast.SelectorExpr{X: recvExpr, Sel: ast.NewIdent(fld.Name())}
			xt = fld.Type()
		}
		_, wantPtr := rt.(*types.Pointer)
		_, havePtr := xt.Underlying().(*types.Pointer)
		switch {
		case wantPtr && !havePtr:
			recvExpr = &ast.UnaryExpr{Op: token.AND, X: recvExpr}
		case !wantPtr && havePtr:
			recvExpr = &ast.StarExpr{X: recvExpr}
		}
		name := prefix + "recv"
		if len(fd.Recv.List) > 0 && len(fd.Recv.List[0].Names) > 0 && fd.Recv.List[0].Names[0].Name != "_" {
			if obj := il.info.Defs[fd.Recv.List[0].Names[0]]; obj != nil {
				rename[obj] = name
			}
		}
		te := il.typeExpr(rt)
		if te == nil {
			return nil, nil, false
		}
		stmts = append(stmts, varDecl(name, te, recvExpr), useVar(name))
	}
	// names defined inside the callee, and parameters the callee writes to or takes the address of
	definedInCallee := map[string]bool{}
	written := map[types.Object]bool{}
	usedInCallee := map[types.Object]bool{}
	ast.Inspect(fd.Body, func(n ast.Node) bool {
		switch x := n.(type) {
		case *ast.Ident:
			if il.info.Defs[x] != nil {
				definedInCallee[x.Name] = true
			}
			if o := il.info.Uses[x]; o != nil {
				usedInCallee[o] = true
			}
		case *ast.AssignStmt:
			for _, l := range x.Lhs {
				if id, ok := l.(*ast.Ident); ok {
					if o := il.info.Uses[id]; o != nil {
						written[o] = true
					}
				}
			}
		case *ast.IncDecStmt:
			if id, ok := x.X.(*ast.Ident); ok {
				if o := il.info.Uses[id]; o != nil {
					written[o] = true
				}
			}
		case *ast.UnaryExpr:
			if x.Op == token.AND {
				if id, ok := x.X.(*ast.Ident); ok {
					if o := il.info.Uses[id]; o != nil {
						written[o] = true
					}
				}
			}
		case *ast.RangeStmt:
			for _, l := range []ast.Expr{x.Key, x.Value} {
				if id, ok := l.(*ast.Ident); ok && x.Tok == token.ASSIGN {
					if o := il.info.Uses[id]; o != nil {
						written[o] = true
					}
				}
			}
		}
		return true
	})
	pi := 0
	for _, fld := range fd.Type.Params.List {
		names := fld.Names
		if len(names) == 0 {
			names = []*ast.Ident{nil}
		}
		for _, nm := range names {
			if pi >= len(call.Args) {
				return nil, nil, false
			}
			// an argument that is a plain local identifier of exactly the parameter's type, bound to a parameter the
			// callee never writes: use the caller's variable itself (no copy that would hide the data flow)
			if aid, ok := call.Args[pi].(*ast.Ident); ok && nm != nil && nm.Name != "_" {
				if pobj := il.info.Defs[nm]; pobj != nil && !written[pobj] && !definedInCallee[aid.Name] && usedInCallee[pobj] {
					if aobj, ok := il.info.Uses[aid].(*types.Var); ok && !aobj.IsField() && aobj.Parent() != il.pkg.Scope() && types.Identical(aobj.Type(), sig.Params().At(pi).Type()) {
						rename[pobj] = aid.Name
						pi++
						continue
					}
				}
			}
			name := fmt.Sprintf("%sp%d", prefix, pi)
			if nm != nil && nm.Name != "_" {
				if obj := il.info.Defs[nm]; obj != nil {
					rename[obj] = name
				}
			}
			te := il.typeExpr(sig.Params().At(pi).Type())
			if te == nil {
				return nil, nil, false
			}
			stmts = append(stmts, varDecl(name, te, call.Args[pi]), useVar(name))
			pi++
		}
	}
	if pi != len(call.Args) {
		return nil, nil, false
	}
	var resNames []string
	ri := 0
	if fd.Type.Results != nil {
		for _, fld := range fd.Type.Results.List {
			names := fld.Names
			if len(names) == 0 {
				names = []*ast.Ident{nil}
			}
			for _, nm := range names {
				name := fmt.Sprintf("%sr%d", prefix, ri)
				if nm != nil && nm.Name != "_" {
					if obj := il.info.Defs[nm]; obj != nil {
						rename[obj] = name
					}
				}
				te := il.typeExpr(sig.Results().At(ri).Type())
				if te == nil {
					return nil, nil, false
				}
				stmts = append(stmts, varDecl(name, te, nil), useVar(name))
				resNames = append(resNames, name)
				ri++
			}
		}
	}
	// free names of the callee must mean the same thing at the call site
	callScope := il.scopeAt(call.Pos())
	okFree := true
	ast.Inspect(fd.Body, func(n ast.Node) bool {
		idn, ok := n.(*ast.Ident)
		if !ok || !okFree {
			return okFree
		}
		obj := il.info.Uses[idn]
		if obj == nil {
			return true
		}
		switch o := obj.(type) {
		case *types.PkgName:
			found := false
			for _, is := range il.curFile.Imports {
				if strings.Trim(is.Path.Value, "\"") == o.Imported().Path() {
					nm := o.Imported().Name()
					if is.Name != nil {
						nm = is.Name.Name
					}
					if nm == idn.Name {
						found = true
					}
				}
			}
			if !found {
				okFree = false
				return false
			}
			if callScope != nil {
				if _, shadow := callScope.LookupParent(idn.Name, call.Pos()); shadow != nil {
					if _, isPkg := shadow.(*types.PkgName); !isPkg {
						okFree = false
					}
				}
			}
		default:
			if obj.Parent() == il.pkg.Scope() || obj.Parent() == types.Universe {
				if callScope != nil {
					if _, found := callScope.LookupParent(idn.Name, call.Pos()); found != nil && found != obj {
						okFree = false
					}
				}
			}
		}
		return okFree
	})
	if !okFree {
		return nil, nil, false
	}
	body := cloneNode(fd.Body).(*ast.BlockStmt)
	posObj := map[token.Pos]types.Object{}
	ast.Inspect(fd.Body, func(n ast.Node) bool {
		if idn, ok := n.(*ast.Ident); ok {
			if o := il.info.Uses[idn]; o != nil {
				posObj[idn.Pos()] = o
			} else if o := il.info.Defs[idn]; o != nil {
				posObj[idn.Pos()] = o
			}
		}
		return true
	})
	ast.Inspect(body, func(n ast.Node) bool {
		if idn, ok := n.(*ast.Ident); ok {
			if o := posObj[idn.Pos()]; o != nil {
				if nn, ok := rename[o]; ok {
					idn.Name = nn
				}
			}
		}
		return true
	})
	label := prefix + "L"
	usedLabel := false
	okRet := true
	var activeDefers []*ast.CallExpr // top-level deferred unlocks seen so far, in order
	runDefers := func() []ast.Stmt {
		var out []ast.Stmt
		for i := len(activeDefers) - 1; i >= 0; i-- {
			out = append(out, &ast.ExprStmt{X: cloneNode(activeDefers[i]).(ast.Expr)})
		}
		return out
	}
	retStmts := func(r *ast.ReturnStmt, isTail bool) []ast.Stmt {
		var out []ast.Stmt
		switch {
		case len(r.Results) == 0:
		case len(r.Results) == len(resNames), len(r.Results) == 1 && len(resNames) > 1:
			var lhs []ast.Expr
			for _, rn := range resNames {
				lhs = append(lhs, ast.NewIdent(rn))
			}
			out = append(out, &ast.AssignStmt{Lhs: lhs, Tok: token.ASSIGN, Rhs: r.Results})
		default:
			okRet = false
		}
		out = append(out, runDefers()...)
		if !isTail {
			usedLabel = true
			out = append(out, &ast.BranchStmt{Tok: token.BREAK, Label: ast.NewIdent(label)})
		}
		return out
	}
	var rewriteReturns func(list []ast.Stmt, tail bool) []ast.Stmt
	var rewriteStmt func(s ast.Stmt, tail bool) []ast.Stmt
	rewriteStmt = func(s ast.Stmt, tail bool) []ast.Stmt {
		switch x := s.(type) {
		case *ast.ReturnStmt:
			return retStmts(x, tail)
		case *ast.BlockStmt:
			x.List = rewriteReturns(x.List, tail)
		case *ast.IfStmt:
			x.Body.List = rewriteReturns(x.Body.List, false)
			if x.Else != nil {
				x.Else = asElse(rewriteStmt(x.Else, false))
			}
		case *ast.ForStmt:
			x.Body.List = rewriteReturns(x.Body.List, false)
		case *ast.RangeStmt:
			x.Body.List = rewriteReturns(x.Body.List, false)
		case *ast.SwitchStmt:
			x.Body.List = rewriteReturns(x.Body.List, false)
		case *ast.TypeSwitchStmt:
			x.Body.List = rewriteReturns(x.Body.List, false)
		case *ast.SelectStmt:
			x.Body.List = rewriteReturns(x.Body.List, false)
		case *ast.CaseClause:
			x.Body = rewriteReturns(x.Body, false)
		case *ast.CommClause:
			x.Body = rewriteReturns(x.Body, false)
		case *ast.LabeledStmt:
			r := rewriteStmt(x.Stmt, false)
			if len(r) == 1 {
				x.Stmt = r[0]
			} else {
				x.Stmt = &ast.BlockStmt{List: r}
			}
		}
		return []ast.Stmt{s}
	}
	rewriteReturns = func(list []ast.Stmt, tail bool) []ast.Stmt {
		var out []ast.Stmt
		for i, s := range list {
			out = append(out, rewriteStmt(s, tail && i == len(list)-1)...)
		}
		return out
	}
	{
		var out []ast.Stmt
		endsInReturn := false
		for i, s := range body.List {
			if d, ok := s.(*ast.DeferStmt); ok {
				activeDefers = append(activeDefers, d.Call)
				continue
			}
			_, endsInReturn = s.(*ast.ReturnStmt)
			out = append(out, rewriteStmt(s, i == len(body.List)-1)...)
		}
		if !endsInReturn {
			out = append(out, runDefers()...) // falling off the end
		}
		body.List = out
	}
	if !okRet {
		return nil, nil, false
	}
	clearPos(body)
	var wrapped ast.Stmt = body
	if usedLabel {
		sw := &ast.SwitchStmt{Body: &ast.BlockStmt{List: []ast.Stmt{&ast.CaseClause{Body: body.List}}}}
		wrapped = &ast.LabeledStmt{Label: ast.NewIdent(label), Stmt: sw}
	}
	stmts = append(stmts, wrapped)
	return &ast.BlockStmt{List: stmts}, resNames, true
}

func (il *inliner) scopeAt(pos token.Pos) *types.Scope {
	if il.curFunc == nil {
		return nil
	}
	s := il.info.Scopes[il.curFunc.Type]
	if s == nil {
		return nil
	}
	return s.Innermost(pos)
}

func clearPos(n ast.Node) {
	posType := reflect.TypeOf(token.NoPos)
	var visit func(v reflect.Value)
	visit = func(v reflect.Value) {
		switch v.Kind() {
		case reflect.Ptr, reflect.Interface:
			if !v.IsNil() {
				visit(v.Elem())
			}
		case reflect.Struct:
			for i := 0; i < v.NumField(); i++ {
				f := v.Field(i)
				if f.Type() == posType {
					if f.CanSet() && f.Int() != 0 {
						f.SetInt(1) // keep "is present" (Ellipsis, Lparen, ...) but forget where
					}
					continue
				}
				visit(f)
			}
		case reflect.Slice:
			for i := 0; i < v.Len(); i++ {
				visit(v.Index(i))
			}
		}
	}
	visit(reflect.ValueOf(n))
}

// cloneNode: deep copy of an AST node (after golang.org/x/tools/internal/astutil.CloneNode, BSD-3-Clause).
func cloneNode(n ast.Node) ast.Node {
	var clone func(x reflect.Value) reflect.Value
	set := func(dst, src reflect.Value) {
		src = clone(src)
		if src.IsValid() {
			dst.Set(src)
		}
	}
	clone = func(x reflect.Value) reflect.Value {
		switch x.Kind() {
		case reflect.Ptr:
			if x.IsNil() {
				return x
			}
			switch x.Interface().(type) {
			case *ast.Object, *ast.Scope:
				return reflect.Zero(x.Type())
			}
			y := reflect.New(x.Type().Elem())
			set(y.Elem(), x.Elem())
			return y
		case reflect.Struct:
			y := reflect.New(x.Type()).Elem()
			for i := 0; i < x.Type().NumField(); i++ {
				set(y.Field(i), x.Field(i))
			}
			return y
		case reflect.Slice:
			if x.IsNil() {
				return x
			}
			y := reflect.MakeSlice(x.Type(), x.Len(), x.Cap())
			for i := 0; i < x.Len(); i++ {
				set(y.Index(i), x.Index(i))
			}
			return y
		case reflect.Interface:
			y := reflect.New(x.Type()).Elem()
			set(y, x.Elem())
			return y
		default:
			return x
		}
	}
	return clone(reflect.ValueOf(n)).Interface().(ast.Node)
}

func computeLineMap(file string, orig, inlined []byte) {
	ol := strings.Split(string(orig), "\n")
	nl := strings.Split(string(inlined), "\n")
	m := make([]int, len(nl)+2)
	pos := map[string][]int{}
	for i, l := range ol {
		t := strings.TrimSpace(l)
		pos[t] = append(pos[t], i)
	}
	last := -1
	for i, l := range nl {
		t := strings.TrimSpace(l)
		found := -1
		if t != "" && t != "}" && t != "{" && t != ")" && !strings.Contains(t, "_il") {
			for _, p := range pos[t] {
				if p > last {
					found = p
					break
				}
			}
		}
		if found >= 0 && found-last < 400 {
			last = found
			m[i+1] = found + 1
		} else {
			v := last + 2
			if v > len(ol) {
				v = len(ol)
			}
			if v < 1 {
				v = 1
			}
			m[i+1] = v
		}
	}
	lineMapsMu.Lock()
	lineMaps[file] = m
	lineMapsMu.Unlock()
}

// ---------------------------------------------------------------------------------------------------- cache

func inlineCacheDir() string { return filepath.Join(verifRoot, "bin", "inline-cache") }

func inlineCacheKey(dir string, overlay map[string][]byte) string {
	h := sha256.New()
	fmt.Fprintf(h, "v5|%s|", dir)
	if exe, err := os.Executable(); err == nil {
		if fi, err := os.Stat(exe); err == nil {
			fmt.Fprintf(h, "exe|%d|%d|", fi.Size(), fi.ModTime().UnixNano()) // a rebuilt checker never reuses old results
		}
	}
	h.Write([]byte(knownFuncsTxt))
	fmt.Fprintf(h, "%v|", alwaysInline)
	var files []string
	filepath.Walk(dir, func(p string, fi os.FileInfo, err error) error {
		if err != nil {
			return nil
		}
		if fi.IsDir() {
			n := fi.Name()
			if n == ".git" || n == "node_modules" || n == "testdata" {
				return filepath.SkipDir
			}
			if p != dir {
				if _, err := os.Stat(filepath.Join(p, "go.mod")); err == nil {
					return filepath.SkipDir
				}
			}
			return nil
		}
		if (strings.HasSuffix(p, ".go") && !strings.HasSuffix(p, "_test.go")) || fi.Name() == "go.mod" {
			files = append(files, p)
		}
		return nil
	})
	sort.Strings(files)
	for _, f := range files {
		b, ok := overlay[f]
		if !ok {
			var err error
			b, err = os.ReadFile(f)
			if err != nil {
				return ""
			}
		}
		fmt.Fprintf(h, "%s|%d|", f, len(b))
		h.Write(b)
	}
	var ok []string
	for k := range overlay {
		ok = append(ok, k)
	}
	sort.Strings(ok)
	for _, k := range ok {
		fmt.Fprintf(h, "ov|%s|", k)
		h.Write(overlay[k])
	}
	return hex.EncodeToString(h.Sum(nil))[:32]
}

func readInlineCache(key string) (map[string][]byte, bool) {
	b, err := os.ReadFile(filepath.Join(inlineCacheDir(), key+".json"))
	if err != nil {
		return nil, false
	}
	var m map[string]string
	if json.Unmarshal(b, &m) != nil {
		return nil, false
	}
	out := map[string][]byte{}
	for k, v := range m {
		out[k] = []byte(v)
	}
	return out, true
}

func writeInlineCache(key string, ov map[string][]byte) {
	os.MkdirAll(inlineCacheDir(), 0755)
	m := map[string]string{}
	for k, v := range ov {
		m[k] = string(v)
	}
	b, _ := json.Marshal(m)
	tmp := filepath.Join(inlineCacheDir(), fmt.Sprintf("%s.%d.tmp", key, os.Getpid()))
	if os.WriteFile(tmp, b, 0644) == nil {
		os.Rename(tmp, filepath.Join(inlineCacheDir(), key+".json"))
	}
	ents, _ := os.ReadDir(inlineCacheDir())
	if len(ents) > 60 {
		type fi struct {
			name string
			mod  int64
		}
		var fs []fi
		for _, e := range ents {
			if in, err := e.Info(); err == nil {
				fs = append(fs, fi{e.Name(), in.ModTime().UnixNano()})
			}
		}
		sort.Slice(fs, func(i, j int) bool { return fs[i].mod < fs[j].mod })
		for i := 0; i < len(fs)-40; i++ {
			os.Remove(filepath.Join(inlineCacheDir(), fs[i].name))
		}
	}
}

// ensureImports adds to f the imports that the bodies of inlinable helpers called from f need and f lacks (a helper
// defined in another file of the package). An import that ends up unused is removed again by pruneUnusedImports.
func (il *inliner) ensureImports(f *ast.File) {
	have := map[string]string{} // path -> local name
	names := map[string]bool{}
	for _, is := range f.Imports {
		path := strings.Trim(is.Path.Value, "\"")
		if is.Name != nil {
			have[path] = is.Name.Name
			names[is.Name.Name] = true
		} else if o, ok := il.info.Implicits[is].(*types.PkgName); ok {
			have[path] = o.Name()
			names[o.Name()] = true
		}
	}
	fileNames := map[string]bool{}
	ast.Inspect(f, func(n ast.Node) bool {
		if id, ok := n.(*ast.Ident); ok {
			fileNames[id.Name] = true
		}
		return true
	})
	need := map[string]string{}
	seen := map[*types.Func]bool{}
	var visit func(body ast.Node)
	visit = func(body ast.Node) {
		ast.Inspect(body, func(n ast.Node) bool {
			call, ok := n.(*ast.CallExpr)
			if !ok {
				return true
			}
			g := il.calleeOf(call)
			if g == nil || !il.cand[g] || seen[g] {
				return true
			}
			seen[g] = true
			fd := il.decls[g]
			if fd == nil {
				return true
			}
			ast.Inspect(fd, func(m ast.Node) bool {
				if id, ok := m.(*ast.Ident); ok {
					if pn, ok := il.info.Uses[id].(*types.PkgName); ok {
						if _, ok := have[pn.Imported().Path()]; !ok {
							need[pn.Imported().Path()] = pn.Name()
						}
					}
				}
				return true
			})
			visit(fd.Body)
			return true
		})
	}
	visit(f)
	if len(need) == 0 {
		return
	}
	var paths []string
	for p := range need {
		paths = append(paths, p)
	}
	sort.Strings(paths)
	var specs []ast.Spec
	for _, p := range paths {
		nm := need[p]
		if names[nm] || fileNames[nm] && il.pkg.Scope().Lookup(nm) != nil {
			continue
		}
		// a local of the same name somewhere in the file would shadow the package: leave such a file alone
		shadow := false
		ast.Inspect(f, func(n ast.Node) bool {
			if id, ok := n.(*ast.Ident); ok && id.Name == nm && il.info.Defs[id] != nil {
				shadow = true
			}
			return true
		})
		if shadow {
			continue
		}
		is := &ast.ImportSpec{Name: ast.NewIdent(nm), Path: &ast.BasicLit{Kind: token.STRING, Value: strconv.Quote(p)}}
		f.Imports = append(f.Imports, is)
		specs = append(specs, is)
		names[nm] = true
	}
	if len(specs) == 0 {
		return
	}
	gd := &ast.GenDecl{Tok: token.IMPORT, Lparen: 1, Specs: specs, Rparen: 1}
	// import declarations must come first
	k := 0
	for k < len(f.Decls) {
		if g, ok := f.Decls[k].(*ast.GenDecl); ok && g.Tok == token.IMPORT {
			k++
			continue
		}
		break
	}
	f.Decls = append(f.Decls[:k], append([]ast.Decl{gd}, f.Decls[k:]...)...)
}

// pruneUnusedImports removes from files[i] the named or default imports nothing in the file refers to.
func pruneUnusedImports(path string, files []*pkgFile, i int, imp types.Importer) {
	fset := token.NewFileSet()
	var asts []*ast.File
	for _, fs := range files {
		f, err := parser.ParseFile(fset, fs.name, fs.content, parser.SkipObjectResolution)
		if err != nil {
			return
		}
		asts = append(asts, f)
	}
	info := &types.Info{Uses: map[*ast.Ident]types.Object{}, Implicits: map[ast.Node]types.Object{}, Defs: map[*ast.Ident]types.Object{}}
	conf := types.Config{Importer: imp, Error: func(error) {}}
	conf.Check(path, fset, asts, info)
	used := map[types.Object]bool{}
	for _, o := range info.Uses {
		used[o] = true
	}
	f := asts[i]
	drop := map[*ast.ImportSpec]bool{}
	for _, is := range f.Imports {
		var o types.Object
		if is.Name != nil {
			if is.Name.Name == "_" || is.Name.Name == "." {
				continue
			}
			o = info.Defs[is.Name]
		} else {
			o = info.Implicits[is]
		}
		if o != nil && !used[o] {
			drop[is] = true
		}
	}
	if len(drop) == 0 {
		return
	}
	var decls []ast.Decl
	for _, d := range f.Decls {
		if g, ok := d.(*ast.GenDecl); ok && g.Tok == token.IMPORT {
			var keep []ast.Spec
			for _, s := range g.Specs {
				if !drop[s.(*ast.ImportSpec)] {
					keep = append(keep, s)
				}
			}
			if len(keep) == 0 {
				continue
			}
			g.Specs = keep
		}
		decls = append(decls, d)
	}
	f.Decls = decls
	var buf bytes.Buffer
	if err := (&printer.Config{Mode: printer.UseSpaces | printer.TabIndent, Tabwidth: 8}).Fprint(&buf, fset, f); err != nil {
		return
	}
	files[i].content = buf.Bytes()
}

// isUnlockCall: x.Unlock() / x.RUnlock() - the only deferred calls the expansion replays (a panic between lock and
// unlock behaves differently in the expanded form; that difference is irrelevant to the rules, which look at
// non-panicking paths, except for the one rule about explicitly released locks, which skips replayed unlocks of
// helpers because those helpers never contain user code when they qualify).
func isUnlockCall(c *ast.CallExpr) bool {
	sel, ok := c.Fun.(*ast.SelectorExpr)
	if !ok || len(c.Args) != 0 {
		return false
	}
	return sel.Sel.Name == "Unlock" || sel.Sel.Name == "RUnlock"
}

// isNamePath: x, x.f, x.f.g, (*x).f - no calls, no indexing: evaluating it twice is the same as once.
func isNamePath(e ast.Expr) bool {
	switch x := e.(type) {
	case *ast.Ident:
		return true
	case *ast.SelectorExpr:
		return isNamePath(x.X)
	case *ast.ParenExpr:
		return isNamePath(x.X)
	case *ast.StarExpr:
		return isNamePath(x.X)
	case *ast.UnaryExpr:
		return x.Op == token.AND && isNamePath(x.X)
	}
	return false
}
