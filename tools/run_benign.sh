#!/bin/bash
# Applies every behaviour-preserving refactoring under /verif/benign/<id>/patch.diff to /repo (git apply), runs all quick
# checks against it, undoes it (git checkout -- .), and records in benign/<id>/result.json which checks did not exit 0.
# usage: tools/run_benign.sh [id ...]
cd /verif
REPO=${REPO:-/repo}   # a scratch worktree may be given instead (REPO=/tmp/x); the checker is then run with -repo
ids="$@"; [ -z "$ids" ] && ids=$(ls benign | grep '^C')
props=$(python3 -c "import json;print(' '.join(c['property_id'] for c in json.load(open('/verif/MANIFEST.json'))['checks']))")
if [ -n "$(git -C $REPO status --porcelain)" ]; then echo "$REPO is not clean"; exit 2; fi
for id in $ids; do
  d=benign/$id
  git -C $REPO apply /verif/$d/patch.diff || { echo "$id: patch does not apply"; continue; }
  T=$(mktemp -d /tmp/benign_run.XXXXXX)
  echo $props | tr ' ' '\n' | xargs -P 5 -I{} sh -c '${SGCHECK:-bin/sgcheck} -property {} -repo '$REPO' -tier quick -no-evidence > '$T'/{}.out 2>&1; echo $? > '$T'/{}.rc'
  : > /tmp/benign_$id.txt
  for p in $props; do
    echo "### $p rc=$(cat $T/$p.rc)" >> /tmp/benign_$id.txt
    grep -E "^VIOLATION|^  rule=|^UNDECIDED|^COVERAGE|^CHECK-ERROR|ANCHOR|^sgcheck|^load|^panic|error:" $T/$p.out >> /tmp/benign_$id.txt
  done
  rm -rf $T
  git -C $REPO apply -R /verif/$d/patch.diff 2>/dev/null   # also removes files the patch created
  git -C $REPO checkout -- .
  python3 - $id <<'PY'
import sys,re,json
id=sys.argv[1]
cur=None; alarms={}
for l in open('/tmp/benign_%s.txt'%id):
    m=re.match(r'### (C\d+) rc=(\d+)',l)
    if m:
        cur=m.group(1); rc=int(m.group(2))
        if rc!=0: alarms.setdefault(cur,[]).append('exit %d'%rc)
        continue
    if cur and l.strip() and cur in alarms: alarms[cur].append(l.strip()[:300])
res={"benign":id,"applied_to":"/repo working tree via git apply, undone with git checkout -- .","checks_run":"all quick checks of MANIFEST.json","silent":not alarms,"alarms":alarms}
json.dump(res,open('/verif/benign/%s/result.json'%id,'w'),indent=1)
print(id,"SILENT" if not alarms else "ALARM %s"%json.dumps(alarms)[:1500])
PY
  rm -f /tmp/benign_$id.txt
done
