package main

import (
	"fmt"
	"go/constant"
	"go/token"
	"go/types"
	"reflect"
	"sort"
	"strings"

	"golang.org/x/tools/go/ssa"
)

// C14 (reload keeps unchanged rules) and C18 (datasource) rules.

type eqSpec struct {
	fn      string
	helpers []string // callee equality helpers (same receiver/param)
	exempt  map[string]string
}

var eqSpecs = []eqSpec{
	{fn: "core/flow.(*Rule).isEqualsTo", exempt: map[string]string{"ID": "descriptive id, no effect on shaping"}},
	{fn: "core/circuitbreaker.(*Rule).isEqualsTo", helpers: []string{"core/circuitbreaker.(*Rule).isEqualsToBase"}, exempt: map[string]string{"Id": "descriptive id, no effect on breaking"}},
	{fn: "core/hotspot.(*Rule).Equals", exempt: map[string]string{"ID": "descriptive id, no effect on shaping"}},
}

// sameFieldComparisons collects, in f, the comparisons between field F of the receiver and field F of the parameter.
// It returns covered fields, mismatched comparisons, and the SSA values that are such comparisons.
func sameFieldComparisons(f *ssa.Function) (covered map[string]bool, bad []string, cmps map[ssa.Value]string) {
	covered = map[string]bool{}
	cmps = map[ssa.Value]string{}
	if len(f.Params) < 2 {
		return
	}
	recv, other := f.Params[0], f.Params[1]
	fieldOfParam := func(v ssa.Value) (string, *ssa.Parameter) {
		v = stripConv(v)
		if u, ok := v.(*ssa.UnOp); ok && u.Op == token.MUL {
			if fa, ok := u.X.(*ssa.FieldAddr); ok {
				if p, ok := fa.X.(*ssa.Parameter); ok {
					return fieldName(fa.X.Type(), fa.Field), p
				}
			}
		}
		return "", nil
	}
	pair := func(a, b ssa.Value, v ssa.Value, how string) {
		fa, pa := fieldOfParam(a)
		fb, pb := fieldOfParam(b)
		if pa == nil || pb == nil || pa == pb || (pa != recv && pa != other) || (pb != recv && pb != other) {
			return
		}
		if fa == fb {
			covered[fa] = true
			cmps[v] = fa
		} else {
			bad = append(bad, fmt.Sprintf("%s compares %s.%s with %s.%s", how, pa.Name(), fa, pb.Name(), fb))
		}
	}
	eachInstr(f, func(ins ssa.Instruction) {
		switch x := ins.(type) {
		case *ssa.BinOp:
			if x.Op == token.EQL || x.Op == token.NEQ {
				pair(x.X, x.Y, x, x.Op.String())
			}
		case *ssa.Call:
			if cal := x.Call.StaticCallee(); cal != nil && len(x.Call.Args) == 2 {
				n := extFuncName(cal)
				if n == "reflect.DeepEqual" || strings.HasSuffix(fnKey(cal), "util.Float64Equals") {
					pair(x.Call.Args[0], x.Call.Args[1], x, cal.Name())
				}
			}
		}
	})
	return
}

func init() {
	register(&Rule{
		ID: "reload.equality-audit", Props: []string{"C14", "C13", "C05"}, Floor: 6,
		Doc: "the rule equality functions used to decide controller reuse (flow.Rule.isEqualsTo, circuitbreaker.Rule.isEqualsTo + isEqualsToBase, hotspot.Rule.Equals) compare only the same field on both sides (==, util.Float64Equals, reflect.DeepEqual), cover every field of the rule struct except the frozen exemptions, and return false only on a branch where some same-field comparison failed (or the other rule is nil): field-identical rules compare equal, and a modified behaviour-relevant field is never missed",
		Run: func(c *Ctx) {
			for _, es := range eqSpecs {
				f := c.P.Func(es.fn)
				if f == nil {
					c.AnchorLost(es.fn)
					continue
				}
				covered, bad, cmps := sameFieldComparisons(f)
				helperCalls := map[ssa.Value]bool{}
				for _, h := range equalityHelpers(c.P, f, es.helpers) {
					hf := c.P.Func(h)
					if hf == nil {
						c.AnchorLost(h)
						continue
					}
					hc, hb, _ := sameFieldComparisons(hf)
					for k := range hc {
						covered[k] = true
					}
					bad = append(bad, hb...)
					for _, ci := range callsIn(f) {
						if isStaticCallTo(ci, hf) {
							if v, ok := ci.(ssa.Value); ok {
								helperCalls[v] = true
							}
						}
					}
				}
				c.Check(len(bad) == 0, fnKey(f)+" / same-field", f.Pos(), "every comparison pairs a field with itself: %v", bad)
				// completeness
				st := namedOf(f.Params[0].Type()).Underlying().(*types.Struct)
				var missing []string
				for i := 0; i < st.NumFields(); i++ {
					n := st.Field(i).Name()
					if covered[n] {
						continue
					}
					if _, ok := es.exempt[n]; ok {
						continue
					}
					missing = append(missing, n)
				}
				c.Check(len(missing) == 0, fnKey(f)+" / complete", f.Pos(), "fields of the rule not compared: %v (exempt: %v): a reload that changes only such a field keeps the old controller", missing, keysOf(es.exempt))
				// reflexivity: every `false` outcome is justified by a failed same-field comparison
				n := 0
				for _, r := range returnsOf(f) {
					for _, cs := range returnValueCases(r, 0) {
						cv, ok := cs.val.(*ssa.Const)
						if !ok {
							// returning a comparison (or helper) result directly is fine: false iff that comparison failed
							if _, isCmp := cmps[cs.val]; isCmp || helperCalls[cs.val] {
								continue
							}
							if ph, ok := cs.val.(*ssa.Phi); ok {
								_ = ph
							}
							continue
						}
						if cv.Value == nil || cv.Value.Kind() != constant.Bool || constant.BoolVal(cv.Value) {
							continue
						}
						n++
						justified := edgesJustified(cs.block, cmps, helperCalls, 0)
						for _, ft := range append(condFacts(cs.block), cs.extra...) {
							if ph, ok := ft.Cond.(*ssa.Phi); ok && !ft.Truth && phiIsConjunction(ph, cmps, helperCalls) {
								justified = true
							}
							if _, isCmp := cmps[ft.Cond]; isCmp {
								// comparison known to have failed: (== false) or (!= true); for calls: false
								if b, ok := ft.Cond.(*ssa.BinOp); ok {
									if (b.Op == token.EQL && !ft.Truth) || (b.Op == token.NEQ && ft.Truth) {
										justified = true
									}
								} else if !ft.Truth {
									justified = true
								}
							}
							if helperCalls[ft.Cond] && !ft.Truth {
								justified = true
							}
							if b, ok := ft.Cond.(*ssa.BinOp); ok && b.Op == token.EQL && ft.Truth && (isNilConst(b.X) || isNilConst(b.Y)) {
								justified = true // other rule is nil
							}
						}
						key := fmt.Sprintf("%s / false#%d", fnKey(f), n)
						if justified {
							c.Hold(key, r.Pos(), "returns false on a branch where a same-field comparison failed")
						} else {
							var fs []string
							for _, ft := range append(condFacts(cs.block), cs.extra...) {
								fs = append(fs, canonCond(ft.Cond, ft.Truth))
							}
							c.Violate(key, r.Pos(), "returns false under [%s], where no field differs: a rule is not equal to an identical copy of itself on this branch, so an identical reload rebuilds its controller and discards its runtime state", strings.Join(fs, "; "))
						}
					}
				}
			}
		},
	})

	// ------------------------------------------------------------------------------------ C18

	register(&Rule{
		ID: "datasource.handler-recovers", Props: []string{"C18"}, Floor: 2,
		Doc: "DefaultPropertyHandler.Handle has a deferred recover (handling never panics out to the datasource) and Base.Handle reaches converters / updaters only through PropertyHandler.Handle",
		Run: func(c *Ctx) {
			h := c.P.Func("ext/datasource.(*DefaultPropertyHandler).Handle")
			b := c.P.Func("ext/datasource.(*Base).Handle")
			if h == nil || b == nil {
				c.AnchorLost("datasource Handle functions")
				return
			}
			c.Check(hasDeferredRecover(h), fnKey(h)+" / recover", h.Pos(), "a panic in a converter or updater must be recovered in Handle")
			viaHandler := true
			for _, ci := range callsIn(b) {
				cc := ci.Common()
				if cc.StaticCallee() == nil && !cc.IsInvoke() {
					if _, isB := cc.Value.(*ssa.Builtin); !isB {
						viaHandler = false
					}
				}
			}
			c.Check(viaHandler, fnKey(b)+" / only-through-handlers", b.Pos(), "Base.Handle calls no converter / updater function value directly")
		},
	})

	register(&Rule{
		ID: "datasource.wire-struct-agreement", Props: []string{"C18"}, Floor: 3,
		Doc: "every JSON-tagged field of hotspot.Rule has a field with the same JSON name in the wire struct datasource.HotspotRule, and the converter's composite literal sets every field of hotspot.Rule (a rule written in the module's wire format decodes to exactly the rule it describes); for the other four modules the parser decodes directly into the module's own Rule type",
		Run: func(c *Ctx) {
			rule := c.P.Named("core/hotspot.Rule")
			wire := c.P.Named("ext/datasource.HotspotRule")
			conv := c.P.Func("ext/datasource.HotSpotParamRuleJsonArrayParser")
			if rule == nil || wire == nil || conv == nil {
				c.AnchorLost("hotspot.Rule / datasource.HotspotRule / HotSpotParamRuleJsonArrayParser")
				return
			}
			tagName := func(tag string) string {
				v := reflect.StructTag(tag).Get("json")
				if i := strings.Index(v, ","); i >= 0 {
					v = v[:i]
				}
				return v
			}
			rs := rule.Underlying().(*types.Struct)
			ws := wire.Underlying().(*types.Struct)
			wireTags := map[string]bool{}
			for i := 0; i < ws.NumFields(); i++ {
				if t := tagName(ws.Tag(i)); t != "" && t != "-" {
					wireTags[t] = true
				}
			}
			var missing []string
			for i := 0; i < rs.NumFields(); i++ {
				t := tagName(rs.Tag(i))
				if t == "" || t == "-" {
					continue
				}
				if !wireTags[t] {
					missing = append(missing, rs.Field(i).Name()+" (json:\""+t+"\")")
				}
			}
			c.Check(len(missing) == 0, "ext/datasource.HotspotRule / tags", wire.Obj().Pos(), "hotspot.Rule fields without a same-named JSON field in the wire struct: %v: a payload that sets them decodes to a different rule", missing)
			// converter literal sets every field
			set := map[string]bool{}
			eachInstr(conv, func(ins ssa.Instruction) {
				st, ok := ins.(*ssa.Store)
				if !ok {
					return
				}
				if fa, ok := st.Addr.(*ssa.FieldAddr); ok && namedOf(fa.X.Type()) == rule && rootIsAlloc(fa.X) {
					set[fieldName(fa.X.Type(), fa.Field)] = true
				}
			})
			var unset []string
			for i := 0; i < rs.NumFields(); i++ {
				if !set[rs.Field(i).Name()] {
					unset = append(unset, rs.Field(i).Name())
				}
			}
			c.Check(len(unset) == 0, fnKey(conv)+" / literal-complete", conv.Pos(), "fields of hotspot.Rule the converter never sets: %v", unset)
			// the other parsers decode into the module's own type
			for _, p := range []struct{ fn, typ string }{
				{"ext/datasource.FlowRuleJsonArrayParser", "core/flow.Rule"},
				{"ext/datasource.SystemRuleJsonArrayParser", "core/system.Rule"},
				{"ext/datasource.CircuitBreakerRuleJsonArrayParser", "core/circuitbreaker.Rule"},
				{"ext/datasource.IsolationRuleJsonArrayParser", "core/isolation.Rule"},
			} {
				f := c.P.Func(p.fn)
				T := c.P.Named(p.typ)
				if f == nil || T == nil {
					c.AnchorLost(p.fn)
					continue
				}
				ok := false
				for _, ci := range callsIn(f) {
					if isExtCall(ci, "encoding/json.Unmarshal") {
						t := stripConv(ci.Common().Args[1]).Type()
						if pt, ok2 := t.(*types.Pointer); ok2 {
							if sl, ok3 := pt.Elem().Underlying().(*types.Slice); ok3 && namedOf(sl.Elem()) == T {
								ok = true
							}
						}
					}
				}
				c.Check(ok, fnKey(f)+" / decodes-own-type", f.Pos(), "decodes the payload into []*%s", p.typ)
			}
		},
	})

	register(&Rule{
		ID: "datasource.parser-errors", Props: []string{"C18"}, Floor: 5,
		Doc: "in each JSON array parser an Unmarshal error reaches the return as a non-nil error (an undecodable payload is rejected, the previous rules stay in force) and an empty payload returns (nil, nil)",
		Run: func(c *Ctx) {
			n := 0
			for _, f := range c.P.FuncsIn(modPath + "/ext/datasource") {
				if f.Parent() != nil || !strings.HasSuffix(f.Name(), "JsonArrayParser") {
					continue
				}
				n++
				var um *ssa.Call
				for _, ci := range callsIn(f) {
					if isExtCall(ci, "encoding/json.Unmarshal") {
						um, _ = ci.(*ssa.Call)
					}
				}
				if um == nil {
					c.Violate(fnKey(f)+" / unmarshal", f.Pos(), "parser does not decode JSON")
					continue
				}
				okErr, okEmpty := false, false
				for _, r := range returnsOf(f) {
					for _, ft := range condFacts(r.Block()) {
						b, ok := ft.Cond.(*ssa.BinOp)
						if ok && b.X == ssa.Value(um) && isNilConst(b.Y) && ((b.Op == token.NEQ && ft.Truth) || (b.Op == token.EQL && !ft.Truth)) {
							okErr = !isNilConst(r.Results[1])
							if !okErr {
								c.Violate(fnKey(f)+" / decode-error-returned", r.Pos(), "a decode error is swallowed: an undecodable payload is applied as an empty rule list (the rules are cleared)")
							}
						}
					}
					if isNilConst(r.Results[0]) && !instrDominates(um, r) {
						okEmpty = true
					}
				}
				c.Check(okErr, fnKey(f)+" / decode-error", um.Pos(), "Unmarshal error propagates as a non-nil error")
				c.Check(okEmpty, fnKey(f)+" / empty-payload", f.Pos(), "empty payload returns a nil property before decoding")
			}
			c.Stat("parsers", n)
		},
	})

	register(&Rule{
		ID: "datasource.updater-siblings", Props: []string{"C18"}, Floor: 5,
		Doc: "the five rule updaters share one shape: nil data -> the module's ClearRules; data asserted to the module's own rule slice type -> the same module's LoadRules; anything else -> error; a LoadRules error is returned as a non-nil error. Module of the asserted type, of ClearRules and of LoadRules agree",
		Run: func(c *Ctx) {
			n := 0
			for _, f := range c.P.FuncsIn(modPath + "/ext/datasource") {
				if f.Parent() != nil || !strings.HasSuffix(f.Name(), "RulesUpdater") || f.Name() == "PropertyUpdater" {
					continue
				}
				n++
				var clearPkg, loadPkg string
				var loadCall *ssa.Call
				clearOnNil := false
				for _, ci := range callsIn(f) {
					cal := ci.Common().StaticCallee()
					if cal == nil {
						continue
					}
					switch cal.Name() {
					case "ClearRules":
						clearPkg = relPkg(fnPkgPath(cal))
						fs := canonFacts(ci.Block())
						clearOnNil = fs["{any} == nil"] || fs["nil == {any}"]
					case "LoadRules":
						loadPkg = relPkg(fnPkgPath(cal))
						loadCall, _ = ci.(*ssa.Call)
					}
				}
				asserted := map[string]bool{}
				eachInstr(f, func(ins ssa.Instruction) {
					if ta, ok := ins.(*ssa.TypeAssert); ok {
						if sl, ok := ta.AssertedType.Underlying().(*types.Slice); ok {
							if nmd := namedOf(sl.Elem()); nmd != nil && nmd.Obj().Pkg() != nil {
								asserted[relPkg(nmd.Obj().Pkg().Path())] = true
							}
						}
					}
				})
				agree := clearPkg != "" && clearPkg == loadPkg && len(asserted) == 1 && asserted[loadPkg]
				c.Check(agree && clearOnNil, fnKey(f)+" / module-agreement", f.Pos(), "ClearRules of %q under data==nil (%v), LoadRules of %q, asserted rule types of %v", clearPkg, clearOnNil, loadPkg, keysOfB(asserted))
				// LoadRules error propagates
				// every way of returning after LoadRules: a nil result only where LoadRules' error is known nil, and at
				// least one non-nil result where it is known non-nil (the result may be assembled in a local or a helper)
				okErr := false
				if loadCall != nil {
					errIs := func(fs []Fact, wantNil bool) bool {
						for _, ft := range fs {
							b, ok := ft.Cond.(*ssa.BinOp)
							if !ok || (b.Op != token.EQL && b.Op != token.NEQ) {
								continue
							}
							var other ssa.Value
							if isNilConst(b.Y) {
								other = b.X
							} else if isNilConst(b.X) {
								other = b.Y
							}
							ex, ok := stripConv(other).(*ssa.Extract)
							if other == nil || !ok || ex.Tuple != ssa.Value(loadCall) || ex.Index != 1 {
								continue
							}
							if ((b.Op == token.EQL) == ft.Truth) == wantNil {
								return true
							}
						}
						return false
					}
					bad, good := false, false
					for _, r := range returnsOf(f) {
						if !instrReaches(loadCall, r) {
							continue
						}
						for _, cs := range returnValueCases(r, 0) {
							fs := append(append(append([]Fact{}, condFacts(cs.block)...), cs.extra...), condFacts(r.Block())...)
							if isNilConst(stripConv(cs.val)) {
								if !errIs(fs, true) {
									bad = true
								}
							} else if errIs(fs, false) {
								if ex, isEx := stripConv(cs.val).(*ssa.Extract); isEx && ex.Tuple == ssa.Value(loadCall) {
									good = true // the error itself
								} else if _, isConst := stripConv(cs.val).(*ssa.Const); !isConst {
									good = true
								}
							} else if ex, isEx := stripConv(cs.val).(*ssa.Extract); isEx && ex.Tuple == ssa.Value(loadCall) && ex.Index == 1 {
								good = true // `return err` unconditionally
							}
						}
					}
					okErr = good && !bad
				}
				c.Check(okErr, fnKey(f)+" / load-error", f.Pos(), "an error of LoadRules is returned as a non-nil error")
				// wrong type -> error
				okType := false
				for _, r := range returnsOf(f) {
					if isNilConst(r.Results[0]) || (loadCall != nil && instrDominates(loadCall, r)) {
						continue
					}
					if call, ok := r.Results[0].(*ssa.Call); ok && call.Call.StaticCallee() != nil && call.Call.StaticCallee().Name() == "ClearRules" {
						continue
					}
					okType = true
				}
				c.Check(okType, fnKey(f)+" / wrong-type-error", f.Pos(), "data of an unexpected type yields an error before anything is loaded")
			}
			c.Stat("updaters", n)
		},
	})

	register(&Rule{
		ID: "datasource.file-events", Props: []string{"C18"}, Floor: 3,
		Doc: "in the file datasource's watcher goroutine, Rename and Remove events lead to Handle(nil) (the rules are cleared when the file disappears) and every other event to doReadAndUpdate (the source converges to the file's content)",
		Run: func(c *Ctx) {
			init := c.P.Func("ext/datasource/file.(*RefreshableFileDataSource).Initialize")
			if init == nil {
				c.AnchorLost("RefreshableFileDataSource.Initialize")
				return
			}
			var loop *ssa.Function
			// the watcher: a function literal of Initialize, or a named function of the package that Initialize starts
			// with a go statement
			cands := withAnon(init)
			for _, a := range append([]*ssa.Function{}, cands...) {
				eachInstr(a, func(ins ssa.Instruction) {
					add := func(cal *ssa.Function) {
						if cal == nil || fnPkgPath(cal) != fnPkgPath(init) {
							return
						}
						if strings.HasPrefix(cal.Synthetic, "bound method wrapper") {
							for _, ci2 := range callsIn(cal) {
								if t := ci2.Common().StaticCallee(); t != nil {
									cal = t
								}
							}
						}
						cands = append(cands, withAnon(cal)...)
					}
					if g, ok := ins.(*ssa.Go); ok {
						add(g.Call.StaticCallee())
					}
					// a method value or function handed to a runner (`go util.RunWithRecover(s.watchLoop)`)
					for _, op := range ins.Operands(nil) {
						if *op == nil {
							continue
						}
						switch v := (*op).(type) {
						case *ssa.MakeClosure:
							if fn, ok := v.Fn.(*ssa.Function); ok && fn.Parent() == nil {
								add(fn)
							}
						case *ssa.Function:
							if _, isCall := ins.(ssa.CallInstruction); isCall && v.Parent() == nil && ins.(ssa.CallInstruction).Common().Value != ssa.Value(v) {
								add(v)
							}
						}
					}
				})
			}
			for _, a := range cands {
				for _, ci := range callsIn(a) {
					if cal := ci.Common().StaticCallee(); cal != nil && cal.Name() == "doReadAndUpdate" && a != init {
						loop = a
					}
				}
			}
			if loop == nil {
				c.Violate(fnKey(init)+" / watcher", init.Pos(), "no watcher goroutine re-reads the file on events")
				return
			}
			rename, _ := pkgConst(c.P, "github.com/fsnotify/fsnotify", "Rename")
			remove, _ := pkgConst(c.P, "github.com/fsnotify/fsnotify", "Remove")
			seen := map[string]bool{}
			for _, ci := range callsIn(loop) {
				cal := ci.Common().StaticCallee()
				if cal == nil {
					continue
				}
				fs := canonFacts(ci.Block())
				if cal.Name() == "Handle" && len(ci.Common().Args) == 2 && isNilConst(stripConv(ci.Common().Args[1])) {
					if _, ok := anyFact(fs, fmt.Sprintf("& %d)", rename), " == "); ok {
						seen["rename"] = true
					}
					if _, ok := anyFact(fs, fmt.Sprintf("& %d)", remove), " == "); ok {
						seen["remove"] = true
					}
				}
				if cal.Name() == "doReadAndUpdate" {
					_, notRemoved := anyFact(fs, fmt.Sprintf("& %d)", remove), " != ")
					c.Check(notRemoved, fnKey(loop)+" / other-events-reload", ci.Pos(), "doReadAndUpdate runs for every event that is not a removal")
				}
			}
			c.Check(seen["rename"], fnKey(loop)+" / rename-clears", loop.Pos(), "Rename event leads to Handle(nil)")
			// after the rename was handled (and the watch re-established) the file now at the path is read:
			// every path from the rename's Handle(nil) either returns or reaches doReadAndUpdate before the next event
			for _, ci := range callsIn(loop) {
				cal := ci.Common().StaticCallee()
				if cal == nil || cal.Name() != "Handle" || len(ci.Common().Args) != 2 || !isNilConst(stripConv(ci.Common().Args[1])) {
					continue
				}
				if _, isRename := anyFact(canonFacts(ci.Block()), fmt.Sprintf("& %d)", rename), " == "); !isRename {
					continue
				}
				ok, at := allPathsHit(ci.(ssa.Instruction), func(x ssa.Instruction) bool {
					if c2, isCall := x.(ssa.CallInstruction); isCall {
						if cl := c2.Common().StaticCallee(); cl != nil && cl.Name() == "doReadAndUpdate" {
							return true
						}
					}
					_, isRet := x.(*ssa.Return)
					return isRet
				}, func(x ssa.Instruction) bool {
					_, isSel := x.(*ssa.Select)
					return isSel
				})
				where := ""
				if !ok && at != nil {
					where = c.P.Pos(instrPos(at))
				}
				c.Check(ok, fnKey(loop)+" / rename-then-reload", ci.Pos(), "after a Rename event was handled the watcher re-reads the file before waiting for the next event (%s): a file re-created at the path in the meantime would otherwise not be loaded", where)
			}
			c.Check(seen["remove"], fnKey(loop)+" / remove-clears", loop.Pos(), "Remove event leads to Handle(nil)")
		},
	})
}

func keysOf(m map[string]string) []string {
	var out []string
	for k := range m {
		out = append(out, k)
	}
	sort.Strings(out)
	return out
}

func keysOfB(m map[string]bool) []string {
	var out []string
	for k := range m {
		out = append(out, k)
	}
	sort.Strings(out)
	return out
}

// pkgConst looks up an integer constant in any loaded package (dependencies included).
func pkgConst(P *Program, pkgPath, name string) (int64, bool) {
	for _, sp := range P.Prog.AllPackages() {
		if sp.Pkg.Path() != pkgPath {
			continue
		}
		if c, ok := sp.Pkg.Scope().Lookup(name).(*types.Const); ok {
			return constant.Int64Val(c.Val())
		}
	}
	return 0, false
}

// failedCmpFact: the fact says that a same-field comparison (or the equality helper) failed, or that the other rule is nil.
func failedCmpFact(ft Fact, cmps map[ssa.Value]string, helpers map[ssa.Value]bool) bool {
	if _, isCmp := cmps[ft.Cond]; isCmp {
		if b, ok := ft.Cond.(*ssa.BinOp); ok {
			return (b.Op == token.EQL && !ft.Truth) || (b.Op == token.NEQ && ft.Truth)
		}
		return !ft.Truth
	}
	if helpers[ft.Cond] && !ft.Truth {
		return true
	}
	if b, ok := ft.Cond.(*ssa.BinOp); ok && b.Op == token.EQL && ft.Truth && (isNilConst(b.X) || isNilConst(b.Y)) {
		return true
	}
	return false
}

// edgesJustified: every way into block b is an edge on which a same-field comparison failed
// (short-circuit evaluation of a conjunction: each failing operand jumps to the same `return false`).
func edgesJustified(b *ssa.BasicBlock, cmps map[ssa.Value]string, helpers map[ssa.Value]bool, depth int) bool {
	if depth > 3 || len(b.Preds) == 0 {
		return false
	}
	for _, p := range b.Preds {
		ok := false
		for _, ft := range edgeFact(p, b) {
			if failedCmpFact(ft, cmps, helpers) {
				ok = true
			}
		}
		if !ok && len(p.Instrs) == 1 { // forwarding block
			ok = edgesJustified(p, cmps, helpers, depth+1)
		}
		if !ok {
			return false
		}
	}
	return true
}

// phiIsConjunction: the phi is the value of `c1 && c2 && ... && cn` over same-field comparisons: every edge is either
// the constant false arriving on an edge where a comparison failed, or the last comparison itself.
func phiIsConjunction(ph *ssa.Phi, cmps map[ssa.Value]string, helpers map[ssa.Value]bool) bool {
	for i, e := range ph.Edges {
		if _, isCmp := cmps[e]; isCmp || helpers[e] {
			continue
		}
		cv, ok := e.(*ssa.Const)
		if !ok || cv.Value == nil || cv.Value.Kind() != constant.Bool || constant.BoolVal(cv.Value) {
			return false
		}
		pred := ph.Block().Preds[i]
		okEdge := false
		for _, ft := range edgeFact(pred, ph.Block()) {
			if failedCmpFact(ft, cmps, helpers) {
				okEdge = true
			}
		}
		if !okEdge && len(pred.Instrs) == 1 { // forwarding block (early `return false` of an expanded helper)
			okEdge = edgesJustified(pred, cmps, helpers, 0)
		}
		if !okEdge {
			return false
		}
	}
	return true
}

// ------------------------------------------------------------------------------------------------ path-wise coverage
// fieldRelevance: a field may be left uncompared on a path that returns "equal" only when the path has established
// that the rule's discriminator equals a built-in constant under which no generator reads the field.
// (Frozen after reading the generators: which constructor reads which rule field.)
var fieldRelevance = map[string]map[string]struct {
	disc string
	vals []string
}{
	"core/flow.(*Rule).isEqualsTo": {
		"MaxQueueingTimeMs":     {"ControlBehavior", []string{"Throttling"}},
		"WarmUpPeriodSec":       {"TokenCalculateStrategy", []string{"WarmUp"}},
		"WarmUpColdFactor":      {"TokenCalculateStrategy", []string{"WarmUp"}},
		"LowMemUsageThreshold":  {"TokenCalculateStrategy", []string{"MemoryAdaptive"}},
		"HighMemUsageThreshold": {"TokenCalculateStrategy", []string{"MemoryAdaptive"}},
		"MemLowWaterMarkBytes":  {"TokenCalculateStrategy", []string{"MemoryAdaptive"}},
		"MemHighWaterMarkBytes": {"TokenCalculateStrategy", []string{"MemoryAdaptive"}},
	},
	"core/circuitbreaker.(*Rule).isEqualsTo": {
		"MaxAllowedRtMs": {"Strategy", []string{"SlowRequestRatio"}},
	},
	"core/hotspot.(*Rule).Equals": {
		"BurstCount":        {"ControlBehavior", []string{"Reject"}},
		"MaxQueueingTimeMs": {"ControlBehavior", []string{"Throttling"}},
	},
}

type eqPath struct {
	ret     *ssa.Return
	covered map[string]bool
	disc    map[string]string // discriminator field -> constant name it was found equal to
}

// equalPaths enumerates the loop-free paths of an equality function on which it answers true, with the fields that
// were compared equal along the path (directly or by a helper) and the discriminator values established.
func equalPaths(f *ssa.Function, cmps map[ssa.Value]string, helperCover map[ssa.Value]map[string]bool) (paths []eqPath, complete bool) {
	type fact struct {
		v ssa.Value
		t bool
	}
	complete = true
	budget := 20000
	var walk func(b *ssa.BasicBlock, prev *ssa.BasicBlock, facts []fact, onPath map[*ssa.BasicBlock]bool)
	// resolve a boolean value on the current path: (constant?, value, known)
	var resolveB func(v ssa.Value, b *ssa.BasicBlock, preds map[*ssa.BasicBlock]*ssa.BasicBlock, d int) (isConst bool, cv bool, rv ssa.Value)
	resolveB = func(v ssa.Value, b *ssa.BasicBlock, preds map[*ssa.BasicBlock]*ssa.BasicBlock, d int) (bool, bool, ssa.Value) {
		if d > 6 {
			return false, false, v
		}
		switch x := v.(type) {
		case *ssa.Const:
			if x.Value != nil && x.Value.Kind() == constant.Bool {
				return true, constant.BoolVal(x.Value), nil
			}
		case *ssa.Phi:
			p := preds[x.Block()]
			for i, pb := range x.Block().Preds {
				if pb == p {
					return resolveB(x.Edges[i], b, preds, d+1)
				}
			}
		case *ssa.UnOp:
			if x.Op == token.NOT {
				ic, c, r := resolveB(x.X, b, preds, d+1)
				if ic {
					return true, !c, nil
				}
				_ = r
				return false, false, v
			}
		}
		return false, false, v
	}
	preds := map[*ssa.BasicBlock]*ssa.BasicBlock{}
	finish := func(r *ssa.Return, facts []fact) {
		p := eqPath{ret: r, covered: map[string]bool{}, disc: map[string]string{}}
		for _, ft := range facts {
			v, t := stripNot(ft.v, ft.t)
			if fld, ok := cmps[v]; ok {
				if b, isB := v.(*ssa.BinOp); isB {
					if (b.Op == token.EQL && t) || (b.Op == token.NEQ && !t) {
						p.covered[fld] = true
					}
				} else if t {
					p.covered[fld] = true
				}
				continue
			}
			if hc, ok := helperCover[v]; ok && t {
				for k := range hc {
					p.covered[k] = true
				}
				continue
			}
			// `table[x.F]` on a package-level map[K]bool that is filled once with constants: where the lookup is true, F is one
			// of the keys mapped to true
			if lk, isLk := v.(*ssa.Lookup); isLk && t && !lk.CommaOk {
				if gl, ok := lk.X.(*ssa.UnOp); ok && gl.Op == token.MUL {
					if g, ok := gl.X.(*ssa.Global); ok {
						if ld, ok := stripConv(lk.Index).(*ssa.UnOp); ok && ld.Op == token.MUL {
							if fa, ok := ld.X.(*ssa.FieldAddr); ok {
								if _, isP := fa.X.(*ssa.Parameter); isP {
									if keys, ok := constBoolMapKeys(g); ok {
										var names []string
										for _, k := range keys {
											names = append(names, constName(lk.Index.Type(), k))
										}
										sortStrings(names)
										p.disc[fieldName(fa.X.Type(), fa.Field)] = strings.Join(names, "|")
									}
								}
							}
						}
					}
				}
				continue
			}
			if b, isB := v.(*ssa.BinOp); isB && ((b.Op == token.EQL && t) || (b.Op == token.NEQ && !t)) {
				x, y := b.X, b.Y
				if _, isC := x.(*ssa.Const); isC {
					x, y = y, x
				}
				if k, ok := constInt(y); ok {
					if ld, ok := stripConv(x).(*ssa.UnOp); ok && ld.Op == token.MUL {
						if fa, ok := ld.X.(*ssa.FieldAddr); ok {
							if _, isP := fa.X.(*ssa.Parameter); isP {
								p.disc[fieldName(fa.X.Type(), fa.Field)] = constName(y.Type(), k)
							}
						}
					}
				}
			}
		}
		paths = append(paths, p)
	}
	walk = func(b *ssa.BasicBlock, prev *ssa.BasicBlock, facts []fact, onPath map[*ssa.BasicBlock]bool) {
		budget--
		if budget < 0 || onPath[b] {
			complete = complete && budget >= 0 && !onPath[b]
			return
		}
		onPath[b] = true
		preds[b] = prev
		defer func() { delete(onPath, b); delete(preds, b) }()
		last := b.Instrs[len(b.Instrs)-1]
		switch x := last.(type) {
		case *ssa.Return:
			ic, c, rv := resolveB(x.Results[0], b, preds, 0)
			if ic {
				if c {
					finish(x, facts)
				}
				return
			}
			// the result is a comparison / helper value: the function answers true iff that value is true
			finish(x, append(append([]fact{}, facts...), fact{rv, true}))
		case *ssa.If:
			ic, c, rv := resolveB(x.Cond, b, preds, 0)
			if ic {
				if c {
					walk(b.Succs[0], b, facts, onPath)
				} else {
					walk(b.Succs[1], b, facts, onPath)
				}
				return
			}
			walk(b.Succs[0], b, append(append([]fact{}, facts...), fact{rv, true}), onPath)
			walk(b.Succs[1], b, append(append([]fact{}, facts...), fact{rv, false}), onPath)
		case *ssa.Jump:
			walk(b.Succs[0], b, facts, onPath)
		default:
			complete = false
		}
	}
	if len(f.Blocks) > 0 {
		walk(f.Blocks[0], nil, nil, map[*ssa.BasicBlock]bool{})
	}
	return
}

func init() {
	register(&Rule{
		ID: "reload.equality-covers-each-path", Props: []string{"C13", "C14", "C10"}, Floor: 3,
		Doc: "on every path on which a rule equality function answers 'equal', every field of the rule has been compared equal (directly or by the helper), except the descriptive id and fields that no generator reads for the discriminator value established on that path (frozen relevance table: e.g. MaxQueueingTimeMs matters iff ControlBehavior == Throttling). A function that covers all fields somewhere but returns early on one branch treats a rule whose skipped field changed as unchanged: the old controller - e.g. with the old queueing limit - stays in force",
		Run: func(c *Ctx) {
			for _, es := range eqSpecs {
				f := c.P.Func(es.fn)
				if f == nil {
					c.AnchorLost(es.fn)
					continue
				}
				_, _, cmps := sameFieldComparisons(f)
				helperCover := map[ssa.Value]map[string]bool{}
				for _, h := range equalityHelpers(c.P, f, es.helpers) {
					hf := c.P.Func(h)
					if hf == nil {
						c.AnchorLost(h)
						continue
					}
					// the helper's own true-paths: fields covered on all of them
					_, _, hcmps := sameFieldComparisons(hf)
					hp, hcomplete := equalPaths(hf, hcmps, nil)
					var inter map[string]bool
					for _, p := range hp {
						if inter == nil {
							inter = map[string]bool{}
							for k := range p.covered {
								inter[k] = true
							}
							continue
						}
						for k := range inter {
							if !p.covered[k] {
								delete(inter, k)
							}
						}
					}
					if !hcomplete {
						inter = map[string]bool{}
					}
					for _, ci := range callsIn(f) {
						if isStaticCallTo(ci, hf) {
							if v, ok := ci.(ssa.Value); ok {
								helperCover[v] = inter
							}
						}
					}
				}
				paths, complete := equalPaths(f, cmps, helperCover)
				if !complete || len(paths) == 0 {
					c.Undecided(fnKey(f)+" / true-paths", f.Pos(), "cannot enumerate the paths of the equality function (loops or unknown terminators)")
					continue
				}
				st := namedOf(f.Params[0].Type()).Underlying().(*types.Struct)
				rel := fieldRelevance[es.fn]
				bad := ""
				for _, p := range paths {
					for i := 0; i < st.NumFields(); i++ {
						n := st.Field(i).Name()
						if p.covered[n] {
							continue
						}
						if _, ok := es.exempt[n]; ok {
							continue
						}
						if r, ok := rel[n]; ok {
							if dvs, known := p.disc[r.disc]; known {
								irrelevant := true
								for _, dv := range strings.Split(dvs, "|") { // a set of possible values: none may make the field relevant
									for _, v := range r.vals {
										if v == dv {
											irrelevant = false
										}
									}
									if _, err := fmt.Sscanf(dv, "%d", new(int)); err == nil {
										irrelevant = false // not a named built-in constant
									}
								}
								if irrelevant {
									continue
								}
							}
						}
						bad = fmt.Sprintf("%s is not compared on the path returning at %s (discriminators known there: %v)", n, c.P.Pos(p.ret.Pos()), p.disc)
					}
				}
				c.Check(bad == "", fnKey(f)+" / every-true-path-covers-all-fields", f.Pos(), "%d path(s) answer 'equal'; %s", len(paths), bad)
			}
		},
	})
}

// equalityHelpers: the frozen helper list of an equality function plus every new helper (not in the reference tree) it
// calls with the same two rules (receiver and parameter, in either order).
func equalityHelpers(P *Program, f *ssa.Function, frozen []string) []string {
	out := append([]string{}, frozen...)
	have := map[string]bool{}
	for _, h := range frozen {
		have[h] = true
	}
	if len(f.Params) < 2 {
		return out
	}
	for _, ci := range callsIn(f) {
		cal := ci.Common().StaticCallee()
		if !isNewHelper(cal) || len(ci.Common().Args) != 2 {
			continue
		}
		a0, a1 := resolve(ci.Common().Args[0]), resolve(ci.Common().Args[1])
		if (a0 == ssa.Value(f.Params[0]) && a1 == ssa.Value(f.Params[1])) || (a0 == ssa.Value(f.Params[1]) && a1 == ssa.Value(f.Params[0])) {
			k := fnKey(cal)
			if !have[k] {
				have[k] = true
				out = append(out, k)
			}
		}
	}
	return out
}

// constBoolMapKeys: g is a package-level map[K]bool that the package initialiser fills with constant keys and that
// nothing else in its package writes; it returns the keys mapped to true.
func constBoolMapKeys(g *ssa.Global) ([]int64, bool) {
	if g.Pkg == nil {
		return nil, false
	}
	ini := g.Pkg.Func("init")
	if ini == nil {
		return nil, false
	}
	var mk ssa.Value
	eachInstr(ini, func(ins ssa.Instruction) {
		if st, ok := ins.(*ssa.Store); ok && st.Addr == ssa.Value(g) {
			mk = st.Val
		}
	})
	if _, ok := mk.(*ssa.MakeMap); !ok {
		return nil, false
	}
	var keys []int64
	good := true
	eachInstr(ini, func(ins ssa.Instruction) {
		if mu, ok := ins.(*ssa.MapUpdate); ok && mu.Map == mk {
			k, okK := constInt(mu.Key)
			v, okV := mu.Value.(*ssa.Const)
			if !okK || !okV || v.Value == nil || v.Value.Kind() != constant.Bool {
				good = false
				return
			}
			if constant.BoolVal(v.Value) {
				keys = append(keys, k)
			}
		}
	})
	// no other writer
	for _, m := range g.Pkg.Members {
		f, ok := m.(*ssa.Function)
		if !ok {
			continue
		}
		for _, fn := range withAnon(f) {
			eachInstr(fn, func(ins ssa.Instruction) {
				switch x := ins.(type) {
				case *ssa.Store:
					if x.Addr == ssa.Value(g) && fn != ini {
						good = false
					}
				case *ssa.MapUpdate:
					if ld, ok := x.Map.(*ssa.UnOp); ok && ld.X == ssa.Value(g) {
						good = false
					}
				}
			})
		}
	}
	return keys, good
}
