package main

import (
	"fmt"
	"go/token"
	"go/types"
	"strings"

	"golang.org/x/tools/go/ssa"
)

// Rules added after the first round of independently seeded changes (DESIGN.md section 9): each is a structural
// necessary condition that the seeded change violated and the earlier rules did not look at.

func init() {
	register(&Rule{
		ID: "reload.reused-at-most-once", Props: []string{"C02", "C14"}, Floor: 6,
		Doc: "in the three controller / breaker builders an old object that was matched (equal rule: reused as a whole; statistic-reusable rule: its statistic handed to the generator) is removed from the candidate list (append(old[:i], old[i+1:]...) with i the matched index) before the next rule is processed: no two new controllers share one old controller or one statistic (a shared standalone window would be incremented once per sharing controller for every admitted request)",
		Run: func(c *Ctx) {
			builders := []string{"core/flow.buildResourceTrafficShapingController", "core/hotspot.buildResourceTrafficShapingController", "core/circuitbreaker.BuildResourceCircuitBreaker"}
			for _, bn := range builders {
				f := c.P.Func(bn)
				if f == nil {
					c.AnchorLost(bn)
					continue
				}
				var eqIdx, reuseIdx ssa.Value
				eachInstr(f, func(ins ssa.Instruction) {
					if ex, ok := ins.(*ssa.Extract); ok {
						if call, ok := ex.Tuple.(*ssa.Call); ok && call.Call.StaticCallee() != nil && call.Call.StaticCallee().Name() == "calculateReuseIndexFor" {
							if ex.Index == 0 {
								eqIdx = ex
							} else if ex.Index == 1 {
								reuseIdx = ex
							}
						}
					}
				})
				if eqIdx == nil || reuseIdx == nil {
					c.AnchorLost(bn + " reuse indices")
					continue
				}
				// removal: append(X[:i], X[i+1:]...)
				removed := map[ssa.Value]bool{}
				eachInstr(f, func(ins ssa.Instruction) {
					call, ok := ins.(*ssa.Call)
					if !ok {
						return
					}
					b, ok := call.Call.Value.(*ssa.Builtin)
					if !ok || b.Name() != "append" || len(call.Call.Args) != 2 {
						return
					}
					s0, ok0 := call.Call.Args[0].(*ssa.Slice)
					s1, ok1 := call.Call.Args[1].(*ssa.Slice)
					if !ok0 || !ok1 || s0.High == nil || s1.Low == nil {
						return
					}
					lo, ok := s1.Low.(*ssa.BinOp)
					if !ok || lo.Op != token.ADD || lo.X != s0.High {
						return
					}
					if k, ok := constInt(lo.Y); !ok || k != 1 {
						return
					}
					removed[s0.High] = true
				})
				c.Check(removed[eqIdx], fnKey(f)+" / equal-old-removed", f.Pos(), "the old object reused for an equal rule is removed from the candidates (old = append(old[:equalIdx], old[equalIdx+1:]...))")
				c.Check(removed[reuseIdx], fnKey(f)+" / stat-donor-removed", f.Pos(), "the old object whose statistic was handed to the generator is removed from the candidates: otherwise a second new rule receives the same statistic and the window is incremented twice per admitted request")
			}
		},
	})

	register(&Rule{
		ID: "cb.trip-check-on-closed-completion", Props: []string{"C03"}, Floor: 3,
		Doc: "in every OnRequestComplete of core/circuitbreaker, every path from the recording of the completion (the totalCount increment) to a return either handles the Open / HalfOpen state or evaluates the minimum-request-amount test (and hence the threshold test) - no completion recorded while the breaker is closed skips the trip decision",
		Run: func(c *Ctx) {
			ifn := c.P.Named(cbPkg + ".CircuitBreaker")
			if ifn == nil {
				c.AnchorLost("CircuitBreaker")
				return
			}
			names := cbStateNames(c.P)
			for _, f := range c.P.Implementations(ifn.Underlying().(*types.Interface), "OnRequestComplete") {
				if relPkg(fnPkgPath(f)) != cbPkg {
					continue
				}
				var inc ssa.Instruction
				for _, ci := range callsIn(f) {
					if an, ok := atomicFuncName(ci); ok && strings.HasPrefix(an, "Add") && strings.HasSuffix(accessPath(ci.Common().Args[0]), ".totalCount") {
						inc = ci.(ssa.Instruction)
					}
				}
				if inc == nil {
					c.Violate(fnKey(f)+" / records", f.Pos(), "OnRequestComplete no longer counts the completion")
					continue
				}
				stateHandled := func(b *ssa.BasicBlock) bool {
					for _, ft := range condFacts(b) {
						bo, ok := ft.Cond.(*ssa.BinOp)
						if !ok || bo.Op != token.EQL || !ft.Truth {
							continue
						}
						if k, ok := constInt(bo.Y); ok && (names[k] == "Open" || names[k] == "HalfOpen") {
							return true
						}
						if k, ok := constInt(bo.X); ok && (names[k] == "Open" || names[k] == "HalfOpen") {
							return true
						}
					}
					return false
				}
				ok, at := allPathsHit(inc, func(x ssa.Instruction) bool {
					if u, isU := x.(*ssa.UnOp); isU && u.Op == token.MUL {
						if fa, isFa := u.X.(*ssa.FieldAddr); isFa && fieldName(fa.X.Type(), fa.Field) == "minRequestAmount" {
							return true
						}
					}
					if r, isR := x.(*ssa.Return); isR && stateHandled(r.Block()) {
						return true
					}
					return false
				}, nil)
				if ok {
					c.Hold(fnKey(f)+" / trip-check-reached", inc.Pos(), "every closed-state completion reaches the minimum-amount / threshold test")
				} else {
					c.Violate(fnKey(f)+" / trip-check-reached", instrPos(at), "a completion recorded while the breaker is closed returns without evaluating the trip condition: if this completion is the one that makes 'window >= minimum and ratio/count >= threshold' true (e.g. a good request that supplies the missing minimum amount, or after old successes expired) the breaker stays closed")
				}
			}
		},
	})

	register(&Rule{
		ID: "hotspot.cache-recency", Props: []string{"C05"}, Floor: 2,
		Doc: "LruCacheMap.Get and LruCacheMap.AddIfAbsent obtain the value they return on a hit from an LRU method that refreshes the entry's recency (reaches container/list MoveToFront): the value that is being metered stays the most recently used one, so traffic on other values can only evict idle values",
		Run: func(c *Ctx) {
			cm := c.P.Named("core/hotspot/cache.LruCacheMap")
			lru := c.P.Named("core/hotspot/cache.LRU")
			if cm == nil || lru == nil {
				c.AnchorLost("cache.LruCacheMap / LRU")
				return
			}
			refreshes := func(m *ssa.Function) bool {
				for _, ci := range callsIn(m) {
					if isExtCall(ci, "container/list.(List).MoveToFront") {
						return true
					}
				}
				return false
			}
			for _, name := range []string{"Get", "AddIfAbsent"} {
				f := c.P.Func("core/hotspot/cache.(*LruCacheMap)." + name)
				if f == nil {
					c.AnchorLost("LruCacheMap." + name)
					continue
				}
				n := 0
				for _, r := range returnsOf(f) {
					for _, cs := range returnValueCases(r, 0) {
						if isNilConst(cs.val) {
							continue
						}
						n++
						// origin call on the LRU
						var origin *ssa.Function
						var walk func(v ssa.Value, d int)
						walk = func(v ssa.Value, d int) {
							if d > 6 || origin != nil {
								return
							}
							switch x := stripConv(v).(type) {
							case *ssa.TypeAssert:
								walk(x.X, d+1)
							case *ssa.Extract:
								walk(x.Tuple, d+1)
							case *ssa.Call:
								if cal := x.Call.StaticCallee(); cal != nil && cal.Signature.Recv() != nil && namedOf(cal.Signature.Recv().Type()) == lru {
									origin = cal
								}
							case *ssa.UnOp:
								if al, ok := x.X.(*ssa.Alloc); ok {
									for _, ref := range refsOf(al) {
										if st, ok := ref.(*ssa.Store); ok && st.Addr == ssa.Value(al) {
											walk(st.Val, d+1)
										}
									}
								}
							case *ssa.Phi:
								for _, e := range x.Edges {
									walk(e, d+1)
								}
							}
						}
						walk(cs.val, 0)
						key := fmt.Sprintf("%s / hit-value#%d", fnKey(f), n)
						if origin == nil {
							c.Undecided(key, r.Pos(), "origin of the returned value %s not recognised", accessPath(cs.val))
							continue
						}
						c.Check(refreshes(origin), key, r.Pos(), "the value returned on a hit comes from LRU.%s, which %s the entry's recency", origin.Name(), map[bool]string{true: "refreshes", false: "does NOT refresh"}[refreshes(origin)])
					}
				}
				if n == 0 {
					c.Violate(fnKey(f)+" / hit-value", f.Pos(), "no hit path found")
				}
			}
		},
	})

	register(&Rule{
		ID: "window.collectors-visit-all", Props: []string{"C08"}, Floor: 2,
		Doc: "the functions that collect buckets from the circular array (valuesWithTime, ValuesConditional) leave their scan loop only through the loop condition: no break / return from inside the loop, so a stale or expired slot cannot hide valid buckets behind it",
		Run: func(c *Ctx) {
			get := c.P.Func(sbPkg + ".(*AtomicBucketWrapArray).get")
			if get == nil {
				c.AnchorLost("AtomicBucketWrapArray.get")
				return
			}
			for _, ci := range c.P.StaticCallers(get) {
				f := ci.Parent()
				if isTestOrExample(f) || f.Name() == "currentBucketOfTime" {
					continue
				}
				blk := ci.Block()
				loops := loopBlocks(f)
				if !loops[blk] {
					c.Info(fnKey(f)+" / scan-loop", ci.Pos(), "bucket fetched outside a loop")
					continue
				}
				// the natural loop containing blk: blocks that reach blk and are reached from blk
				reachFrom := blockReach(blk)
				inLoop := map[*ssa.BasicBlock]bool{blk: true}
				for _, b := range f.Blocks {
					if reachFrom[b] && blockReach(b)[blk] {
						inLoop[b] = true
					}
				}
				// header: the loop block that dominates all loop blocks
				var header *ssa.BasicBlock
				for b := range inLoop {
					dom := true
					for o := range inLoop {
						if !b.Dominates(o) {
							dom = false
						}
					}
					if dom {
						header = b
					}
				}
				bad := ""
				for b := range inLoop {
					for _, s := range b.Succs {
						if !inLoop[s] && b != header {
							bad = c.P.Pos(instrPos(b.Instrs[len(b.Instrs)-1]))
						}
					}
					for _, ins := range b.Instrs {
						if _, ok := ins.(*ssa.Return); ok {
							bad = c.P.Pos(instrPos(ins))
						}
					}
				}
				c.Check(bad == "" && header != nil, fnKey(f)+" / scan-loop-exits", ci.Pos(), "the scan over the circular array is left only through its loop condition (early exit at %s)", bad)
			}
		},
	})

	register(&Rule{
		ID: "window.start-writers", Props: []string{"C09"}, Floor: 3,
		Doc: "BucketWrap.BucketStart is written (atomic Store / Swap / CompareAndSwap / Add) only inside BucketGenerator.ResetBucketTo implementations, i.e. after the bucket's data was cleared (window.reset-before-publish), or by plain stores into freshly allocated wraps: nobody else can publish a new start time over stale data",
		Run: func(c *Ctx) {
			bg := bucketGeneratorIface(c.P)
			if bg == nil {
				c.AnchorLost("BucketGenerator")
				return
			}
			resetters := map[*ssa.Function]bool{}
			for _, f := range c.P.Implementations(bg, "ResetBucketTo") {
				resetters[f] = true
			}
			n := 0
			for _, f := range c.P.ModuleFuncs() {
				if isTestOrExample(f) || !c.P.LiveFuncs()[f] {
					continue
				}
				for _, ci := range callsIn(f) {
					an, ok := atomicFuncName(ci)
					if !ok || strings.HasPrefix(an, "Load") || !isBucketStartAddr(ci.Common().Args[0]) {
						continue
					}
					n++
					c.Check(resetters[f], fmt.Sprintf("%s / atomic.%s(BucketStart)#%d", fnKey(f), an, n), ci.Pos(), "the bucket start is published outside a ResetBucketTo implementation: a reader can see the new start time before the previous cycle's data is cleared")
				}
			}
		},
	})

	register(&Rule{
		ID: "throttling.cas-spacing", Props: []string{"C10"}, Floor: 1,
		Doc: "every CompareAndSwap on the throttling checker's lastPassedTime that admits a request is dominated by the spacing test on the very values it swaps: (old + interval) <= new, with `old` the CAS's expected value and `new` the value stored (a retry with a re-loaded `old` must re-check the spacing)",
		Run: func(c *Ctx) {
			f := c.P.Func("core/flow.(*ThrottlingChecker).DoCheck")
			if f == nil {
				c.AnchorLost("ThrottlingChecker.DoCheck")
				return
			}
			n := 0
			for _, ci := range callsIn(f) {
				an, ok := atomicFuncName(ci)
				if !ok || !strings.HasPrefix(an, "CompareAndSwap") || !strings.HasSuffix(accessPath(ci.Common().Args[0]), ".lastPassedTime") {
					continue
				}
				n++
				old, nw := ci.Common().Args[1], ci.Common().Args[2]
				okS := false
				for _, ft := range factsAt(ci.(ssa.Instruction)) {
					b, isB := ft.Cond.(*ssa.BinOp)
					if !isB {
						continue
					}
					lhs, rhs, op, truth := b.X, b.Y, b.Op, ft.Truth
					// normalise to lhs <= rhs (true)
					switch {
					case op == token.LEQ && truth:
					case op == token.GEQ && truth:
						lhs, rhs = rhs, lhs
					case op == token.GTR && !truth:
					case op == token.LSS && !truth:
						lhs, rhs = rhs, lhs
					default:
						continue
					}
					sum, isSum := lhs.(*ssa.BinOp)
					if !isSum || sum.Op != token.ADD || (sum.X != old && sum.Y != old) {
						continue
					}
					if rhs == nw {
						okS = true
					}
				}
				c.Check(okS, fmt.Sprintf("%s / CAS(lastPassedTime)#%d", fnKey(f), n), ci.Pos(), "the admitting CAS replaces `%s` by `%s` under a dominating (old + interval) <= new test on these same values: %v", accessPath(old), accessPath(nw), okS)
			}
			if n == 0 {
				c.Info(fnKey(f)+" / CAS(lastPassedTime)", f.Pos(), "no CAS fast path")
			}
		},
	})

	register(&Rule{
		ID: "cb.deadline-store-unconditional", Props: []string{"C12", "C03"}, Floor: 1,
		Doc: "circuitBreakerBase.updateNextRetryTimestamp stores now + retryTimeoutMs into nextRetryTimestampMs with an atomic Store on every path (no branch, no CAS that may keep an older deadline): every opening gets a deadline a full retry timeout after it",
		Run: func(c *Ctx) {
			f := c.P.Func(cbPkg + ".(*circuitBreakerBase).updateNextRetryTimestamp")
			if f == nil {
				c.AnchorLost("updateNextRetryTimestamp")
				return
			}
			ok := false
			detail := "no atomic store"
			for _, ci := range callsIn(f) {
				an, isA := atomicFuncName(ci)
				if !isA || !strings.HasSuffix(accessPath(ci.Common().Args[0]), ".nextRetryTimestampMs") {
					continue
				}
				if !strings.HasPrefix(an, "Store") {
					detail = "deadline written with " + an + " (may keep an older deadline)"
					continue
				}
				v := accessPath(ci.Common().Args[1])
				uncond := len(condFacts(ci.Block())) == 0
				allRet := true
				for _, r := range returnsOf(f) {
					if !instrDominates(ci.(ssa.Instruction), r) {
						allRet = false
					}
				}
				if uncond && allRet && strings.Contains(v, "CurrentTimeMillis()") && strings.Contains(v, "retryTimeoutMs") && strings.Contains(v, " + ") {
					ok = true
				} else {
					detail = fmt.Sprintf("store of %s, unconditional=%v, on every path=%v", v, uncond, allRet)
				}
			}
			c.Check(ok, fnKey(f)+" / unconditional-store", f.Pos(), "deadline = now + retryTimeoutMs stored on every path (%s)", map[bool]string{true: "ok", false: detail}[ok])
		},
	})

	register(&Rule{
		ID: "datasource.updater-after-consistency", Props: []string{"C18"}, Floor: 1,
		Doc: "in DefaultPropertyHandler.Handle every invocation of the updater is dominated by the isPropertyConsistent call on the converted property (which records it as the last applied one): the handler's memory of 'what is in force' changes whenever the rules do, so a later delivery is skipped only if it really equals what is applied",
		Run: func(c *Ctx) {
			h := c.P.Func("ext/datasource.(*DefaultPropertyHandler).Handle")
			cons := c.P.Func("ext/datasource.(*DefaultPropertyHandler).isPropertyConsistent")
			if h == nil || cons == nil {
				c.AnchorLost("DefaultPropertyHandler.Handle / isPropertyConsistent")
				return
			}
			var consCall ssa.Instruction
			for _, ci := range callsIn(h) {
				if isStaticCallTo(ci, cons) {
					consCall = ci.(ssa.Instruction)
				}
			}
			n := 0
			for _, ci := range callsIn(h) {
				cc := ci.Common()
				if cc.StaticCallee() != nil || cc.IsInvoke() {
					continue
				}
				if !strings.HasSuffix(accessPath(cc.Value), ".updater") {
					continue
				}
				n++
				ok := consCall != nil && instrDominates(consCall, ci.(ssa.Instruction))
				c.Check(ok, fmt.Sprintf("%s / updater#%d", fnKey(h), n), ci.Pos(), "the updater runs only after isPropertyConsistent recorded the property being applied")
			}
			if n == 0 {
				c.Violate(fnKey(h)+" / updater", h.Pos(), "Handle never invokes the updater")
			}
		},
	})

	register(&Rule{
		ID: "outlier.lists-always-set", Props: []string{"C20"}, Floor: 1,
		Doc: "in outlier.Slot.Check every return after the node check is dominated by SetFilterNodes and SetHalfOpenNodes on the result: the pooled TokenResult keeps these lists across requests, so a path that skips the stores reports a previous request's nodes",
		Run: func(c *Ctx) {
			f := c.P.Func("core/outlier.(*Slot).Check")
			can := c.P.Func("core/outlier.checkAllNodes")
			if f == nil || can == nil {
				c.AnchorLost("outlier.Slot.Check / checkAllNodes")
				return
			}
			var chk, setF, setH ssa.Instruction
			for _, ci := range callsIn(f) {
				cal := ci.Common().StaticCallee()
				if cal == nil {
					continue
				}
				switch {
				case cal == can:
					chk = ci.(ssa.Instruction)
				case cal.Name() == "SetFilterNodes":
					setF = ci.(ssa.Instruction)
				case cal.Name() == "SetHalfOpenNodes":
					setH = ci.(ssa.Instruction)
				}
			}
			if chk == nil {
				c.Violate(fnKey(f)+" / node-check", f.Pos(), "the slot no longer evaluates the nodes")
				return
			}
			n := 0
			for _, r := range returnsOf(f) {
				if !instrReaches(chk, r) {
					continue
				}
				n++
				ok := setF != nil && setH != nil && instrDominates(setF, r) && instrDominates(setH, r)
				c.Check(ok, fmt.Sprintf("%s / return#%d / lists-set", fnKey(f), n), r.Pos(), "filter and half-open lists are (re)written on every path that returns after the node check")
			}
		},
	})
}
