package main

import (
	"fmt"
	"go/token"
	"go/types"
	"strings"

	"golang.org/x/tools/go/ssa"
)

// entry.context-written-only-while-owned (C01): "late calls on an already-exited entry change nothing for any entry".
// The first Exit returns the entry's context to the pool, from where the next Entry takes it. Every method of
// *SentinelEntry that writes into the entry's context (TraceError -> SetError, TraceCallee -> SetPair) must therefore
// be guarded by a flag of the entry that the first Exit sets before it recycles the context.

// ctxMutators: for a module function and a parameter index, does the function write into the object the parameter
// points to (field store, map update on a field's map, atomic store to a field, or a call that does)?
type ctxMutIndex struct {
	memo map[string]int // 0 unknown, 1 in progress, 2 no, 3 yes
}

func (ix *ctxMutIndex) mutates(fn *ssa.Function, pi int, depth int) bool {
	if fn == nil || len(fn.Blocks) == 0 || pi >= len(fn.Params) || depth > 6 {
		return fn != nil && len(fn.Blocks) == 0 // unknown body: assume it writes
	}
	k := fmt.Sprintf("%p/%d", fn, pi)
	switch ix.memo[k] {
	case 1, 2:
		return false
	case 3:
		return true
	}
	ix.memo[k] = 1
	p := ssa.Value(fn.Params[pi])
	rooted := func(v ssa.Value) bool {
		// v is an address inside *p, or a map / pointer loaded from a field of *p
		for i := 0; i < 8; i++ {
			v = resolve(v)
			switch x := v.(type) {
			case *ssa.FieldAddr:
				if resolve(x.X) == p {
					return true
				}
				v = x.X
			case *ssa.IndexAddr:
				v = x.X
			case *ssa.UnOp:
				if x.Op != token.MUL {
					return false
				}
				v = x.X
			default:
				return v == p
			}
		}
		return false
	}
	res := false
	eachInstr(fn, func(ins ssa.Instruction) {
		if res {
			return
		}
		switch x := ins.(type) {
		case *ssa.Store:
			if _, ok := resolve(x.Addr).(*ssa.Alloc); !ok && rooted(x.Addr) && resolve(x.Addr) != p {
				res = true
			}
		case *ssa.MapUpdate:
			if rooted(x.Map) {
				res = true
			}
		case ssa.CallInstruction:
			cc := x.Common()
			if _, ok := atomicFuncName(x); ok && len(cc.Args) > 0 && rooted(cc.Args[0]) {
				if n, _ := atomicFuncName(x); !strings.HasPrefix(n, "Load") {
					res = true
				}
				return
			}
			if b, ok := cc.Value.(*ssa.Builtin); ok && (b.Name() == "delete" || b.Name() == "clear") && len(cc.Args) > 0 && rooted(cc.Args[0]) {
				res = true
				return
			}
			cal := cc.StaticCallee()
			for ai, a := range cc.Args {
				if resolve(a) != p {
					continue
				}
				if cal == nil || !inModule(fnPkgPath(cal)) {
					if cc.IsInvoke() || cal == nil {
						res = true // handed to unknown code
					}
					continue
				}
				if ix.mutates(cal, ai, depth+1) {
					res = true
				}
			}
		}
	})
	if res {
		ix.memo[k] = 3
	} else {
		ix.memo[k] = 2
	}
	return res
}

func init() {
	register(&Rule{
		ID: "entry.context-written-only-while-owned", Props: []string{"C01"}, Floor: 3,
		Doc: "every method of *SentinelEntry other than Exit that writes into the entry's context (SetError, SetPair, …: a callee that stores through the context it is given) does so only under a test of an ownership marker of the entry (an atomically read flag, or the entry's context field being non-nil), and the Once closure of Exit sets that marker (atomic store of a non-zero constant, or ctx = nil) on every path before RefurbishContext returns the context to the pool: TraceError / TraceCallee on an already exited entry must not write into a context that now belongs to another entry",
		Run: func(c *Ctx) {
			exit := c.P.Func("core/base.(*SentinelEntry).Exit")
			ref := c.P.Func("core/base.(*SlotChain).RefurbishContext")
			if exit == nil || ref == nil {
				c.AnchorLost("Exit/RefurbishContext")
				return
			}
			isEntry := func(v ssa.Value) bool { return typeIs(resolve(v).Type(), "core/base", "SentinelEntry") }
			// flag field written atomically with a non-zero constant (or Store(true)) through an address e.<F>
			flagStore := func(ins ssa.Instruction) *types.Var {
				// alternative marker: the entry forgets its context (e.ctx = nil)
				if st, ok := ins.(*ssa.Store); ok {
					if fa, ok := resolve(st.Addr).(*ssa.FieldAddr); ok && isEntry(fa.X) && isNilConst(st.Val) {
						if pt, ok := fa.Type().(*types.Pointer); ok && typeIs(pt.Elem(), "core/base", "EntryContext") {
							return fieldVar(fa)
						}
					}
					return nil
				}
				ci, ok := ins.(ssa.CallInstruction)
				if !ok {
					return nil
				}
				cc := ci.Common()
				var addr, val ssa.Value
				if n, ok := atomicFuncName(ci); ok && strings.HasPrefix(n, "Store") && len(cc.Args) == 2 {
					addr, val = cc.Args[0], cc.Args[1]
				} else if cal := cc.StaticCallee(); cal != nil && strings.HasPrefix(extFuncName(cal), "sync/atomic.(") && cal.Name() == "Store" && len(cc.Args) == 2 {
					addr, val = cc.Args[0], cc.Args[1]
				} else {
					return nil
				}
				fa, ok := resolve(addr).(*ssa.FieldAddr)
				if !ok || !isEntry(fa.X) {
					return nil
				}
				if k, ok := resolve(val).(*ssa.Const); !ok || k.Value == nil || k.Value.String() == "0" || k.Value.String() == "false" {
					return nil
				}
				return fieldVar(fa)
			}
			scope := withNewHelpers(withAnon(exit))
			seen := map[*ssa.Function]bool{}
			for _, g := range scope {
				seen[g] = true
			}
			for _, g := range append([]*ssa.Function{}, scope...) {
				eachInstr(g, func(ins ssa.Instruction) {
					if d, ok := ins.(*ssa.Defer); ok {
						if cal := d.Call.StaticCallee(); cal != nil && cal.Parent() == nil && relPkg(fnPkgPath(cal)) == "core/base" && !seen[cal] {
							seen[cal] = true
							scope = append(scope, cal)
						}
					}
				})
			}
			flags := map[*types.Var]bool{}
			nref := 0
			for _, g := range scope {
				for _, ci := range callsIn(g) {
					if !isStaticCallTo(ci, ref) {
						continue
					}
					nref++
					key := fmt.Sprintf("%s / flag-before-recycle#%d", fnKey(g), nref)
					var fv *types.Var
					ok := mustBeforeInstr(ci.(ssa.Instruction), func(ins ssa.Instruction) bool {
						if v := flagStore(ins); v != nil {
							fv = v
							return true
						}
						return false
					}, nil)
					if ok && fv != nil {
						flags[fv] = true
						c.Hold(key, ci.Pos(), "the entry's flag %s is set atomically on every path before the context is recycled", fv.Name())
					} else {
						c.Violate(key, ci.Pos(), "the context is handed back to the pool without the entry recording (an atomically written flag, or clearing its context field) that it no longer owns it: nothing can stop a late TraceError / TraceCallee from writing into the next owner's context")
					}
				}
			}
			if nref == 0 {
				c.AnchorLost("RefurbishContext call in SentinelEntry.Exit")
				return
			}
			// guarded(b): a dominating fact "atomic load of e.<flag> is zero / false"
			guarded := func(b *ssa.BasicBlock) bool {
				for _, f := range condFacts(b) {
					cond, truth := f.Cond, f.Truth
					var load ssa.Value
					wantZero := false
					if bo, ok := cond.(*ssa.BinOp); ok && (bo.Op == token.EQL || bo.Op == token.NEQ) {
						x, y := resolve(bo.X), resolve(bo.Y)
						if k, ok := x.(*ssa.Const); ok {
							x, y = y, ssa.Value(k)
						}
						k, ok := y.(*ssa.Const)
						if !ok || (k.Value == nil && !k.IsNil()) {
							continue
						}
						// the entry's context field is known non-nil, and the first Exit clears that field
						if k.IsNil() {
							if u, ok := x.(*ssa.UnOp); ok && u.Op == token.MUL && (bo.Op == token.NEQ) == truth {
								if fa, ok := resolve(u.X).(*ssa.FieldAddr); ok && isEntry(fa.X) && flags[fieldVar(fa)] {
									return true
								}
							}
							continue
						}
						isZero := k.Value.String() == "0" || k.Value.String() == "false"
						// (load == 0) true, (load != 0) false  => zero;   (load == nz) false / (load != nz) true => not provably zero
						if !isZero {
							continue
						}
						wantZero = (bo.Op == token.EQL) == truth
						load = x
					} else {
						// boolean load: !e.flag.Load()
						load = cond
						wantZero = !truth
					}
					if !wantZero {
						continue
					}
					ci, ok := resolve(load).(*ssa.Call)
					if !ok || len(ci.Call.Args) == 0 {
						continue
					}
					n, isAt := atomicFuncName(ci)
					isMeth := false
					if cal := ci.Call.StaticCallee(); cal != nil && strings.HasPrefix(extFuncName(cal), "sync/atomic.(") && cal.Name() == "Load" {
						isMeth = true
					}
					if !(isAt && strings.HasPrefix(n, "Load")) && !isMeth {
						continue
					}
					if fa, ok := resolve(ci.Call.Args[0]).(*ssa.FieldAddr); ok && isEntry(fa.X) && flags[fieldVar(fa)] {
						return true
					}
				}
				return false
			}
			ix := &ctxMutIndex{memo: map[string]int{}}
			inExit := map[*ssa.Function]bool{}
			for _, g := range scope {
				inExit[g] = true
			}
			nw := 0
			for _, m := range c.P.FuncsIn(modPath + "/core/base") {
				top := m
				for top.Parent() != nil {
					top = top.Parent()
				}
				if inExit[m] || inExit[top] || top.Signature.Recv() == nil || !typeIs(top.Signature.Recv().Type(), "core/base", "SentinelEntry") {
					continue
				}
				// values that are the entry's context: loads of e.<field of type *EntryContext>
				isCtx := func(v ssa.Value) bool {
					u, ok := resolve(v).(*ssa.UnOp)
					if !ok || u.Op != token.MUL || !typeIs(u.Type(), "core/base", "EntryContext") {
						return false
					}
					fa, ok := resolve(u.X).(*ssa.FieldAddr)
					return ok && isEntry(fa.X)
				}
				eachInstr(m, func(ins ssa.Instruction) {
					what := ""
					switch x := ins.(type) {
					case *ssa.Store:
						if fa, ok := resolve(x.Addr).(*ssa.FieldAddr); ok && isCtx(fa.X) {
							what = "a store to a field of the context"
						}
					case ssa.CallInstruction:
						cc := x.Common()
						cal := cc.StaticCallee()
						for ai, a := range cc.Args {
							if !isCtx(a) {
								continue
							}
							if cal == nil || !inModule(fnPkgPath(cal)) || ix.mutates(cal, ai, 0) {
								what = calleeDesc(x) + ", which writes into the context it is given"
							}
						}
					}
					if what == "" {
						return
					}
					nw++
					key := fmt.Sprintf("%s / context-write#%d", fnKey(m), nw)
					if guarded(ins.Block()) {
						c.Hold(key, instrPos(ins), "%s runs only while the entry's exited flag reads zero", what)
					} else {
						c.Violate(key, instrPos(ins), "%s is not guarded by the entry's exited flag: called on an entry whose first Exit has already run (late TraceError / TraceCallee), it writes into a recycled context that may now belong to another entry, whose completion is then recorded with this error / these pairs", what)
					}
				})
			}
		},
	})
}

func init() {
	register(&Rule{
		ID: "entry.exit-reaches-chain", Props: []string{"C16", "C01"}, Floor: 1,
		Doc: "inside the Once closure of SentinelEntry.Exit every non-panicking path on which the entry has a slot chain reaches the chain's exit (which reports completion to the statistic slots): nothing the exit handlers return makes Exit skip it, so a passed entry is told complete exactly once",
		Run: func(c *Ctx) {
			exit := c.P.Func("core/base.(*SentinelEntry).Exit")
			scExit := c.P.Func("core/base.(*SlotChain).exit")
			if exit == nil || scExit == nil {
				c.AnchorLost("SentinelEntry.Exit / SlotChain.exit")
				return
			}
			n := 0
			for _, g := range withNewHelpers(withAnon(exit)) {
				calls := false
				for _, ci := range callsIn(g) {
					if isStaticCallTo(ci, scExit) {
						calls = true
					}
				}
				if !calls || len(g.Blocks) == 0 || len(g.Blocks[0].Instrs) == 0 {
					continue
				}
				n++
				// the chain field of the entry, as this function names it
				scPath := ""
				for _, ci := range callsIn(g) {
					if isStaticCallTo(ci, scExit) {
						scPath = accessPath(ci.Common().Args[0])
					}
				}
				first := g.Blocks[0].Instrs[0]
				hit := func(ins ssa.Instruction) bool {
					ci, ok := ins.(ssa.CallInstruction)
					return ok && isStaticCallTo(ci, scExit)
				}
				ok, at := mustPassAssuming(first, nilTestDecider(scPath, false), func(ins ssa.Instruction) bool { return ins == first && hit(ins) || hit(ins) })
				where := ""
				if at != nil {
					where = c.P.Pos(at.Pos())
				}
				c.Check(ok, fnKey(g)+" / chain-exit-on-every-path", g.Pos(), "every return of the function that completes the entry is preceded by %s.exit(ctx) when the chain is set (offending return: %s): a handler result or any other condition must not skip the completion callbacks", scPath, where)
			}
			if n == 0 {
				c.Violate(fnKey(exit)+" / chain-exit", exit.Pos(), "SentinelEntry.Exit never calls the slot chain's exit: passed entries are never completed")
			}
		},
	})
}
