package main

import (
	"fmt"
	"go/constant"
	"go/token"
	"go/types"
	"sort"
	"strings"

	"golang.org/x/tools/go/ssa"
)

// Circuit breaker rules: C03, C12.

const cbPkg = "core/circuitbreaker"

type casSite struct {
	call     *ssa.Call
	fn       *ssa.Function
	from, to string
	ok       bool // constants resolved
}

func cbStateNames(P *Program) map[int64]string {
	out := map[int64]string{}
	pk := P.ByPath[modPath+"/"+cbPkg]
	if pk == nil {
		return out
	}
	st := P.Named(cbPkg + ".State")
	sc := pk.Types.Scope()
	for _, n := range sc.Names() {
		if c, ok := sc.Lookup(n).(*types.Const); ok && st != nil && types.Identical(c.Type(), st) {
			if v, ok := constant.Int64Val(c.Val()); ok {
				out[v] = n
			}
		}
	}
	return out
}

func cbCasSites(P *Program) (*ssa.Function, []casSite) {
	cas := P.Func(cbPkg + ".(*State).cas")
	if cas == nil {
		return nil, nil
	}
	names := cbStateNames(P)
	var out []casSite
	for _, ci := range P.StaticCallers(cas) {
		c, ok := ci.(*ssa.Call)
		if !ok {
			out = append(out, casSite{fn: ci.Parent()})
			continue
		}
		s := casSite{call: c, fn: c.Parent()}
		a, okA := constInt(c.Call.Args[1])
		b, okB := constInt(c.Call.Args[2])
		if okA && okB {
			s.from, s.to, s.ok = names[a], names[b], names[a] != "" && names[b] != ""
		}
		out = append(out, s)
	}
	sort.Slice(out, func(i, j int) bool {
		return fnKey(out[i].fn)+out[i].from+out[i].to < fnKey(out[j].fn)+out[j].from+out[j].to
	})
	return cas, out
}

// successFact reports whether block b is dominated by the true-branch of call c (a bool-valued call).
func dominatedByTrue(b *ssa.BasicBlock, c ssa.Value) bool {
	for _, f := range condFacts(b) {
		if f.Cond == c && f.Truth {
			return true
		}
	}
	return false
}

// unconditionalWithin: ins executes whenever the true-branch of cond is taken (no further branch facts other
// than those already holding at the branch, loop headers of range loops excepted).
func unconditionalAfter(ins ssa.Instruction, cond ssa.Value) bool {
	var base []Fact
	var ifBlock *ssa.BasicBlock
	for _, f := range condFacts(ins.Block()) {
		if f.Cond == cond && f.Truth {
			ifBlock = f.If.Block()
		}
	}
	if ifBlock == nil {
		return false
	}
	base = condFacts(ifBlock)
	have := map[string]bool{}
	for _, f := range base {
		have[fmt.Sprintf("%p/%v", f.Cond, f.Truth)] = true
	}
	for _, f := range condFacts(ins.Block()) {
		if f.Cond == cond {
			continue
		}
		if have[fmt.Sprintf("%p/%v", f.Cond, f.Truth)] {
			continue
		}
		return false
	}
	return true
}

// hookTargets: the functions that run when the function value v is called: the closure's function itself, and for a
// bound method value (b.method) the method behind the synthetic wrapper.
func hookTargets(v ssa.Value) []*ssa.Function {
	var out []*ssa.Function
	switch x := stripConv(v).(type) {
	case *ssa.MakeClosure:
		fn, _ := x.Fn.(*ssa.Function)
		if fn == nil {
			return nil
		}
		out = append(out, fn)
		if fn.Synthetic != "" {
			for _, ci := range callsIn(fn) {
				if cal := ci.Common().StaticCallee(); cal != nil {
					out = append(out, cal)
				}
			}
		}
	case *ssa.Function:
		out = append(out, x)
	}
	return out
}

func isExitHookClosure(P *Program, f *ssa.Function) bool {
	// f is a function whose value (closure literal, or bound method value) is passed to (*base.SentinelEntry).WhenExit
	whenExit := P.Func("core/base.(*SentinelEntry).WhenExit")
	if whenExit == nil {
		return false
	}
	for _, ci := range P.StaticCallers(whenExit) {
		for _, a := range ci.Common().Args {
			for _, t := range hookTargets(a) {
				if t == f {
					return true
				}
			}
		}
	}
	return false
}

func init() {
	legal := map[string]bool{"Closed->Open": true, "Open->HalfOpen": true, "HalfOpen->Open": true, "HalfOpen->Closed": true}

	register(&Rule{
		ID: "cb.transition-table", Props: []string{"C03", "C12"}, Floor: 6,
		Doc: "every call of (*State).cas has constant arguments forming an edge of {Closed->Open, Open->HalfOpen, HalfOpen->Open, HalfOpen->Closed}; (*State).set has no caller; no store to or integer view of a *State outside State's own methods (only CAS changes a breaker state)",
		Run: func(c *Ctx) {
			cas, sites := cbCasSites(c.P)
			if cas == nil {
				c.AnchorLost(cbPkg + ".(*State).cas")
				return
			}
			ord := map[string]int{}
			for _, s := range sites {
				k := fnKey(s.fn)
				ord[k]++
				key := fmt.Sprintf("%s / State.cas#%d", k, ord[k])
				if !s.ok {
					c.Violate(key, instrPos(s.call), "CAS on a breaker state with non-constant or unknown state arguments: the transition cannot be shown legal")
					continue
				}
				e := s.from + "->" + s.to
				c.Check(legal[e], key, s.call.Pos(), "transition %s (legal edges: Closed->Open, Open->HalfOpen, HalfOpen->Open, HalfOpen->Closed)", e)
			}
			if set := c.P.Func(cbPkg + ".(*State).set"); set != nil {
				callers := c.P.StaticCallers(set)
				if len(callers) == 0 {
					c.Hold(cbPkg+".(*State).set / callers", set.Pos(), "unconditional state store has no caller")
				}
				for i, ci := range callers {
					c.Violate(fmt.Sprintf("%s / State.set#%d", fnKey(ci.Parent()), i+1), ci.Pos(), "unconditional store of a breaker state bypasses the CAS transition table")
				}
			}
			// raw access to the state word outside State's methods
			st := c.P.Named(cbPkg + ".State")
			n := 0
			for _, f := range c.P.ModuleFuncs() {
				if recv := f.Signature.Recv(); recv != nil && namedOf(recv.Type()) == st {
					continue
				}
				cnt := 0
				eachInstr(f, func(ins ssa.Instruction) {
					switch x := ins.(type) {
					case *ssa.Store:
						if namedOf(x.Addr.Type()) == st && isPtrTo(x.Addr.Type(), st) {
							if al, ok := x.Addr.(*ssa.Alloc); ok && al.Heap || isFreshAlloc(x.Addr) {
								return // initialisation of a fresh state
							}
							cnt++
							c.Violate(fmt.Sprintf("%s / raw-state-store#%d", fnKey(f), cnt), x.Pos(), "plain store to a breaker state outside State's methods")
						}
					case *ssa.Convert:
						if isPtrTo(x.X.Type(), st) {
							cnt++
							c.Violate(fmt.Sprintf("%s / raw-state-view#%d", fnKey(f), cnt), x.Pos(), "*State reinterpreted as integer pointer outside State's methods")
						}
					case *ssa.ChangeType:
						if isPtrTo(x.X.Type(), st) && !isPtrTo(x.Type(), st) {
							cnt++
							c.Violate(fmt.Sprintf("%s / raw-state-view#%d", fnKey(f), cnt), x.Pos(), "*State reinterpreted as integer pointer outside State's methods")
						}
					}
				})
				n++
			}
			c.Stat("functions_scanned_for_raw_state_access", n)
			c.Hold("module / raw-state-access-scan", cas.Pos(), "scanned %d functions", n)
		},
	})

	register(&Rule{
		ID: "cb.listener-agreement", Props: []string{"C03", "C12"}, Floor: 10,
		Doc: "every StateChangeListener invoke lies in the success region of exactly one State.cas(from,to), calls OnTransformTo<to> and passes the constant <from> as prev; every CAS success region contains such an invoke (listeners see each transition of the winner, with the correct previous state)",
		Run: func(c *Ctx) {
			cas, sites := cbCasSites(c.P)
			if cas == nil {
				c.AnchorLost(cbPkg + ".(*State).cas")
				return
			}
			names := cbStateNames(c.P)
			siteHasListener := map[*ssa.Call]int{}
			ord := map[string]int{}
			for _, f := range c.P.ModuleFuncs() {
				if strings.HasPrefix(relPkg(fnPkgPath(f)), "example") || strings.HasPrefix(relPkg(fnPkgPath(f)), "tests") {
					continue
				}
				for _, ci := range callsIn(f) {
					cc := ci.Common()
					if !cc.IsInvoke() || !typeIs(cc.Value.Type(), cbPkg, "StateChangeListener") {
						continue
					}
					k := fnKey(f)
					ord[k]++
					key := fmt.Sprintf("%s / listener.%s#%d", k, cc.Method.Name(), ord[k])
					var site *casSite
					for i := range sites {
						if sites[i].call != nil && sites[i].fn == f && dominatedByTrue(ci.Block(), sites[i].call) {
							if site != nil {
								site = nil
								break
							}
							site = &sites[i]
						}
					}
					if site == nil {
						c.Violate(key, ci.Pos(), "state-change listener notified outside the success branch of a single State.cas: a caller that did not win the transition (or no transition at all) reports it")
						continue
					}
					siteHasListener[site.call]++
					want := "OnTransformTo" + site.to
					prev, okp := constInt(cc.Args[0])
					switch {
					case cc.Method.Name() != want:
						c.Violate(key, ci.Pos(), "CAS %s->%s reported through %s (want %s)", site.from, site.to, cc.Method.Name(), want)
					case !okp || names[prev] != site.from:
						c.Violate(key, ci.Pos(), "CAS %s->%s reported with prev=%s", site.from, site.to, accessPath(cc.Args[0]))
					default:
						c.Hold(key, ci.Pos(), "CAS %s->%s reported by %s(prev=%s) in the winner's branch", site.from, site.to, want, site.from)
					}
				}
			}
			ord2 := map[string]int{}
			for _, s := range sites {
				if s.call == nil {
					continue
				}
				k := fnKey(s.fn)
				ord2[k]++
				key := fmt.Sprintf("%s / State.cas#%d / notifies", k, ord2[k])
				n := siteHasListener[s.call]
				c.Check(n == 1, key, s.call.Pos(), "transition %s->%s has %d listener notification sites in its success region (want exactly 1)", s.from, s.to, n)
			}
		},
	})

	register(&Rule{
		ID: "cb.open-sets-deadline", Props: []string{"C03"}, Floor: 3,
		Doc: "every CAS to Open performed by a completion is paired with a store of the retry deadline that executes unconditionally (before the CAS or in its success region); every CAS to Closed resets the probe counter in its success region. Named exception: the exit-hook rollback of a blocked probe keeps the expired deadline",
		Run: func(c *Ctx) {
			_, sites := cbCasSites(c.P)
			upd := c.P.Func(cbPkg + ".(*circuitBreakerBase).updateNextRetryTimestamp")
			rst := c.P.Func(cbPkg + ".(*circuitBreakerBase).resetCurProbeNum")
			if upd == nil {
				c.AnchorLost("updateNextRetryTimestamp")
				return
			}
			for _, s := range sites {
				if !s.ok {
					continue
				}
				key := fmt.Sprintf("%s / cas(%s,%s)", fnKey(s.fn), s.from, s.to)
				switch s.to {
				case "Open":
					if isExitHookClosure(c.P, s.fn) {
						c.Hold(key+" / exception", s.call.Pos(), "exit-hook rollback of a blocked probe: deadline intentionally kept (a blocked probe is not a failed probe)")
						continue
					}
					ok := false
					for _, ci := range callsIn(s.fn) {
						if !storesDeadline(ci, upd) {
							continue
						}
						in := ci.(ssa.Instruction)
						if instrDominates(in, s.call) || unconditionalAfter(in, s.call) {
							ok = true
						}
					}
					c.Check(ok, key+" / deadline", s.call.Pos(), "opening the breaker must (re)arm nextRetryTimestampMs on every path")
				case "Closed":
					ok := false
					for _, ci := range callsIn(s.fn) {
						if isStaticCallTo(ci, rst) && unconditionalAfter(ci.(ssa.Instruction), s.call) {
							ok = true
						}
					}
					c.Check(ok, key+" / probe-reset", s.call.Pos(), "closing the breaker must reset the probe counter in the winner's branch")
				}
			}
		},
	})

	register(&Rule{
		ID: "cb.deadline-before-open", Props: []string{"C12"}, Floor: 2,
		Doc: "in every function that publishes Open from a completion, the store of nextRetryTimestampMs dominates the CAS (publish after initialise): a concurrent TryPass that observes Open must observe the new deadline",
		Run: func(c *Ctx) {
			_, sites := cbCasSites(c.P)
			upd := c.P.Func(cbPkg + ".(*circuitBreakerBase).updateNextRetryTimestamp")
			if upd == nil {
				c.AnchorLost("updateNextRetryTimestamp")
				return
			}
			for _, s := range sites {
				if !s.ok || s.to != "Open" || isExitHookClosure(c.P, s.fn) {
					continue
				}
				key := fmt.Sprintf("%s / cas(%s,%s) / deadline-first", fnKey(s.fn), s.from, s.to)
				ok := false
				for _, ci := range callsIn(s.fn) {
					if storesDeadline(ci, upd) && instrDominates(ci.(ssa.Instruction), s.call) {
						ok = true
					}
				}
				c.Check(ok, key, s.call.Pos(), "state Open is published by the CAS before the retry deadline is stored: a request between the two sees Open with the previous (expired or zero) deadline and is admitted as a probe at once")
			}
		},
	})

	register(&Rule{
		ID: "cb.close-clears-stat", Props: []string{"C03"}, Floor: 3,
		Doc: "in every OnRequestComplete, a successful-probe transition to Closed is followed on the same path by the reset of the breaker's statistic counters",
		Run: func(c *Ctx) {
			toClosed := c.P.Func(cbPkg + ".(*circuitBreakerBase).fromHalfOpenToClosed")
			if toClosed == nil {
				c.AnchorLost("fromHalfOpenToClosed")
				return
			}
			for _, ci := range c.P.StaticCallers(toClosed) {
				f := ci.Parent()
				key := fnKey(f) + " / fromHalfOpenToClosed / stat-reset"
				ok := false
				blk := ci.Block()
				idx := instrIndex(ci.(ssa.Instruction))
				for _, x := range blk.Instrs[idx+1:] {
					if c2, isCall := x.(ssa.CallInstruction); isCall {
						if cal := c2.Common().StaticCallee(); cal != nil && coneStoresZeroAtomic(cal, 3) {
							ok = true
						}
					}
				}
				c.Check(ok, key, ci.Pos(), "closing must clear the statistics (a call reaching atomic stores of 0 to the counters follows in the same block)")
			}
		},
	})

	register(&Rule{
		ID: "cb.reset-clears-what-trip-reads", Props: []string{"C03"}, Floor: 3,
		Doc: "for each breaker type, the statistic reset performed when a probe closes the breaker clears every counter that the trip decision of the same type's OnRequestComplete sums over: both range over the slice returned by the same collector method of the breaker's statistic (allCounter). Clearing a subset (e.g. the current bucket) leaves the samples that tripped the breaker in a multi-bucket window and the next completion re-opens it",
		Run: func(c *Ctx) {
			toClosed := c.P.Func(cbPkg + ".(*circuitBreakerBase).fromHalfOpenToClosed")
			if toClosed == nil {
				c.AnchorLost("fromHalfOpenToClosed")
				return
			}
			// collector methods: calls whose receiver path ends in ".stat" and whose result is a slice
			collectors := func(f *ssa.Function) map[string]bool {
				out := map[string]bool{}
				for _, ci := range callsIn(f) {
					cal := ci.Common().StaticCallee()
					if cal == nil || cal.Signature.Recv() == nil || len(ci.Common().Args) == 0 {
						continue
					}
					if !strings.HasSuffix(accessPath(ci.Common().Args[0]), ".stat") {
						continue
					}
					if v := ci.Value(); v != nil {
						if _, ok := v.Type().Underlying().(*types.Slice); ok {
							out[cal.Name()] = true
						}
					}
				}
				return out
			}
			for _, ci := range c.P.StaticCallers(toClosed) {
				f := ci.Parent()
				var rm *ssa.Function
				blk := ci.Block()
				for _, x := range blk.Instrs[instrIndex(ci.(ssa.Instruction))+1:] {
					if c2, ok := x.(ssa.CallInstruction); ok {
						if cal := c2.Common().StaticCallee(); cal != nil && coneStoresZeroAtomic(cal, 3) {
							rm = cal
						}
					}
				}
				key := fnKey(f) + " / reset-covers-trip-window"
				if rm == nil {
					c.Violate(key, ci.Pos(), "no statistic reset follows the transition to Closed")
					continue
				}
				read := collectors(f)
				if len(read) == 0 {
					c.Undecided(key, f.Pos(), "cannot find the collector the trip decision ranges over")
					continue
				}
				n, bad := 0, ""
				for _, rc := range callsIn(rm) {
					cal := rc.Common().StaticCallee()
					if cal == nil || !coneStoresZeroAtomic(cal, 2) || len(rc.Common().Args) == 0 {
						continue
					}
					n++
					p := accessPath(rc.Common().Args[0])
					ok := false
					for m := range read {
						if strings.Contains(p, ".stat."+m+"()") && strings.Contains(p, "[") {
							ok = true
						}
					}
					if !ok {
						bad = p
					}
				}
				c.Check(n > 0 && bad == "", key, rm.Pos(), "%s resets the elements of the collection the trip decision sums over (%s); offending receiver: %q", rm.Name(), strings.Join(boolKeys(read), ","), bad)
			}
		},
	})

	register(&Rule{
		ID: "cb.sibling-trypass", Props: []string{"C03", "C12"}, Floor: 3,
		Doc: "every TryPass of a CircuitBreaker in core/circuitbreaker returns true only under (state==Closed) or (state==Open and retryTimeoutArrived and the Open->HalfOpen CAS was won) or (state==HalfOpen and probeNumber>0); all siblings admit under the same set of conditions",
		Run: func(c *Ctx) {
			ifn := c.P.Named(cbPkg + ".CircuitBreaker")
			if ifn == nil {
				c.AnchorLost("CircuitBreaker")
				return
			}
			impls := c.P.Implementations(ifn.Underlying().(*types.Interface), "TryPass")
			names := cbStateNames(c.P)
			cur := c.P.Func(cbPkg + ".(*circuitBreakerBase).CurrentState")
			get := c.P.Func(cbPkg + ".(*State).get")
			arrived := c.P.Func(cbPkg + ".(*circuitBreakerBase).retryTimeoutArrived")
			toHalf := c.P.Func(cbPkg + ".(*circuitBreakerBase).fromOpenToHalfOpen")
			var shapes []string
			for _, f := range impls {
				if relPkg(fnPkgPath(f)) != cbPkg {
					continue
				}
				var cats []string
				bad := false
				// a TryPass that only forwards to a helper of the package (return b.tryPass(ctx)) is judged by the helper
				body := f
				for d := 0; d < 2; d++ {
					rs := returnsOf(body)
					if len(rs) != 1 || len(condFacts(rs[0].Block())) != 0 {
						break
					}
					call, ok := rs[0].Results[0].(*ssa.Call)
					if !ok {
						break
					}
					g := call.Call.StaticCallee()
					if g == nil || relPkg(fnPkgPath(g)) != cbPkg || g == toHalf || g == arrived || g.Blocks == nil {
						break
					}
					body = g
				}
				for _, r := range returnsOf(body) {
					for _, path := range returnValueCases(r, 0) {
						if v, ok := path.val.(*ssa.Const); ok && v.Value != nil && v.Value.Kind() == constant.Bool {
							if !constant.BoolVal(v.Value) {
								continue
							}
						} else if call, ok := path.val.(*ssa.Call); ok && (isStaticCallTo(call, toHalf) || isStaticCallTo(call, arrived)) {
							// `return cond && b.fromOpenToHalfOpen(ctx)`: admitted iff the call answers true
							path.extra = append(path.extra, Fact{Cond: call, Truth: true})
						} else if bo, ok := path.val.(*ssa.BinOp); ok && isComparison(bo.Op) {
							// `return b.probeNumber > 0`: admitted iff the comparison holds
							path.extra = append(path.extra, Fact{Cond: bo, Truth: true})
						} else {
							// non-constant result: must itself be one of the admitted predicates; not used today
							c.Undecided(fnKey(f)+" / return", r.Pos(), "TryPass returns a non-constant value %s; admitted shapes are constant returns under branch conditions", accessPath(path.val))
							bad = true
							continue
						}
						facts := append(condFacts(path.block), path.extra...)
						// the state read is known to be `name`: stated directly, or left over after the other states were
						// excluded (`if s == Closed {..}; if s == HalfOpen {..}; if s != Open { return false }`)
						stateIs := func(name string) bool {
							possible := map[ssa.Value]map[string]bool{}
							for _, ft := range facts {
								b, ok := ft.Cond.(*ssa.BinOp)
								if !ok || (b.Op != token.EQL && b.Op != token.NEQ) {
									continue
								}
								x, y := b.X, b.Y
								if _, ok := x.(*ssa.Const); ok {
									x, y = y, x
								}
								cv, okc := constInt(y)
								call, okcall := resolve(x).(*ssa.Call)
								if !okc || !okcall || names[cv] == "" || !(isStaticCallTo(call, cur) || isStaticCallTo(call, get)) {
									continue
								}
								if possible[call] == nil {
									possible[call] = map[string]bool{}
									for _, nm := range names {
										possible[call][nm] = true
									}
								}
								eq := (b.Op == token.EQL) == ft.Truth
								for nm := range possible[call] {
									if (eq && nm != names[cv]) || (!eq && nm == names[cv]) {
										delete(possible[call], nm)
									}
								}
							}
							for _, set := range possible {
								if len(set) == 1 && set[name] {
									return true
								}
							}
							return false
						}
						callTrue := func(fn *ssa.Function) bool {
							for _, ft := range facts {
								if call, ok := ft.Cond.(*ssa.Call); ok && ft.Truth && isStaticCallTo(call, fn) {
									return true
								}
							}
							return false
						}
						probePos := func() bool {
							for _, ft := range facts {
								b, ok := ft.Cond.(*ssa.BinOp)
								if !ok {
									continue
								}
								lhs, rhs := accessPath(b.X), accessPath(b.Y)
								op := b.Op.String()
								t := ft.Truth
								isPN := func(s string) bool { return strings.HasSuffix(s, ".probeNumber") }
								switch {
								case isPN(lhs) && rhs == "0" && ((op == ">" && t) || (op == "!=" && t) || (op == "<=" && !t) || (op == "==" && !t)):
									return true
								case isPN(rhs) && lhs == "0" && ((op == "<" && t) || (op == "!=" && t) || (op == ">=" && !t) || (op == "==" && !t)):
									return true
								}
							}
							return false
						}
						switch {
						case stateIs("Closed"):
							cats = append(cats, "closed")
						case stateIs("Open") && callTrue(arrived) && callTrue(toHalf):
							cats = append(cats, "open+timeout+cas-won")
						case stateIs("HalfOpen") && probePos():
							cats = append(cats, "halfopen+probeNumber>0")
						default:
							bad = true
							var fs []string
							for _, ft := range facts {
								fs = append(fs, fmt.Sprintf("%s=%v", accessPath(ft.Cond), ft.Truth))
							}
							c.Violate(fnKey(f)+" / admit-path", r.Pos(), "TryPass admits under conditions [%s], which is none of: closed | open & retry timeout arrived & Open->HalfOpen CAS won | half-open & probeNumber>0", strings.Join(fs, ", "))
						}
					}
				}
				sort.Strings(cats)
				shape := strings.Join(uniq(cats), " | ")
				shapes = append(shapes, shape)
				if !bad {
					c.Hold(fnKey(f)+" / admit-conditions", f.Pos(), "admits exactly under: %s", shape)
				}
			}
			for i := 1; i < len(shapes); i++ {
				if shapes[i] != shapes[0] {
					c.Violate("core/circuitbreaker / TryPass siblings", impls[i].Pos(), "sibling TryPass implementations admit under different condition sets: %q vs %q", shapes[0], shapes[i])
				}
			}
		},
	})

	register(&Rule{
		ID: "cb.state-read-before-deadline", Props: []string{"C12"}, Floor: 3,
		Doc: "the writers store the retry deadline before they publish Open (cb.deadline-before-open); this protects a reader only if it reads in the opposite order. In every TryPass (or the helper it forwards to) the state word is read before the retry deadline: the call of retryTimeoutArrived / the load of nextRetryTimestampMs is dominated by the read of the state. A reader that loads the deadline first can pair a stale deadline with a freshly published Open and admit a probe at once",
		Run: func(c *Ctx) {
			ifn := c.P.Named(cbPkg + ".CircuitBreaker")
			cur := c.P.Func(cbPkg + ".(*circuitBreakerBase).CurrentState")
			get := c.P.Func(cbPkg + ".(*State).get")
			arrived := c.P.Func(cbPkg + ".(*circuitBreakerBase).retryTimeoutArrived")
			if ifn == nil || cur == nil || get == nil || arrived == nil {
				c.AnchorLost("CircuitBreaker / CurrentState / State.get / retryTimeoutArrived")
				return
			}
			for _, f := range c.P.Implementations(ifn.Underlying().(*types.Interface), "TryPass") {
				if relPkg(fnPkgPath(f)) != cbPkg {
					continue
				}
				// the functions of the package that TryPass runs (depth 2), excluding the leaf readers themselves
				var bodies []*ssa.Function
				seen := map[*ssa.Function]bool{}
				var walk func(g *ssa.Function, d int)
				walk = func(g *ssa.Function, d int) {
					if g == nil || seen[g] || d > 2 || relPkg(fnPkgPath(g)) != cbPkg || g == cur || g == get || g == arrived || g.Blocks == nil {
						return
					}
					seen[g] = true
					bodies = append(bodies, g)
					for _, ci := range callsIn(g) {
						walk(ci.Common().StaticCallee(), d+1)
					}
				}
				walk(f, 0)
				nD, bad := 0, ""
				for _, g := range bodies {
					isState := func(x ssa.Instruction) bool {
						ci, ok := x.(ssa.CallInstruction)
						return ok && (isStaticCallTo(ci, cur) || isStaticCallTo(ci, get))
					}
					for _, ci := range callsIn(g) {
						isDeadline := isStaticCallTo(ci, arrived)
						if !isDeadline && isExtCall(ci, "sync/atomic.LoadUint64") && strings.HasSuffix(accessPath(ci.Common().Args[0]), ".nextRetryTimestampMs") {
							isDeadline = true
						}
						if !isDeadline {
							continue
						}
						nD++
						if !mustBeforeInstr(ci.(ssa.Instruction), isState, nil) {
							bad = c.P.Pos(ci.Pos()) + " in " + fnKey(g)
						}
					}
				}
				c.Check(nD > 0 && bad == "", fnKey(f)+" / state-then-deadline", f.Pos(), "%d read(s) of the retry deadline, each after the state word was read in the same function (offending: %q)", nD, bad)
			}
		},
	})

	register(&Rule{
		ID: "cb.driven-by-completions", Props: []string{"C03"}, Floor: 8,
		Doc: "the transition helpers are called only from TryPass / OnRequestComplete implementations (and the exit hook); CircuitBreaker.OnRequestComplete is invoked only from StatSlot.OnCompleted implementations (and the outlier retryer's active probe), with the context's own rt and error; circuitbreaker.Slot.Check blocks exactly when some breaker's TryPass returned false, with BlockTypeCircuitBreaking",
		Run: func(c *Ctx) {
			ifn := c.P.Named(cbPkg + ".CircuitBreaker")
			statSlot := c.P.Named("core/base.StatSlot")
			if ifn == nil || statSlot == nil {
				c.AnchorLost("CircuitBreaker/StatSlot")
				return
			}
			cbI := ifn.Underlying().(*types.Interface)
			allowed := map[*ssa.Function]string{}
			for _, f := range c.P.Implementations(cbI, "TryPass") {
				allowed[f] = "TryPass"
			}
			for _, f := range c.P.Implementations(cbI, "OnRequestComplete") {
				allowed[f] = "OnRequestComplete"
			}
			for _, name := range []string{"fromClosedToOpen", "fromOpenToHalfOpen", "fromHalfOpenToOpen", "fromHalfOpenToClosed"} {
				h := c.P.Func(cbPkg + ".(*circuitBreakerBase)." + name)
				if h == nil {
					c.AnchorLost(name)
					continue
				}
				for _, ci := range c.P.StaticCallers(h) {
					f := ci.Parent()
					key := fmt.Sprintf("%s / calls %s", fnKey(f), name)
					role, ok := allowed[f]
					if name == "fromOpenToHalfOpen" {
						ok = ok && role == "TryPass"
					} else {
						ok = ok && role == "OnRequestComplete"
					}
					c.Check(ok, key, ci.Pos(), "transition helper %s may be driven only by %s", name, map[bool]string{true: "TryPass (a request after the timeout)", false: "OnRequestComplete (a completed request)"}[name == "fromOpenToHalfOpen"])
				}
			}
			onCompleted := map[*ssa.Function]bool{}
			for _, f := range c.P.Implementations(statSlot.Underlying().(*types.Interface), "OnCompleted") {
				onCompleted[f] = true
			}
			retry := c.P.Func("core/outlier.(*Retryer).onConnected")
			for _, f := range c.P.ModuleFuncs() {
				rp := relPkg(fnPkgPath(f))
				if strings.HasPrefix(rp, "example") || strings.HasPrefix(rp, "tests") {
					continue
				}
				for _, ci := range callsIn(f) {
					cc := ci.Common()
					if !cc.IsInvoke() || cc.Method.Name() != "OnRequestComplete" || !types.Identical(cc.Value.Type().Underlying(), cbI) {
						continue
					}
					key := fnKey(f) + " / invokes OnRequestComplete"
					switch {
					case onCompleted[f]:
						rt, er := accessPath(cc.Args[0]), accessPath(cc.Args[1])
						okrt := rt == "{EntryContext}.Rt()"
						oker := er == "{EntryContext}.Err()"
						c.Check(okrt && oker, key, ci.Pos(), "completion reported with rt=%s err=%s (want the entry's own ctx.Rt(), ctx.Err())", rt, er)
					case retry != nil && (f == retry || f.Parent() == retry):
						c.Hold(key+" / exception", ci.Pos(), "outlier active recovery probe reports its own connection result")
					default:
						c.Violate(key, ci.Pos(), "breaker statistics driven from outside a completion callback")
					}
				}
			}
			// Slot.Check: blocked result only on the TryPass==false path
			chk := c.P.Func(cbPkg + ".(*Slot).Check")
			cp := c.P.Func(cbPkg + ".checkPass")
			if chk == nil || cp == nil {
				c.AnchorLost("circuitbreaker.Slot.Check/checkPass")
				return
			}
			for _, r := range returnsOf(cp) {
				for _, cs := range returnValueCases(r, 0) {
					v, ok := cs.val.(*ssa.Const)
					if !ok || v.Value == nil {
						c.Undecided(fnKey(cp)+" / return", r.Pos(), "non-constant pass flag %s", accessPath(cs.val))
						continue
					}
					pass := constant.BoolVal(v.Value)
					sawFalse := false
					for _, ft := range append(condFacts(cs.block), cs.extra...) {
						if call, ok := ft.Cond.(*ssa.Call); ok && call.Call.IsInvoke() && call.Call.Method.Name() == "TryPass" && !ft.Truth {
							sawFalse = true
						}
					}
					if pass {
						c.Check(!sawFalse, fnKey(cp)+" / return true", r.Pos(), "passes only when no breaker rejected")
					} else {
						c.Check(sawFalse, fnKey(cp)+" / return false", r.Pos(), "rejects only on the TryPass()==false branch of some breaker")
					}
				}
			}
			nb := 0
			for _, ci := range callsIn(chk) {
				cal := ci.Common().StaticCallee()
				if cal == nil {
					continue
				}
				if cal.Name() == "NewTokenResultBlockedWithCause" || cal.Name() == "ResetToBlockedWithCause" || cal.Name() == "NewTokenResultBlocked" || cal.Name() == "ResetToBlocked" || cal.Name() == "NewTokenResultBlockedWithMessage" || cal.Name() == "ResetToBlockedWithMessage" {
					nb++
					key := fmt.Sprintf("%s / blocked-result#%d", fnKey(chk), nb)
					// dominated by checkPass()#0 == false
					dom := false
					for _, ft := range factsAt(ci.(ssa.Instruction)) {
						if ex, ok := ft.Cond.(*ssa.Extract); ok && ex.Index == 0 && !ft.Truth {
							if call, ok := ex.Tuple.(*ssa.Call); ok && isStaticCallTo(call, cp) {
								dom = true
							}
						}
					}
					bt := ""
					for _, a := range ci.Common().Args {
						if typeIs(a.Type(), "core/base", "BlockType") {
							bt = accessPath(a)
						}
					}
					c.Check(dom && bt == "3", key, ci.Pos(), "blocked result built under checkPass()==false=%v with block type %s (BlockTypeCircuitBreaking=3)", dom, bt)
				}
			}
		},
	})
}

func uniq(s []string) []string {
	var out []string
	for i, x := range s {
		if i == 0 || x != s[i-1] {
			out = append(out, x)
		}
	}
	return out
}

func isPtrTo(t types.Type, n *types.Named) bool {
	p, ok := t.(*types.Pointer)
	return ok && n != nil && types.Identical(p.Elem(), n)
}

// isFreshAlloc: the address lies in an object allocated in this function (a local, a composite literal under
// construction, or a field / element of one): a State value written there is a copy for reporting, not a breaker's
// state word.
func isFreshAlloc(v ssa.Value) bool {
	for i := 0; i < 6; i++ {
		switch x := v.(type) {
		case *ssa.Alloc:
			return true
		case *ssa.FieldAddr:
			v = x.X
		case *ssa.IndexAddr:
			v = x.X
		default:
			return false
		}
	}
	return false
}

// storesDeadline: call to updateNextRetryTimestamp, or an atomic store to a field named nextRetryTimestampMs.
func storesDeadline(ci ssa.CallInstruction, upd *ssa.Function) bool {
	if isStaticCallTo(ci, upd) {
		return true
	}
	if isExtCall(ci, "sync/atomic.StoreUint64") {
		if fa, ok := ci.Common().Args[0].(*ssa.FieldAddr); ok {
			_, fn := fieldOf(fa)
			return fn == "nextRetryTimestampMs"
		}
	}
	return false
}

// coneStoresZeroAtomic: f (to depth d through static module callees) performs sync/atomic Store*(addr, 0).
func coneStoresZeroAtomic(f *ssa.Function, d int) bool {
	if f == nil || d < 0 || f.Blocks == nil {
		return false
	}
	for _, ci := range callsIn(f) {
		if cal := ci.Common().StaticCallee(); cal != nil {
			n := extFuncName(cal)
			if strings.HasPrefix(n, "sync/atomic.Store") && len(ci.Common().Args) == 2 {
				if v, ok := constInt(ci.Common().Args[1]); ok && v == 0 {
					return true
				}
			}
			if inModule(fnPkgPath(cal)) && coneStoresZeroAtomic(cal, d-1) {
				return true
			}
		}
	}
	return false
}

// retCase is one (value, block-with-facts) alternative of a returned result: a Phi result is split per incoming edge.
type retCase struct {
	val   ssa.Value
	block *ssa.BasicBlock
	extra []Fact
}

func returnValueCases(r *ssa.Return, idx int) []retCase {
	if idx >= len(r.Results) {
		return nil
	}
	return splitPhiCases(r.Results[idx], r.Block(), nil, 0)
}

func init() {
	register(&Rule{
		ID: "cb.rollback-hook-only-for-winner", Props: []string{"C12", "C03"}, Floor: 1,
		Doc: "the exit hook that rolls a half-open breaker back to Open when the probing entry ends up blocked is registered (SentinelEntry.WhenExit) only on the success branch of the Open->HalfOpen CAS, directly or through a helper all of whose call sites are on that branch: a request that lost the CAS and is itself blocked by the breaker must not re-open the winner's half-open passage",
		Run: func(c *Ctx) {
			cas, sites := cbCasSites(c.P)
			whenExit := c.P.Func("core/base.(*SentinelEntry).WhenExit")
			if cas == nil || whenExit == nil {
				c.AnchorLost("State.cas / SentinelEntry.WhenExit")
				return
			}
			wonHalfOpen := func(ins ssa.Instruction) bool {
				for _, s := range sites {
					if s.ok && s.from == "Open" && s.to == "HalfOpen" && s.call != nil && s.fn == ins.Parent() && dominatedByTrue(ins.Block(), s.call) {
						return true
					}
				}
				return false
			}
			n := 0
			for _, ci := range c.P.StaticCallers(whenExit) {
				g := ci.Parent()
				if relPkg(fnPkgPath(g)) != cbPkg {
					continue
				}
				// only hooks that can change the state
				changes := false
				for _, a := range ci.Common().Args {
					for _, t := range hookTargets(a) {
						for _, c2 := range callsIn(t) {
							if isStaticCallTo(c2, cas) {
								changes = true
							}
						}
					}
				}
				if !changes {
					continue
				}
				n++
				key := fmt.Sprintf("%s / WhenExit#%d", fnKey(g), n)
				ok := wonHalfOpen(ci.(ssa.Instruction))
				if !ok {
					// helper: every call site of g must be on the winner's branch
					callers := c.P.StaticCallers(g)
					ok = len(callers) > 0
					for _, cs := range callers {
						if !wonHalfOpen(cs.(ssa.Instruction)) {
							ok = false
						}
					}
				}
				c.Check(ok, key, ci.Pos(), "the probe-rollback hook is installed only by the caller that won cas(Open, HalfOpen)")
			}
			if n == 0 {
				c.Violate(cbPkg+" / rollback-hook", cas.Pos(), "no exit hook rolls back a blocked probe: a probe that is blocked by a later slot leaves the breaker half-open forever")
			}
		},
	})
}

func boolKeys(m map[string]bool) []string {
	var out []string
	for k := range m {
		out = append(out, k)
	}
	sortStrings(out)
	return out
}
