package main

import (
	"fmt"
	"go/token"
	"go/types"
	"sort"
	"strings"

	"golang.org/x/tools/go/ssa"
)

// C11: adaptive thresholds (warm-up, memory adaptive).

// generatorStrategies inspects flow.init: for every entry stored into tcGenFuncMap it returns
// (generator function, constant tokenCalculateStrategy of its key).
func generatorStrategies(P *Program) map[*ssa.Function]int64 {
	out := map[*ssa.Function]int64{}
	sp := P.SSA[modPath+"/core/flow"]
	if sp == nil {
		return out
	}
	for _, f := range P.FuncsIn(modPath + "/core/flow") {
		if f.Parent() != nil || !strings.HasPrefix(f.Name(), "init") {
			continue
		}
		eachInstr(f, func(ins ssa.Instruction) {
			mu, ok := ins.(*ssa.MapUpdate)
			if !ok || !strings.HasSuffix(accessPath(mu.Map), "tcGenFuncMap") {
				return
			}
			var fn *ssa.Function
			switch v := stripConv(mu.Value).(type) {
			case *ssa.MakeClosure:
				fn, _ = v.Fn.(*ssa.Function)
			case *ssa.Function:
				fn = v
			}
			ld, ok := mu.Key.(*ssa.UnOp)
			if fn == nil || !ok {
				return
			}
			al, ok := ld.X.(*ssa.Alloc)
			if !ok {
				return
			}
			for _, r := range refsOf(al) {
				fa, ok := r.(*ssa.FieldAddr)
				if !ok || fieldName(fa.X.Type(), fa.Field) != "tokenCalculateStrategy" {
					continue
				}
				for _, r2 := range refsOf(fa) {
					if st, ok := r2.(*ssa.Store); ok {
						if k, ok := constInt(st.Val); ok {
							out[fn] = k
						}
					}
				}
			}
		})
	}
	return out
}

func ruleParam(f *ssa.Function, ruleT *types.Named) *ssa.Parameter {
	for _, p := range f.Params {
		if namedOf(p.Type()) == ruleT {
			return p
		}
	}
	return nil
}

func init() {
	register(&Rule{
		ID: "adaptive.finite-threshold", Props: []string{"C11"}, Floor: 8,
		Doc: "in core/flow, every division (/ and %) in the functions reachable from the CalculateAllowedTokens implementations and in their constructors has a divisor proven non-zero (constants, dominating guards on the same value, integer lower bounds through phi, a-b under a dominating b<a, sums/products/quotients of proven positives, field invariants established in constructors, facts of flow.IsValidRule for the strategy the constructor is registered under): the effective threshold is never NaN or infinite",
		Run: func(c *Ctx) {
			calcI := c.P.Named("core/flow.TrafficShapingCalculator")
			ruleT := c.P.Named("core/flow.Rule")
			valid := c.P.Func("core/flow.IsValidRule")
			if calcI == nil || ruleT == nil || valid == nil {
				c.AnchorLost("flow.TrafficShapingCalculator / Rule / IsValidRule")
				return
			}
			iface := calcI.Underlying().(*types.Interface)
			impls := c.P.Implementations(iface, "CalculateAllowedTokens")
			scope := map[*ssa.Function]string{}
			// reachable (static calls within core/flow)
			var walk func(f *ssa.Function, why string, d int)
			walk = func(f *ssa.Function, why string, d int) {
				if f == nil || d > 4 || scope[f] != "" || relPkg(fnPkgPath(f)) != "core/flow" || f.Blocks == nil {
					return
				}
				scope[f] = why
				for _, ci := range callsIn(f) {
					walk(ci.Common().StaticCallee(), why, d+1)
				}
			}
			for _, f := range impls {
				if relPkg(fnPkgPath(f)) == "core/flow" {
					walk(f, "CalculateAllowedTokens cone", 0)
				}
			}
			// constructors: package-level functions of core/flow that allocate a calculator type
			ctors := map[*ssa.Function]bool{}
			for _, f := range c.P.FuncsIn(modPath + "/core/flow") {
				if f.Parent() != nil {
					continue
				}
				eachInstr(f, func(ins ssa.Instruction) {
					if al, ok := ins.(*ssa.Alloc); ok {
						if pt, ok := al.Type().(*types.Pointer); ok && types.Implements(al.Type(), iface) && namedOf(pt.Elem()) != nil {
							ctors[f] = true
						}
					}
				})
			}
			for f := range ctors {
				walk(f, "calculator constructor", 0)
			}
			z := newSignProver(c.P)
			// constructor preconditions from the validity function, for the strategy the constructor is registered under
			gens := generatorStrategies(c.P)
			c.Stat("generators_in_init", len(gens))
			for ctor := range ctors {
				rp := ruleParam(ctor, ruleT)
				if rp == nil {
					continue
				}
				strategies := map[int64]bool{}
				for g, s := range gens {
					for _, ci := range callsIn(g) {
						if isStaticCallTo(ci, ctor) {
							strategies[s] = true
						}
					}
				}
				facts := validityFacts(valid, accessPath(rp))
				if len(strategies) == 1 {
					for s := range strategies {
						given := map[string]bool{}
						for _, f := range facts {
							given[f] = true
						}
						given[fmt.Sprintf("%d == %s.TokenCalculateStrategy", s, accessPath(rp))] = true
						facts = append(facts, conditionalValidityFacts(valid, accessPath(rp), given)...)
						c.Note("%s is registered only under TokenCalculateStrategy=%d; assumed facts: %v", fnKey(ctor), s, facts)
					}
				}
				z.assume[ctor] = facts
			}
			var fs []*ssa.Function
			for f := range scope {
				fs = append(fs, f)
			}
			sort.Slice(fs, func(i, j int) bool { return fnKey(fs[i]) < fnKey(fs[j]) })
			for _, f := range fs {
				ord := 0
				eachInstr(f, func(ins ssa.Instruction) {
					b, ok := ins.(*ssa.BinOp)
					if !ok || (b.Op != token.QUO && b.Op != token.REM) {
						return
					}
					ord++
					key := fmt.Sprintf("%s / div#%d", fnKey(f), ord)
					z.notes = nil
					if r, ok := z.nonZero(b.Y, b.Block()); ok {
						c.Hold(key, b.Pos(), "divisor %s proven non-zero: %s", accessPath(b.Y), r)
					} else {
						c.Violate(key, b.Pos(), "divisor %s is not proven non-zero (%s): for a valid rule it can be 0, the quotient is +Inf or NaN, the computed threshold is not finite and the reject check `cur+batch > NaN` admits everything", accessPath(b.Y), strings.Join(z.notes, "; "))
					}
				})
			}
		},
	})

	register(&Rule{
		ID: "adaptive.memory-partition", Props: []string{"C11"}, Floor: 3,
		Doc: "MemoryAdaptiveTrafficShapingCalculator.CalculateAllowedTokens yields the low-memory threshold on the branch mem <= low water mark, the high-memory threshold on mem >= high water mark and the interpolation only on the remaining branch (three-way partition on the same memory reading; operand origins are checked, not the arithmetic)",
		Run: func(c *Ctx) {
			f := c.P.Func("core/flow.(*MemoryAdaptiveTrafficShapingCalculator).CalculateAllowedTokens")
			if f == nil {
				c.AnchorLost("MemoryAdaptiveTrafficShapingCalculator.CalculateAllowedTokens")
				return
			}
			type alt struct {
				val   ssa.Value
				facts map[string]bool
				pos   token.Pos
			}
			var alts []alt
			var collect func(v ssa.Value, blk *ssa.BasicBlock, extra []Fact, pos token.Pos, d int)
			collect = func(v ssa.Value, blk *ssa.BasicBlock, extra []Fact, pos token.Pos, d int) {
				if phi, ok := v.(*ssa.Phi); ok && d < 4 {
					for i, e := range phi.Edges {
						pred := phi.Block().Preds[i]
						collect(e, pred, edgeFact(pred, phi.Block()), phi.Pos(), d+1)
					}
					return
				}
				alts = append(alts, alt{v, canonFacts(blk, extra...), pos})
			}
			for _, r := range returnsOf(f) {
				collect(r.Results[0], r.Block(), nil, r.Pos(), 0)
			}
			seen := map[string]bool{}
			for i, a := range alts {
				p := accessPath(a.val)
				var mem string
				for k := range a.facts {
					if strings.HasSuffix(k, " <= {MemoryAdaptiveTrafficShapingCalculator}.memLowWaterMark") {
						mem = strings.TrimSuffix(k, " <= {MemoryAdaptiveTrafficShapingCalculator}.memLowWaterMark")
					}
				}
				lowBranch := mem != ""
				highBranch := false
				midBranch := false
				for k := range a.facts {
					if strings.HasPrefix(k, "{MemoryAdaptiveTrafficShapingCalculator}.memHighWaterMark <= ") {
						highBranch = true
					}
				}
				_, lowNeg := anyFact(a.facts, "{MemoryAdaptiveTrafficShapingCalculator}.memLowWaterMark < ")
				_, highNeg := anyFact(a.facts, " < {MemoryAdaptiveTrafficShapingCalculator}.memHighWaterMark")
				midBranch = lowNeg && highNeg
				key := fmt.Sprintf("%s / alternative#%d", fnKey(f), i+1)
				switch {
				case lowBranch:
					seen["low"] = true
					c.Check(p == "float64({MemoryAdaptiveTrafficShapingCalculator}.lowMemUsageThreshold)", key, a.pos, "mem <= low water mark yields %s (want the low-memory threshold)", p)
				case highBranch:
					seen["high"] = true
					c.Check(p == "float64({MemoryAdaptiveTrafficShapingCalculator}.highMemUsageThreshold)", key, a.pos, "mem >= high water mark yields %s (want the high-memory threshold)", p)
				case midBranch:
					seen["mid"] = true
					ok := strings.Contains(p, ".highMemUsageThreshold") && strings.Contains(p, ".lowMemUsageThreshold") && strings.Contains(p, ".memHighWaterMark") && strings.Contains(p, ".memLowWaterMark") && strings.Contains(p, "CurrentMemoryUsage()")
					c.Check(ok, key, a.pos, "between the water marks the threshold interpolates over the four bounds and the memory reading: %s", p)
				default:
					// memory not retrievable: conservative low threshold
					_, notRetrieved := anyFact(a.facts, "CurrentMemoryUsage()", " == ")
					c.Check(notRetrieved && p == "float64({MemoryAdaptiveTrafficShapingCalculator}.lowMemUsageThreshold)", key, a.pos, "fallback alternative %s under [%s]", p, factList(a.facts))
				}
			}
			for _, k := range []string{"low", "high", "mid"} {
				if !seen[k] {
					c.Violate(fnKey(f)+" / branch "+k, f.Pos(), "the %s branch of the three-way partition is missing", k)
				}
			}
		},
	})

	register(&Rule{
		ID: "adaptive.warmup-alternatives", Props: []string{"C11"}, Floor: 2,
		Doc: "WarmUpTrafficShapingCalculator.CalculateAllowedTokens yields either the configured threshold itself (stored tokens below the warning line) or the warning-zone rate computed from the stored tokens, the slope and the threshold; no alternative is a constant or independent of the configured threshold (a rate that does not depend on the threshold exceeds some valid threshold or its cold rate)",
		Run: func(c *Ctx) {
			f := c.P.Func("core/flow.(*WarmUpTrafficShapingCalculator).CalculateAllowedTokens")
			if f == nil {
				c.AnchorLost("WarmUpTrafficShapingCalculator.CalculateAllowedTokens")
				return
			}
			n := 0
			var collect func(v ssa.Value, blk *ssa.BasicBlock, extra []Fact, pos token.Pos, d int)
			collect = func(v ssa.Value, blk *ssa.BasicBlock, extra []Fact, pos token.Pos, d int) {
				if phi, ok := v.(*ssa.Phi); ok && d < 4 {
					for i, e := range phi.Edges {
						pred := phi.Block().Preds[i]
						collect(e, pred, edgeFact(pred, phi.Block()), phi.Pos(), d+1)
					}
					return
				}
				n++
				p := accessPath(v)
				facts := canonFacts(blk, extra...)
				key := fmt.Sprintf("%s / alternative#%d", fnKey(f), n)
				const th = "{WarmUpTrafficShapingCalculator}.threshold"
				if p == th {
					_, below := anyFact(facts, " < int64({WarmUpTrafficShapingCalculator}.warningToken)")
					c.Check(below, key, pos, "the full threshold is granted under [%s] (want: stored tokens below the warning line)", factList(facts))
					return
				}
				ok := strings.Contains(p, th) && strings.Contains(p, "{WarmUpTrafficShapingCalculator}.slope") && strings.Contains(p, ".storedTokens") && strings.Contains(p, ".warningToken")
				c.Check(ok, key, pos, "warning-zone rate %s derives from threshold, slope, stored tokens and warning line", p)
			}
			for _, r := range returnsOf(f) {
				collect(r.Results[0], r.Block(), nil, r.Pos(), 0)
			}
		},
	})

	register(&Rule{
		ID: "adaptive.no-integer-product", Props: []string{"C11"}, Floor: 3,
		Doc: "in the CalculateAllowedTokens implementations of core/flow and the core/flow functions they call, no product of two non-constant integer operands is formed: thresholds, water marks and memory readings are 64-bit configuration / measurement values whose integer product can wrap (valid rules allow it), after which the effective threshold leaves the configured envelope; the arithmetic is done in float64",
		Run: func(c *Ctx) {
			calcI := c.P.Named("core/flow.TrafficShapingCalculator")
			if calcI == nil {
				c.AnchorLost("flow.TrafficShapingCalculator")
				return
			}
			impls := c.P.Implementations(calcI.Underlying().(*types.Interface), "CalculateAllowedTokens")
			seen := map[*ssa.Function]bool{}
			var walk func(f *ssa.Function, d int)
			walk = func(f *ssa.Function, d int) {
				if f == nil || d > 3 || seen[f] || relPkg(fnPkgPath(f)) != "core/flow" || f.Blocks == nil {
					return
				}
				seen[f] = true
				for _, ci := range callsIn(f) {
					walk(ci.Common().StaticCallee(), d+1)
				}
			}
			for _, f := range impls {
				walk(f, 0)
			}
			var fs []*ssa.Function
			for f := range seen {
				fs = append(fs, f)
			}
			sort.Slice(fs, func(i, j int) bool { return fnKey(fs[i]) < fnKey(fs[j]) })
			for _, f := range fs {
				bad, nf := "", 0
				eachInstr(f, func(ins ssa.Instruction) {
					b, ok := ins.(*ssa.BinOp)
					if !ok || b.Op != token.MUL {
						return
					}
					if !isIntegerT(b.Type()) {
						nf++
						return
					}
					_, cx := b.X.(*ssa.Const)
					_, cy := b.Y.(*ssa.Const)
					if !cx && !cy {
						bad = c.P.Pos(b.Pos()) + ": " + accessPath(b)
					}
				})
				c.Check(bad == "", fnKey(f)+" / no-integer-product", f.Pos(), "%d floating-point product(s); integer product of two variables: %q", nf, bad)
			}
		},
	})
}
