package main

import (
	"fmt"
	"go/ast"
	"go/token"
	"go/types"
	"os"
	"os/exec"
	"path/filepath"
	"sort"
	"strings"

	"golang.org/x/tools/go/callgraph"
	"golang.org/x/tools/go/callgraph/cha"
	"golang.org/x/tools/go/callgraph/vta"
	"golang.org/x/tools/go/packages"
	"golang.org/x/tools/go/ssa"
	"golang.org/x/tools/go/ssa/ssautil"
)

const modPath = "github.com/alibaba/sentinel-golang"

// Program is the type-checked, SSA-built view of one Go module of /repo.
type Program struct {
	Root   string // directory of the module
	Fset   *token.FileSet
	Pkgs   []*packages.Package // module packages only (non-test)
	ByPath map[string]*packages.Package
	Prog   *ssa.Program
	SSA    map[string]*ssa.Package // by import path

	modFuncs   []*ssa.Function // every function (incl. anonymous) whose package is in the module
	callers    map[*ssa.Function][]ssa.CallInstruction
	cgCHA      *callgraph.Graph
	cgVTA      *callgraph.Graph
	boundedCHA map[*ssa.Function][]*ssa.Function
	boundedVTA map[*ssa.Function][]*ssa.Function
	TypeErrors int
	live       map[*ssa.Function]bool
}

func goEnv(extra ...string) []string {
	env := os.Environ()
	env = append(env, "GOFLAGS=-mod=mod", "GOPROXY=off", "GOSUMDB=off", "GOTOOLCHAIN=local", "GOWORK=off")
	env = append(env, extra...)
	return env
}

func repoStatus(root string) string {
	cmd := exec.Command("git", "-C", root, "status", "--porcelain")
	out, err := cmd.Output()
	if err != nil {
		return "ERR:" + err.Error()
	}
	return string(out)
}

// LoadProgram loads module rooted at dir (patterns ./...) with full syntax and builds SSA when wantSSA.
func LoadProgram(dir string, wantSSA bool, overlay map[string][]byte, extraEnv ...string) (*Program, error) {
	// normalisation: inline helper functions that no rule names (see inlineprepass.go)
	modRel := ""
	if r, err := filepath.Rel(repoRoot, dir); err == nil && r != "." && !strings.HasPrefix(r, "..") {
		modRel = filepath.ToSlash(r)
	}
	if ov, err := inlineHelpers(dir, overlay, modRel); err == nil {
		overlay = ov
	} else {
		fmt.Fprintf(os.Stderr, "INLINE-PREPASS skipped: %v\n", err)
	}
	mode := packages.LoadAllSyntax
	cfg := &packages.Config{Mode: mode, Dir: dir, Env: goEnv(extraEnv...), Overlay: overlay, Tests: false}
	pkgs, err := packages.Load(cfg, "./...")
	if err != nil {
		return nil, fmt.Errorf("load %s: %v", dir, err)
	}
	if len(pkgs) == 0 {
		return nil, fmt.Errorf("load %s: zero packages", dir)
	}
	p := &Program{Root: dir, ByPath: map[string]*packages.Package{}, SSA: map[string]*ssa.Package{}}
	for _, pk := range pkgs {
		if pk.Fset != nil {
			p.Fset = pk.Fset
		}
		p.Pkgs = append(p.Pkgs, pk)
		p.ByPath[pk.PkgPath] = pk
		for _, e := range pk.Errors {
			// errors of the module's own packages are fatal for the check
			p.TypeErrors++
			fmt.Fprintf(os.Stderr, "LOAD-ERROR %s: %v\n", pk.PkgPath, e)
		}
	}
	sort.Slice(p.Pkgs, func(i, j int) bool { return p.Pkgs[i].PkgPath < p.Pkgs[j].PkgPath })
	if wantSSA {
		prog, spkgs := ssautil.AllPackages(pkgs, ssa.InstantiateGenerics)
		prog.Build()
		p.Prog = prog
		for i, sp := range spkgs {
			if sp != nil {
				p.SSA[pkgs[i].PkgPath] = sp
			}
		}
		p.collectFuncs()
	}
	return p, nil
}

func inModule(pkgPath string) bool {
	return pkgPath == modPath || strings.HasPrefix(pkgPath, modPath+"/")
}

func fnPkgPath(f *ssa.Function) string {
	if f == nil {
		return ""
	}
	if f.Pkg != nil {
		return f.Pkg.Pkg.Path()
	}
	if f.Parent() != nil {
		return fnPkgPath(f.Parent())
	}
	if o := f.Origin(); o != nil && o != f {
		return fnPkgPath(o)
	}
	if obj := f.Object(); obj != nil && obj.Pkg() != nil {
		return obj.Pkg().Path()
	}
	return ""
}

func (p *Program) collectFuncs() {
	seen := map[*ssa.Function]bool{}
	var add func(f *ssa.Function)
	add = func(f *ssa.Function) {
		if f == nil || seen[f] {
			return
		}
		seen[f] = true
		if inModule(fnPkgPath(f)) && f.Blocks != nil && !(f.Synthetic != "" && f.Syntax() == nil) {
			p.modFuncs = append(p.modFuncs, f)
		}
		for _, a := range f.AnonFuncs {
			add(a)
		}
	}
	for f := range ssautil.AllFunctions(p.Prog) {
		add(f)
	}
	sort.Slice(p.modFuncs, func(i, j int) bool { return fnKey(p.modFuncs[i]) < fnKey(p.modFuncs[j]) })
	p.callers = map[*ssa.Function][]ssa.CallInstruction{}
	for _, f := range p.modFuncs {
		for _, b := range f.Blocks {
			for _, ins := range b.Instrs {
				if ci, ok := ins.(ssa.CallInstruction); ok {
					if cal := ci.Common().StaticCallee(); cal != nil {
						p.callers[cal] = append(p.callers[cal], ci)
					}
				}
			}
		}
	}
}

// ModuleFuncs returns all functions with bodies declared in the module (synthetic wrappers excluded).
func (p *Program) ModuleFuncs() []*ssa.Function {
	return p.modFuncs
}

// FuncsIn returns module functions (incl. closures) of package path pkg.
func (p *Program) FuncsIn(pkg string) []*ssa.Function {
	var out []*ssa.Function
	for _, f := range p.ModuleFuncs() {
		if fnPkgPath(f) == pkg {
			out = append(out, f)
		}
	}
	return out
}

// StaticCallers returns the static call sites of f within the module.
func (p *Program) StaticCallers(f *ssa.Function) []ssa.CallInstruction { return p.callers[f] }

// relPkg shortens an import path in keys.
func relPkg(path string) string {
	if path == modPath {
		return "."
	}
	return strings.TrimPrefix(path, modPath+"/")
}

// fnKey is the stable construct key of a function: pkg.(*T).M$1
func fnKey(f *ssa.Function) string {
	if f == nil {
		return "<nil>"
	}
	if f.Parent() != nil {
		// anonymous: parentKey$N  (ssa name is Parent$N)
		name := f.Name()
		if i := strings.LastIndex(name, "$"); i >= 0 {
			return fnKey(f.Parent()) + name[i:]
		}
		return fnKey(f.Parent()) + "$" + name
	}
	pk := relPkg(fnPkgPath(f))
	if recv := f.Signature.Recv(); recv != nil {
		t := recv.Type()
		ptr := ""
		if pt, ok := t.(*types.Pointer); ok {
			t = pt.Elem()
			ptr = "*"
		}
		tn := t.String()
		if n, ok := t.(*types.Named); ok {
			tn = n.Obj().Name()
		}
		return fmt.Sprintf("%s.(%s%s).%s", pk, ptr, tn, f.Name())
	}
	return pk + "." + f.Name()
}

// Pos renders a position relative to the repo root.
func (p *Program) Pos(pos token.Pos) string {
	if !pos.IsValid() {
		return "-"
	}
	ps := p.Fset.Position(pos)
	rel, err := filepath.Rel(repoRoot, ps.Filename)
	if err != nil || strings.HasPrefix(rel, "..") {
		rel = ps.Filename
	}
	return fmt.Sprintf("%s:%d", rel, mapLine(ps.Filename, ps.Line))
}

// Func resolves "pkg/path.Name" or "pkg/path.(*T).M" / "pkg/path.(T).M" (path relative to module) to its SSA function.
func (p *Program) Func(spec string) *ssa.Function {
	pkgRel, rest := splitSpec(spec)
	path := modPath
	if pkgRel != "." && pkgRel != "" {
		path = modPath + "/" + pkgRel
	}
	sp := p.SSA[path]
	if sp == nil {
		return nil
	}
	if strings.HasPrefix(rest, "(") {
		end := strings.Index(rest, ")")
		tn := rest[1:end]
		m := rest[end+2:]
		ptr := strings.HasPrefix(tn, "*")
		tn = strings.TrimPrefix(tn, "*")
		tobj := sp.Pkg.Scope().Lookup(tn)
		if tobj == nil {
			return nil
		}
		var T types.Type = tobj.Type()
		if ptr {
			T = types.NewPointer(T)
		}
		sel := p.Prog.MethodSets.MethodSet(T).Lookup(sp.Pkg, m)
		if sel == nil {
			return nil
		}
		f := p.Prog.MethodValue(sel)
		// unwrap promoted-method wrappers is not needed: callers ask for declared methods
		return f
	}
	return sp.Func(rest)
}

func splitSpec(spec string) (pkg, rest string) {
	// the package part ends at the last '.' that precedes either '(' or the final identifier
	if i := strings.Index(spec, ".("); i >= 0 {
		return spec[:i], spec[i+1:]
	}
	i := strings.LastIndex(spec, ".")
	if i < 0 {
		return ".", spec
	}
	return spec[:i], spec[i+1:]
}

// Named looks up a named type "pkg/path.T".
func (p *Program) Named(spec string) *types.Named {
	pkgRel, name := splitSpec(spec)
	path := modPath
	if pkgRel != "." && pkgRel != "" {
		path = modPath + "/" + pkgRel
	}
	pk := p.ByPath[path]
	if pk == nil || pk.Types == nil {
		return nil
	}
	o := pk.Types.Scope().Lookup(name)
	if o == nil {
		return nil
	}
	n, _ := o.Type().(*types.Named)
	return n
}

// Global looks up a package-level variable.
func (p *Program) Global(spec string) *ssa.Global {
	pkgRel, name := splitSpec(spec)
	path := modPath
	if pkgRel != "." && pkgRel != "" {
		path = modPath + "/" + pkgRel
	}
	sp := p.SSA[path]
	if sp == nil {
		return nil
	}
	g, _ := sp.Members[name].(*ssa.Global)
	return g
}

// Implementations returns, for interface type iface, the concrete method functions named method of
// every named type declared in the module that implements it.
func (p *Program) Implementations(iface *types.Interface, method string) []*ssa.Function {
	var out []*ssa.Function
	seen := map[*ssa.Function]bool{}
	for _, pk := range p.Pkgs {
		if pk.Types == nil || !inModule(pk.PkgPath) {
			continue
		}
		sc := pk.Types.Scope()
		for _, n := range sc.Names() {
			tn, ok := sc.Lookup(n).(*types.TypeName)
			if !ok || tn.IsAlias() {
				continue
			}
			if _, isIface := tn.Type().Underlying().(*types.Interface); isIface {
				continue
			}
			for _, T := range []types.Type{tn.Type(), types.NewPointer(tn.Type())} {
				if !types.Implements(T, iface) {
					continue
				}
				sel := p.Prog.MethodSets.MethodSet(T).Lookup(pk.Types, method)
				if sel == nil {
					// exported method: package irrelevant
					sel = p.Prog.MethodSets.MethodSet(T).Lookup(nil, method)
				}
				if sel == nil {
					continue
				}
				f := p.Prog.MethodValue(sel)
				f = unwrapSynthetic(f)
				if f != nil && !seen[f] && f.Blocks != nil {
					seen[f] = true
					out = append(out, f)
				}
				break
			}
		}
	}
	sort.Slice(out, func(i, j int) bool { return fnKey(out[i]) < fnKey(out[j]) })
	return out
}

// unwrapSynthetic follows a synthetic wrapper (pointer-receiver wrapper / promoted method) to the declared function.
func unwrapSynthetic(f *ssa.Function) *ssa.Function {
	for i := 0; i < 4 && f != nil && f.Synthetic != "" && f.Syntax() == nil; i++ {
		var next *ssa.Function
		for _, b := range f.Blocks {
			for _, ins := range b.Instrs {
				if c, ok := ins.(ssa.CallInstruction); ok {
					if cal := c.Common().StaticCallee(); cal != nil {
						next = cal
					}
				}
			}
		}
		if next == nil {
			return f
		}
		f = next
	}
	return f
}

// CHA returns the whole-program CHA call graph (lazy).
func (p *Program) CHA() *callgraph.Graph {
	if p.cgCHA == nil {
		p.cgCHA = cha.CallGraph(p.Prog)
	}
	return p.cgCHA
}

// VTA returns the VTA-refined call graph (lazy).
func (p *Program) VTA() *callgraph.Graph {
	if p.cgVTA == nil {
		p.cgVTA = vta.CallGraph(ssautil.AllFunctions(p.Prog), p.CHA())
	}
	return p.cgVTA
}

// Bounded returns the module-bounded successor relation derived from call graph g:
// edges between module functions only, plus closure-argument edges (a function value made in module code and
// passed to a call is treated as called from that function) and parent->anonymous edges for deferred/go closures.
func (p *Program) Bounded(useVTA bool) map[*ssa.Function][]*ssa.Function {
	if useVTA && p.boundedVTA != nil {
		return p.boundedVTA
	}
	if !useVTA && p.boundedCHA != nil {
		return p.boundedCHA
	}
	g := p.CHA()
	if useVTA {
		g = p.VTA()
	}
	succ := map[*ssa.Function]map[*ssa.Function]bool{}
	addE := func(a, b *ssa.Function) {
		if a == nil || b == nil {
			return
		}
		if succ[a] == nil {
			succ[a] = map[*ssa.Function]bool{}
		}
		succ[a][b] = true
	}
	for _, f := range p.modFuncs {
		n := g.Nodes[f]
		if n != nil {
			for _, e := range n.Out {
				cal := e.Callee.Func
				if inModule(fnPkgPath(cal)) {
					addE(f, cal)
				}
			}
		}
		// closure-argument edges and function-value arguments
		for _, b := range f.Blocks {
			for _, ins := range b.Instrs {
				ci, ok := ins.(ssa.CallInstruction)
				if !ok {
					continue
				}
				for _, a := range ci.Common().Args {
					switch v := a.(type) {
					case *ssa.MakeClosure:
						if fn, ok := v.Fn.(*ssa.Function); ok {
							addE(f, fn)
						}
					case *ssa.Function:
						if inModule(fnPkgPath(v)) {
							addE(f, v)
						}
					}
				}
				// defer/go of closure values
				switch v := ci.Common().Value.(type) {
				case *ssa.MakeClosure:
					if fn, ok := v.Fn.(*ssa.Function); ok {
						addE(f, fn)
					}
				}
			}
		}
	}
	out := map[*ssa.Function][]*ssa.Function{}
	for a, m := range succ {
		for b := range m {
			out[a] = append(out[a], b)
		}
		sort.Slice(out[a], func(i, j int) bool { return fnKey(out[a][i]) < fnKey(out[a][j]) })
	}
	if useVTA {
		p.boundedVTA = out
	} else {
		p.boundedCHA = out
	}
	return out
}

// Reach returns the set of module functions reachable from roots on the bounded graph, with a parent map for paths.
func (p *Program) Reach(roots []*ssa.Function, useVTA bool) (map[*ssa.Function]*ssa.Function, []*ssa.Function) {
	g := p.Bounded(useVTA)
	parent := map[*ssa.Function]*ssa.Function{}
	var order []*ssa.Function
	var q []*ssa.Function
	for _, r := range roots {
		if r == nil {
			continue
		}
		if _, ok := parent[r]; !ok {
			parent[r] = nil
			q = append(q, r)
		}
	}
	for len(q) > 0 {
		f := q[0]
		q = q[1:]
		order = append(order, f)
		for _, s := range g[f] {
			if _, ok := parent[s]; !ok {
				parent[s] = f
				q = append(q, s)
			}
		}
	}
	return parent, order
}

func pathTo(parent map[*ssa.Function]*ssa.Function, f *ssa.Function) string {
	var parts []string
	for f != nil {
		parts = append([]string{fnKey(f)}, parts...)
		f = parent[f]
	}
	return strings.Join(parts, " -> ")
}

// FileOf returns the syntax file containing pos in the module's packages.
func (p *Program) FileOf(pos token.Pos) (*ast.File, *packages.Package) {
	for _, pk := range p.Pkgs {
		for _, f := range pk.Syntax {
			if f.Pos() <= pos && pos <= f.End() {
				return f, pk
			}
		}
	}
	return nil, nil
}
