package main

import (
	"fmt"
	"path/filepath"
	"sort"
	"sync"
)

// LoadAdapters loads every module under pkg/adapters (syntax + types, no SSA: hertz/kitex have
// third-party dependencies that do not type-check with the installed Go).
func LoadAdapters(root string) ([]*Program, error) { return LoadAdaptersOverlay(root, nil) }

// LoadAdaptersOverlay is LoadAdapters with a go/packages overlay (seeded variants).
func LoadAdaptersOverlay(root string, overlay map[string][]byte) ([]*Program, error) {
	dirs, _ := filepath.Glob(filepath.Join(root, "pkg", "adapters", "*", "go.mod"))
	sort.Strings(dirs)
	if len(dirs) == 0 {
		return nil, fmt.Errorf("no adapter modules found under %s/pkg/adapters", root)
	}
	progs := make([]*Program, len(dirs))
	errs := make([]error, len(dirs))
	sem := make(chan struct{}, 4)
	var wg sync.WaitGroup
	for i, gm := range dirs {
		wg.Add(1)
		go func(i int, dir string) {
			defer wg.Done()
			sem <- struct{}{}
			defer func() { <-sem }()
			p, err := loadAdapter(dir, overlay)
			progs[i], errs[i] = p, err
		}(i, filepath.Dir(gm))
	}
	wg.Wait()
	for i, e := range errs {
		if e != nil {
			return nil, fmt.Errorf("adapter %s: %v", dirs[i], e)
		}
	}
	return progs, nil
}

func loadAdapter(dir string, overlay map[string][]byte) (*Program, error) {
	p, err := LoadProgram(dir, false, overlay)
	if err != nil {
		return nil, err
	}
	n := p.TypeErrors
	if n > 0 {
		return nil, fmt.Errorf("%d type errors in adapter packages of %s", n, dir)
	}
	return p, nil
}
