package main

import (
	"fmt"
	"go/types"
	"sort"
	"strings"

	"golang.org/x/tools/go/ssa"
)

// C15: lock discipline of the rule managers, node storage and caches.

// guardTable is frozen after reading every access (DESIGN.md section 4, C15).
var guardTable = []guardSpec{
	{pkg: "core/flow", name: "tcMap", data: "core/flow.tcMux", update: "core/flow.updateRuleMux"},
	{pkg: "core/flow", name: "currentRules", data: "core/flow.updateRuleMux"},
	{pkg: "core/isolation", name: "ruleMap", data: "core/isolation.rwMux", update: "core/isolation.updateRuleMux"},
	{pkg: "core/isolation", name: "currentRules", data: "core/isolation.updateRuleMux"},
	{pkg: "core/hotspot", name: "tcMap", data: "core/hotspot.tcMux", update: "core/hotspot.updateRuleMux"},
	{pkg: "core/hotspot", name: "currentRules", data: "core/hotspot.updateRuleMux"},
	{pkg: "core/circuitbreaker", name: "breakers", data: "core/circuitbreaker.updateMux", update: "core/circuitbreaker.updateRuleMux"},
	{pkg: "core/circuitbreaker", name: "breakerRules", data: "core/circuitbreaker.updateMux", update: "core/circuitbreaker.updateRuleMux"},
	{pkg: "core/circuitbreaker", name: "currentRules", data: "core/circuitbreaker.updateRuleMux"},
	{pkg: "core/system", name: "ruleMap", data: "core/system.ruleMapMux", update: "core/system.updateRuleMux"},
	{pkg: "core/system", name: "currentRules", data: "core/system.updateRuleMux"},
	{pkg: "core/outlier", name: "outlierRules", data: "core/outlier.updateMux", update: "core/outlier.updateRuleMux"},
	{pkg: "core/outlier", name: "breakerRules", data: "core/outlier.updateMux", update: "core/outlier.updateRuleMux"},
	{pkg: "core/outlier", name: "nodeBreakers", data: "core/outlier.updateMux"},
	{pkg: "core/outlier", name: "currentRules", data: "core/outlier.updateRuleMux"},
	{pkg: "core/outlier", name: "recyclers", data: "core/outlier.recyclerMutex"},
	{pkg: "core/outlier", name: "retryers", data: "core/outlier.retryerMutex"},
	{pkg: "core/outlier", name: "Recycler.status", field: true, data: "core/outlier.Recycler.mtx"},
	{pkg: "core/outlier", name: "Retryer.counts", field: true, data: "core/outlier.Retryer.mtx"},
	{pkg: "core/stat", name: "resNodeMap", data: "core/stat.rnsMux"},
}

func init() {
	register(&Rule{
		ID: "race.guarded-by", Props: []string{"C15"}, Floor: 120,
		Doc: "every access to a rule map / node map / cache of the frozen guarded-by table holds its data mutex: writes (replace, map store, delete, in-place mutation of an inner map) in write mode; reads in read or write mode, or under the module's update mutex when every writer of that variable also holds the update mutex (writers-hold-both idiom). Locksets are must-hold sets from a forward dataflow; unexported helpers inherit the intersection of their call sites' locksets",
		Run: func(c *Ctx) {
			la := newLockAnalysis(c.P)
			c.Stat("functions_with_lock_state", len(la.funcs))
			for _, gs := range guardTable {
				var accs []varAccess
				id := gs.pkg + "." + gs.name
				if gs.field {
					parts := strings.SplitN(gs.name, ".", 2)
					accs = accessesOfField(c.P, gs.pkg+"."+parts[0], parts[1], la.funcs)
				} else {
					g := c.P.Global(gs.pkg + "." + gs.name)
					if g == nil {
						c.AnchorLost("guarded variable " + id)
						continue
					}
					accs = accessesOfGlobal(c.P, g, la.funcs)
				}
				if len(accs) == 0 {
					c.AnchorLost("accesses of " + id)
					continue
				}
				// do all writers hold the update mutex?
				writersHoldUpdate := gs.update != ""
				if gs.update != "" {
					for _, a := range accs {
						if a.write && la.held(a.ins)[gs.update] != 'W' {
							writersHoldUpdate = false
						}
					}
				}
				ord := map[string]int{}
				for _, a := range accs {
					k := fnKey(a.fn)
					ord[k]++
					key := fmt.Sprintf("%s / %s %s#%d", k, map[bool]string{true: "write", false: "read"}[a.write], id, ord[k])
					held := la.held(a.ins)
					mode := held[gs.data]
					switch {
					case a.write && mode == 'W':
						c.Hold(key, instrPos(a.ins), "%s under %s (W)", describeAccess(a), gs.data)
					case a.write:
						c.Violate(key, instrPos(a.ins), "%s of %s without holding %s in write mode (held: %s): concurrent readers of the map race with this write", describeAccess(a), id, gs.data, held)
					case mode == 'R' || mode == 'W':
						c.Hold(key, instrPos(a.ins), "%s under %s (%c)", describeAccess(a), gs.data, mode)
					case writersHoldUpdate && held[gs.update] == 'W':
						c.Hold(key, instrPos(a.ins), "%s under %s; every writer of %s also holds it", describeAccess(a), gs.update, id)
					default:
						c.Violate(key, instrPos(a.ins), "%s of %s without holding %s (held: %s): races with LoadRules / per-resource updates running on another goroutine", describeAccess(a), id, gs.data, held)
					}
				}
			}
		},
	})

	register(&Rule{
		ID: "race.unguarded-candidates", Props: []string{"C15"}, Floor: 0,
		Doc: "thorough tier only, evidence only (never a verdict): lists every package-level variable of the library that is written outside init at a point where no mutex is held and that is neither in the guarded-by table nor accessed atomically, as candidates for a human to confirm and freeze into the table",
		Run: func(c *Ctx) {
			if c.Tier != "thorough" {
				return
			}
			la := newLockAnalysis(c.P)
			inTable := map[string]bool{}
			for _, gs := range guardTable {
				if !gs.field {
					inTable[gs.pkg+"."+gs.name] = true
				}
			}
			ax := buildAtomicIndex(c.P)
			n := 0
			for _, pk := range c.P.Pkgs {
				sp := c.P.SSA[pk.PkgPath]
				rp := relPkg(pk.PkgPath)
				if sp == nil || strings.HasPrefix(rp, "example") || strings.HasPrefix(rp, "tests") || strings.HasPrefix(rp, "pkg/") {
					continue
				}
				var names []string
				for name := range sp.Members {
					names = append(names, name)
				}
				sort.Strings(names)
				for _, name := range names {
					g, ok := sp.Members[name].(*ssa.Global)
					if !ok || inTable[rp+"."+name] {
						continue
					}
					if _, isAtomic := ax.vars[g]; isAtomic {
						continue
					}
					for _, a := range accessesOfGlobal(c.P, g, la.funcs) {
						if !a.write || len(la.held(a.ins)) > 0 {
							continue
						}
						n++
						c.Info(fmt.Sprintf("%s.%s / unguarded %s in %s", rp, name, a.what, fnKey(a.fn)), instrPos(a.ins), "package variable written with no lock held (not in the guarded-by table, not atomic)")
						break
					}
				}
			}
			c.Stat("unguarded_written_globals", n)
		},
	})

	register(&Rule{
		ID: "race.no-mutable-escape", Props: []string{"C15"}, Floor: 1,
		Doc: "an inner map obtained by looking up a guarded map-of-maps that is mutated in place somewhere (map store / delete on the looked-up value) is never iterated, indexed or measured at a point where the guarding mutex is not held",
		Run: func(c *Ctx) {
			la := newLockAnalysis(c.P)
			for _, gs := range guardTable {
				if gs.field {
					continue
				}
				g := c.P.Global(gs.pkg + "." + gs.name)
				if g == nil {
					continue
				}
				mt, ok := g.Type().(*types.Pointer).Elem().Underlying().(*types.Map)
				if !ok {
					continue
				}
				if _, inner := mt.Elem().Underlying().(*types.Map); !inner {
					continue
				}
				// mutated in place anywhere?
				mutated := false
				for _, a := range accessesOfGlobal(c.P, g, la.funcs) {
					if a.write && strings.HasPrefix(a.what, "inner map") {
						mutated = true
					}
				}
				id := gs.pkg + "." + gs.name
				if !mutated {
					c.Hold(id+" / inner-maps-immutable", g.Pos(), "inner maps of %s are never mutated in place", id)
					continue
				}
				n := 0
				ordk := map[string]int{}
				for _, f := range la.funcs {
					eachInstr(f, func(ins ssa.Instruction) {
						ld, ok := ins.(*ssa.UnOp)
						if !ok || ld.X != ssa.Value(g) {
							return
						}
						for _, r := range refsOf(ld) {
							lk, ok := r.(*ssa.Lookup)
							if !ok {
								continue
							}
							var inner ssa.Value = lk
							if lk.CommaOk {
								for _, r2 := range refsOf(lk) {
									if ex, ok := r2.(*ssa.Extract); ok && ex.Index == 0 {
										inner = ex
									}
								}
							}
							for _, use := range valueAccesses(f, inner, 1) {
								n++
								ordk[fnKey(f)+use.what]++
								key := fmt.Sprintf("%s / inner %s %s#%d", fnKey(f), use.what, id, ordk[fnKey(f)+use.what])
								mode := la.held(use.ins)[gs.data]
								if mode == 'R' || mode == 'W' {
									c.Hold(key, instrPos(use.ins), "inner map used under %s", gs.data)
								} else {
									c.Violate(key, instrPos(use.ins), "the inner map of %s is used (%s) after %s was released, while other functions store into / delete from that same inner map under the lock: concurrent map iteration and map write", id, use.what, gs.data)
								}
							}
						}
					})
				}
			}
		},
	})

	register(&Rule{
		ID: "race.published-immutable", Props: []string{"C15", "C14"}, Floor: 6,
		Doc: "a per-resource slice read from an enforced rule / controller / breaker map is never appended to in place and never the base of an element store (directly, through re-slicing, or in the functions it is returned to): published lists are replaced wholesale, so a request sees entirely the old or entirely the new list",
		Run: func(c *Ctx) {
			la := newLockAnalysis(c.P)
			enforced := map[string]bool{"core/flow.tcMap": true, "core/isolation.ruleMap": true, "core/hotspot.tcMap": true, "core/circuitbreaker.breakers": true, "core/circuitbreaker.breakerRules": true, "core/system.ruleMap": true}
			n := 0
			for _, gs := range guardTable {
				id := gs.pkg + "." + gs.name
				if !enforced[id] {
					continue
				}
				g := c.P.Global(id)
				if g == nil {
					c.AnchorLost(id)
					continue
				}
				// taint: slices looked up / ranged from the map
				tainted := map[ssa.Value]string{}
				var work []ssa.Value
				add := func(v ssa.Value, why string) {
					if _, ok := v.Type().Underlying().(*types.Slice); !ok {
						return
					}
					if _, seen := tainted[v]; !seen {
						tainted[v] = why
						work = append(work, v)
					}
				}
				for _, f := range la.funcs {
					eachInstr(f, func(ins ssa.Instruction) {
						ld, ok := ins.(*ssa.UnOp)
						if !ok || ld.X != ssa.Value(g) {
							return
						}
						for _, r := range refsOf(ld) {
							switch x := r.(type) {
							case *ssa.Lookup:
								if x.CommaOk {
									for _, r2 := range refsOf(x) {
										if ex, ok := r2.(*ssa.Extract); ok && ex.Index == 0 {
											add(ex, id+"[k]")
										}
									}
								} else {
									add(x, id+"[k]")
								}
							case *ssa.Range:
								for _, r2 := range refsOf(x) {
									if nx, ok := r2.(*ssa.Next); ok {
										for _, r3 := range refsOf(nx) {
											if ex, ok := r3.(*ssa.Extract); ok && ex.Index == 2 {
												add(ex, "range "+id)
											}
										}
									}
								}
							}
						}
					})
				}
				taintedMaps := map[ssa.Value]string{}
				addMap := func(m ssa.Value, why string) {
					if _, ok := m.Type().Underlying().(*types.Map); !ok {
						return
					}
					if _, seen := taintedMaps[m]; seen {
						return
					}
					taintedMaps[m] = why
					// everything read back out of that map is a published slice too
					for _, r := range refsOf(m) {
						switch x := r.(type) {
						case *ssa.Lookup:
							if x.X != m {
								continue
							}
							if x.CommaOk {
								for _, r2 := range refsOf(x) {
									if ex, ok := r2.(*ssa.Extract); ok && ex.Index == 0 {
										add(ex, why+" via local map")
									}
								}
							} else {
								add(x, why+" via local map")
							}
						case *ssa.Range:
							for _, r2 := range refsOf(x) {
								if nx, ok := r2.(*ssa.Next); ok {
									for _, r3 := range refsOf(nx) {
										if ex, ok := r3.(*ssa.Extract); ok && ex.Index == 2 {
											add(ex, why+" via local map")
										}
									}
								}
							}
						}
					}
				}
				for len(work) > 0 {
					v := work[0]
					work = work[1:]
					for _, r := range refsOf(v) {
						switch x := r.(type) {
						case *ssa.MapUpdate:
							if x.Value == v {
								addMap(x.Map, tainted[v])
							}
						case *ssa.Store:
							// spilled into a local (named results of functions with defer, captured variables)
							if al, ok := x.Addr.(*ssa.Alloc); ok && x.Val == v {
								for _, r2 := range refsOf(al) {
									if ld, ok := r2.(*ssa.UnOp); ok && ld.X == ssa.Value(al) {
										add(ld, tainted[v])
									}
								}
							}
						case *ssa.Phi:
							add(x, tainted[v])
						case *ssa.Slice:
							add(x, tainted[v]+"[:]")
						case *ssa.Return:
							// flows to the callers of this function
							fn := x.Parent()
							for i, res := range x.Results {
								if res != v {
									continue
								}
								for _, cs := range c.P.StaticCallers(fn) {
									if call, ok := cs.(*ssa.Call); ok {
										if fn.Signature.Results().Len() == 1 {
											add(call, tainted[v]+" via "+fn.Name())
										} else {
											for _, r2 := range refsOf(call) {
												if ex, ok := r2.(*ssa.Extract); ok && ex.Index == i {
													add(ex, tainted[v]+" via "+fn.Name())
												}
											}
										}
									}
								}
							}
						case *ssa.Call:
							// passed to a module function: its parameter is the published slice as well
							if cal := x.Call.StaticCallee(); cal != nil && inModule(fnPkgPath(cal)) && cal.Blocks != nil {
								for i, a := range x.Call.Args {
									if a == v && i < len(cal.Params) {
										add(cal.Params[i], tainted[v]+" passed to "+cal.Name())
									}
								}
							}
							if b, ok := x.Call.Value.(*ssa.Builtin); ok && b.Name() == "append" && x.Call.Args[0] == v {
								n++
								c.Violate(fmt.Sprintf("%s / append-in-place %s#%d", fnKey(x.Parent()), id, n), x.Pos(), "append to a slice that is published in %s (%s): if the backing array has spare capacity the element is written into the list concurrent requests are iterating", id, tainted[v])
							}
						case *ssa.IndexAddr:
							if x.X == v {
								for _, r2 := range refsOf(x) {
									if st, ok := r2.(*ssa.Store); ok && st.Addr == ssa.Value(x) {
										n++
										c.Violate(fmt.Sprintf("%s / element-store %s#%d", fnKey(x.Parent()), id, n), st.Pos(), "element store into a slice published in %s (%s)", id, tainted[v])
									}
								}
							}
						}
					}
				}
				c.Hold(id+" / published-slices", g.Pos(), "%d values derived from slices published in %s; none is appended to in place or element-stored", len(tainted), id)
			}
		},
	})

	register(&Rule{
		ID: "race.single-snapshot", Props: []string{"C15"}, Floor: 5,
		Doc: "each rule-check slot of the default chain reads its module's enforced list through exactly one getter call per request, outside any loop (a request racing with a rule update is decided entirely by the old or entirely by the new list); the outlier slot's second read is for scheduling the retryer, not for the decision (reported only)",
		Run: func(c *Ctx) {
			getters := map[string][]string{
				"core/flow.(*Slot).Check":           {"core/flow.getTrafficControllerListFor"},
				"core/isolation.(*Slot).Check":      {"core/isolation.getRulesOfResource"},
				"core/hotspot.(*Slot).Check":        {"core/hotspot.getTrafficControllersFor"},
				"core/circuitbreaker.(*Slot).Check": {"core/circuitbreaker.getBreakersOfResource"},
				"core/system.(*AdaptiveSlot).Check": {"core/system.getRules"},
			}
			var names []string
			for k := range getters {
				names = append(names, k)
			}
			sort.Strings(names)
			for _, k := range names {
				f := c.P.Func(k)
				if f == nil {
					c.AnchorLost(k)
					continue
				}
				var gs []*ssa.Function
				for _, g := range getters[k] {
					if gf := c.P.Func(g); gf != nil {
						gs = append(gs, gf)
					} else {
						c.AnchorLost(g)
					}
				}
				count, inLoop := 0, false
				var visit func(fn *ssa.Function, d int, loopCtx bool)
				seen := map[*ssa.Function]bool{}
				visit = func(fn *ssa.Function, d int, loopCtx bool) {
					if d > 3 || seen[fn] || fn.Blocks == nil {
						return
					}
					seen[fn] = true
					loops := loopBlocks(fn)
					for _, ci := range callsIn(fn) {
						cal := ci.Common().StaticCallee()
						if cal == nil {
							continue
						}
						l := loopCtx || loops[ci.Block()]
						for _, g := range gs {
							if cal == g {
								count++
								if l {
									inLoop = true
								}
							}
						}
						if fnPkgPath(cal) == fnPkgPath(f) {
							visit(cal, d+1, l)
						}
					}
				}
				visit(f, 0, false)
				c.Check(count == 1 && !inLoop, k+" / list-read-once", f.Pos(), "%d read(s) of the enforced list per request, in loop: %v (want exactly one, outside loops)", count, inLoop)
			}
		},
	})

	register(&Rule{
		ID: "race.lru-write-lock", Props: []string{"C15"}, Floor: 8,
		Doc: "every LruCacheMap method that calls an LRU method which writes LRU state or reorders its list (Add, AddIfAbsent, Get - it moves the entry to the front -, Remove, Purge, Resize, RemoveOldest) holds the cache lock in write mode; pure readers hold it at least in read mode",
		Run: func(c *Ctx) {
			la := newLockAnalysis(c.P)
			lru := c.P.Named("core/hotspot/cache.LRU")
			cm := c.P.Named("core/hotspot/cache.LruCacheMap")
			if lru == nil || cm == nil {
				c.AnchorLost("cache.LRU / LruCacheMap")
				return
			}
			// which LRU methods mutate? (store to an LRU field, map store/delete, or a container/list mutator) - transitively
			mut := map[*ssa.Function]bool{}
			var mutates func(f *ssa.Function, d int) bool
			mutates = func(f *ssa.Function, d int) bool {
				if f == nil || d > 4 || f.Blocks == nil {
					return false
				}
				if v, ok := mut[f]; ok {
					return v
				}
				mut[f] = false
				res := false
				eachInstr(f, func(ins ssa.Instruction) {
					switch x := ins.(type) {
					case *ssa.Store:
						if fa, ok := x.Addr.(*ssa.FieldAddr); ok && namedOf(fa.X.Type()) == lru {
							res = true
						}
					case *ssa.MapUpdate:
						res = true
					case ssa.CallInstruction:
						if b, ok := x.Common().Value.(*ssa.Builtin); ok && b.Name() == "delete" {
							res = true
						}
						if cal := x.Common().StaticCallee(); cal != nil {
							n := extFuncName(cal)
							if strings.HasPrefix(n, "container/list.(List).") {
								switch cal.Name() {
								case "Front", "Back", "Len":
								default:
									res = true
								}
							}
							if cal.Signature.Recv() != nil && namedOf(cal.Signature.Recv().Type()) == lru && mutates(cal, d+1) {
								res = true
							}
						}
					}
				})
				mut[f] = res
				return res
			}
			const lockKey = "core/hotspot/cache.LruCacheMap.lock"
			for _, f := range c.P.FuncsIn(modPath + "/core/hotspot/cache") {
				recv := f.Signature.Recv()
				if recv == nil || namedOf(recv.Type()) != cm {
					continue
				}
				for _, ci := range callsIn(f) {
					cal := ci.Common().StaticCallee()
					if cal == nil || cal.Signature.Recv() == nil || namedOf(cal.Signature.Recv().Type()) != lru {
						continue
					}
					key := fmt.Sprintf("%s / LRU.%s", fnKey(f), cal.Name())
					mode := la.held(ci.(ssa.Instruction))[lockKey]
					if mutates(cal, 0) {
						c.Check(mode == 'W', key, ci.Pos(), "LRU.%s mutates the cache (entries map / recency list); lock held: %q (want write mode)", cal.Name(), string(mode))
					} else {
						c.Check(mode == 'W' || mode == 'R', key, ci.Pos(), "LRU.%s only reads; lock held: %q (want at least read mode)", cal.Name(), string(mode))
					}
				}
			}
		},
	})

	register(&Rule{
		ID: "race.lock-order", Props: []string{"C15"}, Floor: 1,
		Doc: "the acquired-while-holding relation over all mutexes of the library (direct Lock calls and, through static callees to depth 4, the locks they acquire) is acyclic: no lock-order inversion can deadlock concurrent API calls",
		Run: func(c *Ctx) {
			la := newLockAnalysis(c.P)
			acq := map[*ssa.Function]map[string]bool{}
			var acquires func(f *ssa.Function, d int) map[string]bool
			acquires = func(f *ssa.Function, d int) map[string]bool {
				if m, ok := acq[f]; ok {
					return m
				}
				m := map[string]bool{}
				acq[f] = m
				if f == nil || d > 4 || f.Blocks == nil {
					return m
				}
				for _, ci := range callsIn(f) {
					if call, ok := ci.(*ssa.Call); ok {
						if k, op, ok := mutexOp(call); ok && (op == "Lock" || op == "RLock") {
							m[k] = true
						}
					}
					if cal := ci.Common().StaticCallee(); cal != nil && inModule(fnPkgPath(cal)) {
						for k := range acquires(cal, d+1) {
							m[k] = true
						}
					}
				}
				return m
			}
			edges := map[string]map[string]string{}
			recursive := map[string]string{}
			addEdge := func(a, b, where string) {
				if a == b {
					return
				}
				if edges[a] == nil {
					edges[a] = map[string]string{}
				}
				if _, ok := edges[a][b]; !ok {
					edges[a][b] = where
				}
			}
			for _, f := range la.funcs {
				for _, ci := range callsIn(f) {
					held := la.held(ci.(ssa.Instruction))
					if len(held) == 0 {
						continue
					}
					var got []string
					if call, ok := ci.(*ssa.Call); ok {
						if k, op, ok := mutexOp(call); ok && (op == "Lock" || op == "RLock") {
							got = append(got, k)
						}
					}
					if cal := ci.Common().StaticCallee(); cal != nil && inModule(fnPkgPath(cal)) {
						for k := range acquires(cal, 0) {
							got = append(got, k)
						}
					}
					for h := range held {
						for _, g := range got {
							if h == g {
								if recursive[h] == "" {
									recursive[h] = c.P.Pos(ci.Pos())
								}
								continue
							}
							addEdge(h, g, c.P.Pos(ci.Pos()))
						}
					}
				}
			}
			// cycle detection
			color := map[string]int{}
			var cyc []string
			var dfs func(n string, path []string) bool
			dfs = func(n string, path []string) bool {
				color[n] = 1
				for m := range edges[n] {
					if color[m] == 1 {
						cyc = append(append([]string{}, path...), n, m)
						return true
					}
					if color[m] == 0 && dfs(m, append(path, n)) {
						return true
					}
				}
				color[n] = 2
				return false
			}
			var nodes []string
			ne := 0
			for a, m := range edges {
				nodes = append(nodes, a)
				ne += len(m)
			}
			sort.Strings(nodes)
			found := false
			for _, n := range nodes {
				if color[n] == 0 && dfs(n, nil) {
					found = true
					break
				}
			}
			c.Stat("lock_order_edges", ne)
			var es []string
			for _, a := range nodes {
				for b, w := range edges[a] {
					es = append(es, a+" -> "+b+" ("+w+")")
				}
			}
			sort.Strings(es)
			var rk []string
			for k := range recursive {
				rk = append(rk, k)
			}
			sort.Strings(rk)
			for _, k := range rk {
				c.addAt(Violated, "module / recursive-lock "+k, recursive[k], "%s is acquired again (directly or through a callee) while it is already held: a second RLock parks behind a writer that is waiting for the first RLock - getters, rule updates and then every Entry on the module hang", k)
			}
			if len(rk) == 0 {
				c.Hold("module / no-recursive-lock", 0, "no mutex is re-acquired while held")
			}
			if found {
				c.Violate("module / lock-order", 0, "lock-order cycle: %s", strings.Join(cyc, " -> "))
			} else {
				c.Hold("module / lock-order", 0, "%d acquired-while-holding edges, acyclic: %s", ne, strings.Join(es, "; "))
			}
		},
	})
}

func init() {
	register(&Rule{
		ID: "race.locks-released", Props: []string{"C15"}, Floor: 80,
		Doc: "every Lock / RLock taken in a non-test function of the module is released on every path to the function's end: from the acquisition each path reaches the matching Unlock / RUnlock (or a `defer` of it) before a return; a path that leaves with the mutex held blocks every later Entry / rule load on it (functions that hand the lock to their caller are named exceptions)",
		Run: func(c *Ctx) {
			n := 0
			for _, f := range c.P.ModuleFuncs() {
				if isTestOrExample(f) || f.Blocks == nil {
					continue
				}
				k := 0
				for _, ci := range callsIn(f) {
					if _, isDefer := ci.(*ssa.Defer); isDefer {
						continue
					}
					key, op, ok := mutexOp(ci)
					if !ok || (op != "Lock" && op != "RLock") {
						continue
					}
					n++
					k++
					want := "Unlock"
					if op == "RLock" {
						want = "RUnlock"
					}
					okAll, off := allPathsHit(ci.(ssa.Instruction), func(x ssa.Instruction) bool {
						c2, isCall := x.(ssa.CallInstruction)
						if !isCall {
							return false
						}
						k2, op2, ok2 := mutexOp(c2)
						return ok2 && k2 == key && op2 == want
					}, nil)
					where := ""
					if off != nil {
						where = c.P.Pos(instrPos(off))
					}
					c.Check(okAll, fmt.Sprintf("%s / %s %s#%d", fnKey(f), op, key, k), ci.Pos(), "released on every path (a path reaches %s with the mutex still held)", where)
				}
			}
			c.Stat("lock acquisitions", n)
		},
	})
}
