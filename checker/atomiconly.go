package main

import (
	"fmt"
	"go/types"
	"sort"
	"strings"

	"golang.org/x/tools/go/ssa"
)

// E3: atomic-only discipline. A struct field or package-level variable whose address is handed to a
// sync/atomic function anywhere in the module must be accessed through sync/atomic everywhere
// (initialisation of a fresh, unpublished object excepted).

type atomicVar struct {
	field       *types.Var  // struct field, or nil
	global      *ssa.Global // package-level variable, or nil
	owner       string      // "pkgrel.Type" or "pkgrel"
	name        string
	atomicSites int
	plain       []plainAccess
}

type plainAccess struct {
	fn   *ssa.Function
	ins  ssa.Instruction
	kind string // "read" | "write"
	live bool
}

func (a *atomicVar) id() string { return a.owner + "." + a.name }

type atomicIndex struct {
	vars map[interface{}]*atomicVar // key: *types.Var or *ssa.Global
}

func atomicFuncName(c ssa.CallInstruction) (string, bool) {
	f := c.Common().StaticCallee()
	if f == nil {
		return "", false
	}
	n := extFuncName(f)
	if strings.HasPrefix(n, "sync/atomic.") && f.Signature.Recv() == nil {
		return strings.TrimPrefix(n, "sync/atomic."), true
	}
	return "", false
}

// addrRoot strips IndexAddr and conversions from an address and returns the FieldAddr / Global at its root.
func addrRoot(v ssa.Value) ssa.Value {
	for {
		switch x := v.(type) {
		case *ssa.IndexAddr:
			v = x.X
		case *ssa.Convert:
			v = x.X
		case *ssa.ChangeType:
			v = x.X
		default:
			return v
		}
	}
}

func isTestOrExample(f *ssa.Function) bool {
	rp := relPkg(fnPkgPath(f))
	return strings.HasPrefix(rp, "example") || strings.HasPrefix(rp, "tests") || strings.HasPrefix(rp, "pkg/")
}

func ownerOfField(fa *ssa.FieldAddr) string {
	o, _ := fieldOf(fa)
	return o
}

func buildAtomicIndex(P *Program) *atomicIndex {
	ix := &atomicIndex{vars: map[interface{}]*atomicVar{}}
	// pass 1: which variables are accessed atomically
	for _, f := range P.ModuleFuncs() {
		for _, ci := range callsIn(f) {
			if _, ok := atomicFuncName(ci); !ok || len(ci.Common().Args) == 0 {
				continue
			}
			switch r := addrRoot(ci.Common().Args[0]).(type) {
			case *ssa.FieldAddr:
				fv := fieldVar(r)
				if fv == nil {
					continue
				}
				a := ix.vars[fv]
				if a == nil {
					a = &atomicVar{field: fv, owner: ownerOfField(r), name: fv.Name()}
					ix.vars[fv] = a
				}
				a.atomicSites++
			case *ssa.Global:
				a := ix.vars[r]
				if a == nil {
					a = &atomicVar{global: r, owner: relPkg(r.Pkg.Pkg.Path()), name: r.Name()}
					ix.vars[r] = a
				}
				a.atomicSites++
			}
		}
	}
	live := P.LiveFuncs()
	// pass 2: every other access
	var classify func(f *ssa.Function, a *atomicVar, addr ssa.Value, fresh bool, depth int)
	classify = func(f *ssa.Function, a *atomicVar, addr ssa.Value, fresh bool, depth int) {
		if depth > 4 {
			return
		}
		for _, ref := range refsOf(addr) {
			switch x := ref.(type) {
			case ssa.CallInstruction:
				if _, ok := atomicFuncName(x); ok {
					continue
				}
				// address passed to some other function: not classified (reported nowhere; atomic wrappers take care)
			case *ssa.Store:
				if x.Addr == addr && !fresh {
					a.plain = append(a.plain, plainAccess{fn: f, ins: x, kind: "write", live: live[f]})
				}
			case *ssa.UnOp:
				if x.X == addr && !fresh && !onlyLenOfArray(x) {
					a.plain = append(a.plain, plainAccess{fn: f, ins: x, kind: "read", live: live[f]})
				}
			case *ssa.IndexAddr:
				classify(f, a, x, fresh, depth+1)
			case *ssa.Convert:
				classify(f, a, x, fresh, depth+1)
			case *ssa.ChangeType:
				classify(f, a, x, fresh, depth+1)
			}
		}
	}
	for _, f := range P.ModuleFuncs() {
		if isTestOrExample(f) {
			continue
		}
		eachInstr(f, func(ins ssa.Instruction) {
			switch x := ins.(type) {
			case *ssa.FieldAddr:
				if fv := fieldVar(x); fv != nil {
					if a := ix.vars[fv]; a != nil {
						classify(f, a, x, rootIsAlloc(x.X), 0)
					}
				}
			}
		})
		// globals
		eachInstr(f, func(ins ssa.Instruction) {
			for _, op := range ins.Operands(nil) {
				if g, ok := (*op).(*ssa.Global); ok {
					if a := ix.vars[g]; a != nil {
						switch x := ins.(type) {
						case *ssa.Store:
							if x.Addr == g && f.Name() != "init" {
								a.plain = append(a.plain, plainAccess{fn: f, ins: x, kind: "write", live: live[f]})
							}
						case *ssa.UnOp:
							// `for i := range arr` over a package-level array loads it only for its (constant) length,
							// or not at all as far as the value is concerned: not a read of the elements
							if x.X == g && !onlyLenOfArray(x) {
								a.plain = append(a.plain, plainAccess{fn: f, ins: x, kind: "read", live: live[f]})
							}
						}
					}
				}
			}
		})
	}
	return ix
}

func (ix *atomicIndex) sorted() []*atomicVar {
	var out []*atomicVar
	for _, a := range ix.vars {
		out = append(out, a)
	}
	sort.Slice(out, func(i, j int) bool { return out[i].id() < out[j].id() })
	return out
}

// LiveFuncs: functions reachable (bounded CHA graph) from the exported API of the module's non-test packages.
func (p *Program) LiveFuncs() map[*ssa.Function]bool {
	if p.live != nil {
		return p.live
	}
	var roots []*ssa.Function
	for _, f := range p.modFuncs {
		if f.Parent() != nil {
			continue
		}
		if isTestOrExample(f) {
			continue
		}
		if f.Name() == "init" || strings.HasPrefix(f.Name(), "init#") {
			roots = append(roots, f)
			continue
		}
		if obj := f.Object(); obj != nil && obj.Exported() {
			// exported method of unexported type reachable through interfaces: CHA covers; take as root too
			roots = append(roots, f)
		}
	}
	par, _ := p.Reach(roots, false)
	p.live = map[*ssa.Function]bool{}
	for f := range par {
		p.live[f] = true
	}
	return p.live
}

// runAtomicOnly emits obligations for the atomic variables selected by sel.
func runAtomicOnly(c *Ctx, sel func(a *atomicVar) bool) {
	ix := buildAtomicIndex(c.P)
	for _, a := range ix.sorted() {
		if !sel(a) {
			continue
		}
		bad := 0
		ord := map[string]int{}
		for _, pa := range a.plain {
			k := fnKey(pa.fn)
			ord[k]++
			key := fmt.Sprintf("%s / plain-%s %s#%d", k, pa.kind, a.id(), ord[k])
			if !pa.live {
				c.Info(key, instrPos(pa.ins), "plain %s of atomically accessed %s in a function not reachable from the exported API (dead code)", pa.kind, a.id())
				continue
			}
			bad++
			c.Violate(key, instrPos(pa.ins), "%s is accessed through sync/atomic at %d sites but %s here with a plain %s: concurrent recorders / readers race on it", a.id(), a.atomicSites, map[string]string{"read": "read", "write": "written"}[pa.kind], pa.kind)
		}
		if bad == 0 {
			pos := c.P.Prog.Fset.Position(0)
			_ = pos
			if a.field != nil {
				c.Hold(a.id()+" / atomic-only", a.field.Pos(), "%d atomic access sites, no plain access in live code", a.atomicSites)
			} else {
				c.Hold(a.id()+" / atomic-only", a.global.Pos(), "%d atomic access sites, no plain access in live code", a.atomicSites)
			}
		}
	}
}

func init() {
	inOwner := func(a *atomicVar, owners ...string) bool {
		for _, o := range owners {
			if a.owner == o || strings.HasPrefix(a.owner, o+".") && !strings.Contains(o, ".") {
				return true
			}
		}
		return false
	}
	register(&Rule{
		ID: "atomic-only.window", Props: []string{"C09"}, Floor: 6,
		Doc: "every field of the sliding-window data structures (MetricBucket counters, minRt, maxConcurrency, BucketWrap.BucketStart, the breakers' bucket counters) that is accessed through sync/atomic anywhere is accessed through sync/atomic at every site reachable from the exported API",
		Run: func(c *Ctx) {
			runAtomicOnly(c, func(a *atomicVar) bool {
				return inOwner(a, "core/stat/base") || a.owner == "core/circuitbreaker.slowRequestCounter" || a.owner == "core/circuitbreaker.errorCounter"
			})
		},
	})
	register(&Rule{
		ID: "atomic-only.throttling", Props: []string{"C10"}, Floor: 1,
		Doc: "the throttling controller's lastPassedTime is accessed only through sync/atomic",
		Run: func(c *Ctx) {
			runAtomicOnly(c, func(a *atomicVar) bool { return a.owner == "core/flow.ThrottlingChecker" })
		},
	})
	register(&Rule{
		ID: "atomic-only.warmup", Props: []string{"C11"}, Floor: 2,
		Doc: "the warm-up calculator's storedTokens and lastFilledTime are accessed only through sync/atomic",
		Run: func(c *Ctx) {
			runAtomicOnly(c, func(a *atomicVar) bool { return a.owner == "core/flow.WarmUpTrafficShapingCalculator" })
		},
	})
	register(&Rule{
		ID: "atomic-only.breaker", Props: []string{"C12"}, Floor: 2,
		Doc: "the breaker's retry deadline and probe counter are accessed only through sync/atomic (the state word is covered by cb.transition-table)",
		Run: func(c *Ctx) {
			runAtomicOnly(c, func(a *atomicVar) bool { return a.owner == "core/circuitbreaker.circuitBreakerBase" })
		},
	})
	register(&Rule{
		ID: "atomic-only.gauge", Props: []string{"C01", "C04"}, Floor: 1,
		Doc: "BaseStatNode.concurrency (the in-flight gauge) is accessed only through sync/atomic",
		Run: func(c *Ctx) {
			runAtomicOnly(c, func(a *atomicVar) bool { return a.owner == "core/stat.BaseStatNode" })
		},
	})
	register(&Rule{
		ID: "atomic-only.all", Props: []string{"C15"}, Floor: 14,
		Doc: "every struct field or package variable of the library that is accessed through sync/atomic anywhere is accessed through sync/atomic at every site reachable from the exported API (fresh, unpublished objects excepted)",
		Run: func(c *Ctx) {
			runAtomicOnly(c, func(a *atomicVar) bool { return true })
		},
	})
}

// rootIsAlloc: the object addressed is a local allocation of this function (composite literal under
// construction or a local variable): stores to it happen before it can be published.
func rootIsAlloc(v ssa.Value) bool {
	for i := 0; i < 8; i++ {
		switch x := v.(type) {
		case *ssa.Alloc:
			return true
		case *ssa.FieldAddr:
			v = x.X
		case *ssa.IndexAddr:
			v = x.X
		default:
			return false
		}
	}
	return false
}

// onlyLenOfArray: the load of a whole array whose value is used for nothing but len / cap (`for i := range arr`):
// the length of an array is a constant, no memory is read.
func onlyLenOfArray(ld *ssa.UnOp) bool {
	if _, ok := ld.Type().Underlying().(*types.Array); !ok {
		return false
	}
	for _, r := range refsOf(ld) {
		if _, dbg := r.(*ssa.DebugRef); dbg {
			continue
		}
		call, ok := r.(*ssa.Call)
		if !ok {
			return false
		}
		b, ok := call.Call.Value.(*ssa.Builtin)
		if !ok || (b.Name() != "len" && b.Name() != "cap") {
			return false
		}
	}
	return true
}
