package main

import (
	"fmt"
	"go/token"
	"go/types"
	"strings"

	"golang.org/x/tools/go/ssa"
)

// The three controller / breaker builders (flow, hotspot, circuitbreaker): C14 (and C02 for the shared window).

var builderFuncs = []string{"core/flow.buildResourceTrafficShapingController", "core/hotspot.buildResourceTrafficShapingController", "core/circuitbreaker.BuildResourceCircuitBreaker"}

type builderShape struct {
	f        *ssa.Function
	oldP     *ssa.Parameter
	eqIdx    []ssa.Value // results #0 of calculateReuseIndexFor calls
	reuseIdx []ssa.Value // results #1
	idxCall  map[ssa.Value]*ssa.Call
	idxKey   map[ssa.Value]string          // "call/role": several loads of the same struct field are one index
	removed  map[ssa.Value]ssa.Instruction // index value -> the append(old[:i], old[i+1:]...) that removes it
	gens     []*ssa.Call                   // generator invocations (dynamic calls of a 2-parameter function value)
	result   []*ssa.Call                   // appends of a single element to the result list
}

func analyseBuilder(f *ssa.Function) *builderShape {
	bs := &builderShape{f: f, idxCall: map[ssa.Value]*ssa.Call{}, idxKey: map[ssa.Value]string{}, removed: map[ssa.Value]ssa.Instruction{}}
	for _, p := range f.Params {
		if _, ok := p.Type().Underlying().(*types.Slice); ok {
			bs.oldP = p // last slice parameter = old controllers
		}
	}
	isCalc := func(v ssa.Value) *ssa.Call {
		call, ok := v.(*ssa.Call)
		if ok && call.Call.StaticCallee() != nil && call.Call.StaticCallee().Name() == "calculateReuseIndexFor" {
			return call
		}
		return nil
	}
	// the index pair may come back as two results or as a small struct (equal index first / named *equal*, statistic
	// index second / named *stat* or *reuse*)
	addIdx := func(v ssa.Value, call *ssa.Call, pos int, name string) {
		role := pos
		ln := strings.ToLower(name)
		switch {
		case strings.Contains(ln, "equal"):
			role = 0
		case strings.Contains(ln, "stat"), strings.Contains(ln, "reuse"):
			role = 1
		}
		bs.idxCall[v] = call
		bs.idxKey[v] = fmt.Sprintf("%p/%d", call, role)
		if role == 0 {
			bs.eqIdx = append(bs.eqIdx, v)
		} else if role == 1 {
			bs.reuseIdx = append(bs.reuseIdx, v)
		}
	}
	var removals []*ssa.Call
	defer func() {
		// old = append(old[:i], old[i+1:]...) with both i the same index value (one value, or two reads of the same
		// field of one index result)
		for _, x := range removals {
			s0 := x.Call.Args[0].(*ssa.Slice)
			s1 := x.Call.Args[1].(*ssa.Slice)
			if lo, ok := s1.Low.(*ssa.BinOp); ok && lo.Op == token.ADD && (lo.X == s0.High || bs.same(lo.X, s0.High) || sameValue(lo.X, s0.High)) {
				if k, ok := constInt(lo.Y); ok && k == 1 {
					bs.removed[s0.High] = x
				}
			}
		}
	}()
	eachInstr(f, func(ins ssa.Instruction) {
		switch x := ins.(type) {
		case *ssa.Extract:
			if call := isCalc(x.Tuple); call != nil {
				addIdx(x, call, x.Index, "")
			}
		case *ssa.Field:
			if call := isCalc(x.X); call != nil {
				addIdx(x, call, x.Field, fieldNameV(x.X.Type(), x.Field))
			} else if ld, ok := x.X.(*ssa.UnOp); ok && ld.Op == token.MUL {
				if al, ok := ld.X.(*ssa.Alloc); ok {
					if call := isCalc(allocSingleStore(al)); call != nil {
						addIdx(x, call, x.Field, fieldNameV(x.X.Type(), x.Field))
					}
				}
			}
		case *ssa.UnOp:
			// ri := calculateReuseIndexFor(...); ... ri.equal ...
			if x.Op == token.MUL {
				if fa, ok := x.X.(*ssa.FieldAddr); ok {
					if al, ok := fa.X.(*ssa.Alloc); ok {
						if call := isCalc(allocSingleStore(al)); call != nil {
							addIdx(x, call, fa.Field, fieldName(fa.X.Type(), fa.Field))
						}
					}
				}
			}
		case *ssa.Call:
			if b, ok := x.Call.Value.(*ssa.Builtin); ok && b.Name() == "append" && len(x.Call.Args) == 2 {
				s0, ok0 := x.Call.Args[0].(*ssa.Slice)
				s1, ok1 := x.Call.Args[1].(*ssa.Slice)
				if ok0 && ok1 && s0.High != nil && s1.Low != nil {
					removals = append(removals, x)
					return
				}
				if ok1 {
					if _, isAlloc := s1.X.(*ssa.Alloc); isAlloc {
						bs.result = append(bs.result, x)
					}
				}
				return
			}
			if x.Call.StaticCallee() == nil && !x.Call.IsInvoke() {
				if _, isB := x.Call.Value.(*ssa.Builtin); isB {
					return
				}
				if sig, ok := x.Call.Value.Type().Underlying().(*types.Signature); ok && sig.Params().Len() == 2 {
					bs.gens = append(bs.gens, x)
				}
			}
		}
	})
	return bs
}

// same: a and b are one and the same index value (identical, or two reads of the same field of one result).
func (bs *builderShape) same(a, b ssa.Value) bool {
	if a == b {
		return true
	}
	ka, kb := bs.idxKey[a], bs.idxKey[b]
	return ka != "" && ka == kb
}

func (bs *builderShape) nonNeg(b *ssa.BasicBlock, v ssa.Value) bool {
	for _, ft := range condFacts(b) {
		bo, ok := ft.Cond.(*ssa.BinOp)
		if !ok {
			continue
		}
		z, isZ := constInt(bo.Y)
		if bs.same(bo.X, v) && isZ && z == 0 && ((bo.Op == token.GEQ && ft.Truth) || (bo.Op == token.LSS && !ft.Truth)) {
			return true
		}
	}
	return false
}

func (bs *builderShape) fromOld(v ssa.Value) bool {
	seen := map[ssa.Value]bool{}
	var walk func(x ssa.Value) bool
	walk = func(x ssa.Value) bool {
		if seen[x] {
			return false
		}
		seen[x] = true
		switch t := x.(type) {
		case *ssa.Parameter:
			return t == bs.oldP
		case *ssa.Phi:
			for _, e := range t.Edges {
				if walk(e) {
					return true
				}
			}
		case *ssa.Slice:
			return walk(t.X)
		case *ssa.Call:
			if b, ok := t.Call.Value.(*ssa.Builtin); ok && b.Name() == "append" {
				return walk(t.Call.Args[0])
			}
		}
		return false
	}
	return walk(v)
}

// derivesFromIndex: v is old[idx] (or a field / method result of it).
func (bs *builderShape) derivesFromIndex(v ssa.Value, idx ssa.Value, d int) bool {
	if d > 6 {
		return false
	}
	switch t := stripConv(v).(type) {
	case *ssa.UnOp:
		return bs.derivesFromIndex(t.X, idx, d+1)
	case *ssa.IndexAddr:
		return bs.same(t.Index, idx) && bs.fromOld(t.X)
	case *ssa.FieldAddr:
		return bs.derivesFromIndex(t.X, idx, d+1)
	case *ssa.Call:
		if t.Call.IsInvoke() {
			return bs.derivesFromIndex(t.Call.Value, idx, d+1)
		}
		if len(t.Call.Args) > 0 {
			return bs.derivesFromIndex(t.Call.Args[0], idx, d+1)
		}
	}
	return false
}

// appendedElem returns the single element appended by a result append.
func appendedElem(call *ssa.Call) ssa.Value {
	sl, ok := call.Call.Args[1].(*ssa.Slice)
	if !ok {
		return nil
	}
	al, ok := sl.X.(*ssa.Alloc)
	if !ok {
		return nil
	}
	var elem ssa.Value
	for _, r := range refsOf(al) {
		if ia, ok := r.(*ssa.IndexAddr); ok {
			for _, r2 := range refsOf(ia) {
				if st, ok := r2.(*ssa.Store); ok {
					elem = st.Val
				}
			}
		}
	}
	return elem
}

// equalReuses: the places where the old object of an equal rule is taken over: either appended directly to the
// result under equalIdx >= 0, or parked in a local map under equalIdx >= 0 and appended from that map later.
type equalReuse struct {
	idx    ssa.Value
	at     ssa.Instruction // the instruction that takes old[idx]
	viaMap ssa.Value       // local map, or nil
}

func (bs *builderShape) equalReuses() []equalReuse {
	var out []equalReuse
	for _, ap := range bs.result {
		e := appendedElem(ap)
		if e == nil {
			continue
		}
		for _, eq := range bs.eqIdx {
			if bs.nonNeg(ap.Block(), eq) && bs.derivesFromIndex(e, eq, 0) {
				out = append(out, equalReuse{idx: eq, at: ap})
			}
		}
	}
	eachInstr(bs.f, func(ins ssa.Instruction) {
		switch mu := ins.(type) {
		case *ssa.MapUpdate:
			if _, isLocal := stripConv(mu.Map).(*ssa.MakeMap); !isLocal {
				return
			}
			for _, eq := range bs.eqIdx {
				if bs.nonNeg(mu.Block(), eq) && bs.derivesFromIndex(mu.Value, eq, 0) {
					out = append(out, equalReuse{idx: eq, at: mu, viaMap: stripConv(mu.Map)})
				}
			}
		case *ssa.Store:
			// parked in a local slice indexed by list position (nil = not paired)
			ia, ok := mu.Addr.(*ssa.IndexAddr)
			if !ok {
				// element struct built in place: m[i] = entry{obj: old[idx], found: true}
				if fa, isFa := mu.Addr.(*ssa.FieldAddr); isFa {
					ia, ok = fa.X.(*ssa.IndexAddr)
				}
			}
			if !ok {
				return
			}
			ms, isLocal := resolve(ia.X).(*ssa.MakeSlice)
			if !isLocal {
				return
			}
			vals := []ssa.Value{mu.Val}
			// the element is a small struct assembled on the spot: look at its fields
			if ld, ok := mu.Val.(*ssa.UnOp); ok && ld.Op == token.MUL {
				if lit, ok := ld.X.(*ssa.Alloc); ok {
					if st, ok := lit.Type().(*types.Pointer).Elem().Underlying().(*types.Struct); ok {
						for k := 0; k < st.NumFields(); k++ {
							if fv := structFieldOfAlloc(lit, k, 0); fv != nil {
								vals = append(vals, fv)
							}
						}
					}
				}
			}
			for _, eq := range bs.eqIdx {
				for _, v := range vals {
					if bs.nonNeg(mu.Block(), eq) && bs.derivesFromIndex(v, eq, 0) {
						out = append(out, equalReuse{idx: eq, at: mu, viaMap: ms})
					}
				}
			}
		}
	})
	return out
}

// parkedLoad: v is an element read back from the local slice m (m[i]).
func parkedLoad(v ssa.Value, m ssa.Value) bool {
	// m[i], m[i].field, or a field of a local copy of m[i] (the slice may hold small structs {object, found})
	for i := 0; i < 8 && v != nil; i++ {
		switch x := stripConv(v).(type) {
		case *ssa.Field:
			v = x.X
		case *ssa.UnOp:
			if x.Op != token.MUL {
				return false
			}
			switch a := x.X.(type) {
			case *ssa.IndexAddr:
				return resolve(a.X) == m
			case *ssa.FieldAddr:
				switch b := a.X.(type) {
				case *ssa.IndexAddr:
					return resolve(b.X) == m
				case *ssa.Alloc:
					v = allocSingleStore(b)
				default:
					return false
				}
			case *ssa.Alloc:
				v = allocSingleStore(a)
			default:
				return false
			}
		default:
			return false
		}
	}
	return false
}

// donorOf analyses the statistic argument of a generator call: every alternative of the value (phi cases) is either nil
// or the statistic of old[reuseStatIdx] taken under reuseStatIdx >= 0. It returns the reuse index used (nil if none)
// and whether all alternatives are of these two kinds; nilOnly reports that no alternative is a donor.
func (bs *builderShape) donorOf(g *ssa.Call) (ri ssa.Value, proper bool, hasNil bool) {
	proper = true
	for _, cs := range splitPhiCases(g.Call.Args[1], g.Block(), nil, 0) {
		v := stripConv(cs.val)
		if isNilConst(v) {
			hasNil = true
			continue
		}
		matched := false
		for _, r := range bs.reuseIdx {
			if !bs.derivesFromIndex(v, r, 0) {
				continue
			}
			// taken under reuseStatIdx >= 0: dominating fact of the case's block, or the fact of the edge it came through
			guarded := bs.nonNeg(cs.block, r)
			for _, ft := range cs.extra {
				if bo, ok := ft.Cond.(*ssa.BinOp); ok && bs.same(bo.X, r) {
					if z, isZ := constInt(bo.Y); isZ && z == 0 && ((bo.Op == token.GEQ && ft.Truth) || (bo.Op == token.LSS && !ft.Truth)) {
						guarded = true
					}
				}
			}
			if guarded {
				matched = true
				ri = r
			}
		}
		if !matched {
			proper = false
		}
	}
	return
}

// removedFor: an `old = append(old[:i], old[i+1:]...)` whose i is the given index value, possibly carried through a
// result variable (phi of the index and the constant -1).
func (bs *builderShape) removedFor(idx ssa.Value) bool {
	for hi := range bs.removed {
		if bs.same(hi, idx) {
			return true
		}
		for _, cs := range splitPhiCases(hi, nil, nil, 0) {
			if bs.same(cs.val, idx) {
				return true
			}
		}
	}
	return false
}

// foundInMap: block b is dominated by a successful lookup in local map m.
func foundInMap(b *ssa.BasicBlock, m ssa.Value) bool {
	if _, isSlice := m.(*ssa.MakeSlice); isSlice {
		// local slice: an element read back from it is known non-nil
		for _, ft := range condFacts(b) {
			bo, ok := ft.Cond.(*ssa.BinOp)
			if !ok || !((bo.Op == token.NEQ && ft.Truth) || (bo.Op == token.EQL && !ft.Truth)) {
				continue
			}
			if (isNilConst(bo.Y) && parkedLoad(bo.X, m)) || (isNilConst(bo.X) && parkedLoad(bo.Y, m)) {
				return true
			}
		}
		// ... or its "found" flag is set
		for _, ft := range condFacts(b) {
			if bt, ok := ft.Cond.Type().Underlying().(*types.Basic); ok && bt.Kind() == types.Bool && ft.Truth && parkedLoad(ft.Cond, m) {
				return true
			}
		}
		return false
	}
	for _, ft := range condFacts(b) {
		ex, ok := ft.Cond.(*ssa.Extract)
		if !ok || ex.Index != 1 || !ft.Truth {
			continue
		}
		if lk, ok := ex.Tuple.(*ssa.Lookup); ok && stripConv(lk.X) == m {
			return true
		}
	}
	return false
}

func init() {
	register(&Rule{
		ID: "reload.equal-means-same-object", Props: []string{"C14"}, Floor: 6,
		Doc: "in the three controller / breaker builders the old object of an unchanged (equal) rule is taken over as it is - old[equalIdx] appended to the new list, directly or through a local map filled under equalIdx >= 0 - and no generator is invoked for such a rule; when only the statistic is reusable the generator receives the statistic of old[reuseStatIdx]; otherwise it receives nil",
		Run: func(c *Ctx) {
			for _, bn := range builderFuncs {
				f := c.P.Func(bn)
				if f == nil {
					c.AnchorLost(bn)
					continue
				}
				bs := analyseBuilder(f)
				if len(bs.eqIdx) == 0 || len(bs.reuseIdx) == 0 {
					c.Violate(fnKey(f)+" / reuse-index", f.Pos(), "the builder no longer computes the equal / statistic-reusable index of the old controllers")
					continue
				}
				ers := bs.equalReuses()
				okTaken := false
				for _, er := range ers {
					if er.viaMap == nil {
						okTaken = true
						continue
					}
					// the parked object must reach the result list: an append of a value looked up in that map
					for _, ap := range bs.result {
						e := appendedElem(ap)
						if ex, ok := e.(*ssa.Extract); ok && ex.Index == 0 {
							if lk, ok := ex.Tuple.(*ssa.Lookup); ok && stripConv(lk.X) == er.viaMap && foundInMap(ap.Block(), er.viaMap) {
								okTaken = true
							}
						}
						if parkedLoad(e, er.viaMap) && foundInMap(ap.Block(), er.viaMap) {
							okTaken = true
						}
					}
				}
				c.Check(okTaken, fnKey(f)+" / equal-rule-keeps-object", f.Pos(), "the new list receives the old object old[equalIdx] of an unchanged rule (%d take-over sites)", len(ers))
				// a pairing map must be keyed by the position in the loaded list: keyed by the rule object, the same rule
				// listed twice collapses onto one entry (one old object installed twice, the other pairing lost)
				for _, er := range ers {
					if er.viaMap == nil {
						continue
					}
					mu, isMap := er.at.(*ssa.MapUpdate)
					if !isMap {
						c.Hold(fnKey(f)+" / pairing-keyed-by-position", er.at.Pos(), "unchanged rules are paired with their old objects in a slice indexed by list position")
						continue
					}
					_, isInt := mu.Key.Type().Underlying().(*types.Basic)
					c.Check(isInt && isIntegerT(mu.Key.Type()), fnKey(f)+" / pairing-keyed-by-position", mu.Pos(), "unchanged rules are paired with their old objects in a map keyed by list position (key type %s)", mu.Key.Type())
				}
				for i, g := range bs.gens {
					key := fmt.Sprintf("%s / generator#%d", fnKey(f), i+1)
					forEqual := false
					for _, eq := range bs.eqIdx {
						if bs.nonNeg(g.Block(), eq) {
							forEqual = true
						}
					}
					for _, er := range ers {
						if er.viaMap != nil && foundInMap(g.Block(), er.viaMap) {
							forEqual = true
						}
					}
					if forEqual {
						c.Violate(key, g.Pos(), "a generator is invoked although an equal old rule was found: the unchanged rule gets a new controller and loses its runtime state")
						continue
					}
					ri, proper, hasNil := bs.donorOf(g)
					switch {
					case !proper:
						c.Violate(key, g.Pos(), "the generator receives %s: neither nil nor the statistic of old[reuseStatIdx] taken under reuseStatIdx >= 0", accessPath(g.Call.Args[1]))
					case ri != nil && bs.nonNeg(g.Block(), ri):
						c.Hold(key, g.Pos(), "statistic-reusable branch: the generator receives the statistic of old[reuseStatIdx]")
					case ri != nil && hasNil:
						c.Hold(key, g.Pos(), "the generator receives the statistic of old[reuseStatIdx] when reuseStatIdx >= 0 and nil otherwise")
					case ri == nil && hasNil:
						// nil is right only where no reusable old rule exists
						okNil := true
						for _, r := range bs.reuseIdx {
							if bs.nonNeg(g.Block(), r) {
								okNil = false
							}
						}
						c.Check(okNil, key, g.Pos(), "no reusable old rule: the generator receives nil")
					default:
						c.Violate(key, g.Pos(), "the generator's statistic argument %s is not understood", accessPath(g.Call.Args[1]))
					}
				}
				if len(bs.gens) == 0 {
					c.Violate(fnKey(f)+" / generator", f.Pos(), "the builder never invokes a generator")
				}
			}
		},
	})

	register(&Rule{
		ID: "reload.reused-at-most-once", Props: []string{"C02", "C14", "C06", "C03"}, Floor: 6,
		Doc: "in the three builders an old object that was matched (equal rule: reused as a whole; statistic-reusable rule: its statistic handed to the generator) is removed from the candidate list (append(old[:i], old[i+1:]...) with i the matched index) before the next rule is processed: no two new controllers share one old controller or one statistic (a shared standalone window would be incremented once per sharing controller for every admitted request)",
		Run: func(c *Ctx) {
			for _, bn := range builderFuncs {
				f := c.P.Func(bn)
				if f == nil {
					c.AnchorLost(bn)
					continue
				}
				bs := analyseBuilder(f)
				eqRemoved, reuseRemoved := false, false
				for _, er := range bs.equalReuses() {
					if bs.removedFor(er.idx) {
						eqRemoved = true
					}
				}
				for _, g := range bs.gens {
					if ri, proper, _ := bs.donorOf(g); proper && ri != nil && bs.removedFor(ri) {
						reuseRemoved = true
					}
				}
				c.Check(eqRemoved, fnKey(f)+" / equal-old-removed", f.Pos(), "the old object reused for an equal rule is removed from the candidates (old = append(old[:equalIdx], old[equalIdx+1:]...))")
				c.Check(reuseRemoved, fnKey(f)+" / stat-donor-removed", f.Pos(), "the old object whose statistic was handed to the generator is removed from the candidates: otherwise a second new rule receives the same statistic and the window is incremented twice per admitted request")
			}
		},
	})

	register(&Rule{
		ID: "reload.equal-first", Props: []string{"C14"}, Floor: 3,
		Doc: "in the three builders every unchanged rule of the load is paired with its old object before any old object is used as a statistic donor: no generator invocation can be followed (on any path) by the matching of an equal rule. In a single pass a new or modified rule listed before an unchanged one takes the unchanged rule's old controller as its donor, and the unchanged rule is rebuilt from scratch",
		Run: func(c *Ctx) {
			for _, bn := range builderFuncs {
				f := c.P.Func(bn)
				if f == nil {
					c.AnchorLost(bn)
					continue
				}
				bs := analyseBuilder(f)
				ers := bs.equalReuses()
				bad := ""
				for _, g := range bs.gens {
					// only generator calls that can consume a donor
					if ri, _, _ := bs.donorOf(g); ri == nil {
						continue
					}
					for _, er := range ers {
						call := bs.idxCall[er.idx]
						if call != nil && instrReaches(g, call) {
							bad = fmt.Sprintf("the generator call at %s can be followed by the equal-rule matching at %s", c.P.Pos(g.Pos()), c.P.Pos(call.Pos()))
						}
					}
				}
				if len(ers) == 0 {
					bad = "no equal-rule matching found"
				}
				c.Check(bad == "", fnKey(f)+" / equal-matching-precedes-donation", f.Pos(), "all unchanged rules are matched before statistics are donated (%s)", bad)
			}
		},
	})
}

// ------------------------------------------------------------------------------------------------ C05 / C10
// An integer quotient that is multiplied afterwards has already lost its remainder: q*(a/b) <= q*a/b, and the
// difference grows with q. In the pacing computations this shortens the spacing between admitted requests.

func quoFeedsMul(f *ssa.Function) []*ssa.BinOp {
	var out []*ssa.BinOp
	eachInstr(f, func(ins ssa.Instruction) {
		mul, ok := ins.(*ssa.BinOp)
		if !ok || mul.Op != token.MUL || !isIntegerT(mul.Type()) {
			return
		}
		for _, side := range []ssa.Value{mul.X, mul.Y} {
			seen := map[ssa.Value]bool{}
			var has func(v ssa.Value, d int) bool
			has = func(v ssa.Value, d int) bool {
				if d > 6 || seen[v] {
					return false
				}
				seen[v] = true
				switch x := v.(type) {
				case *ssa.Convert:
					if !isIntegerT(x.X.Type()) {
						return false // float quotient rounded afterwards: no truncation before the product
					}
					return has(x.X, d+1)
				case *ssa.ChangeType:
					return has(x.X, d+1)
				case *ssa.Phi:
					for _, e := range x.Edges {
						if has(e, d+1) {
							return true
						}
					}
				case *ssa.BinOp:
					if x.Op == token.QUO && isIntegerT(x.Type()) {
						if _, isC := x.X.(*ssa.Const); isC {
							return false
						}
						return true
					}
					if x.Op == token.ADD || x.Op == token.SUB {
						return has(x.X, d+1) || has(x.Y, d+1)
					}
				}
				return false
			}
			if has(side, 0) {
				out = append(out, mul)
				return
			}
		}
	})
	return out
}

func init() {
	register(&Rule{
		ID: "throttling.no-divide-before-multiply", Props: []string{"C05", "C10"}, Floor: 4,
		Doc: "in the two pacing checkers (flow.ThrottlingChecker.DoCheck, hotspot throttlingTrafficShapingController.PerformChecking) and their constructors no integer quotient is multiplied afterwards: the interval batch*duration/threshold is computed with the division last (or in floating point), so the spacing is not shortened by a truncated per-token cost",
		Run: func(c *Ctx) {
			for _, fn := range []string{"core/flow.(*ThrottlingChecker).DoCheck", "core/flow.NewThrottlingChecker", "core/hotspot.(*throttlingTrafficShapingController).PerformChecking", "core/hotspot.(*rejectTrafficShapingController).PerformChecking"} {
				f := c.P.Func(fn)
				if f == nil {
					c.AnchorLost(fn)
					continue
				}
				bad := quoFeedsMul(f)
				nDiv := 0
				eachInstr(f, func(ins ssa.Instruction) {
					if b, ok := ins.(*ssa.BinOp); ok && b.Op == token.QUO {
						nDiv++
					}
				})
				pos := f.Pos()
				msg := ""
				if len(bad) > 0 {
					pos = bad[0].Pos()
					msg = accessPath(bad[0])
				}
				c.Check(len(bad) == 0, fnKey(f)+" / quotient-not-multiplied", pos, "%d division(s) inspected; none feeds an integer product %s", nDiv, msg)
			}
		},
	})
}

func init() {
	register(&Rule{
		ID: "reload.result-in-input-order", Props: []string{"C13"}, Floor: 3,
		Doc: "the three builders produce the new controller / breaker list in the order of the loaded rules: every append to the result happens in one and the same loop over the rules (one element per iteration, reused or newly built). Appending reused objects in an earlier pass yields 'reused first', so the slot consults the rules in another order than the one loaded and reported by the getters",
		Run: func(c *Ctx) {
			for _, bn := range builderFuncs {
				f := c.P.Func(bn)
				if f == nil {
					c.AnchorLost(bn)
					continue
				}
				bs := analyseBuilder(f)
				// loop headers: blocks holding a range-index phi
				// loop headers: targets of back edges (a predecessor that the block itself dominates)
				var headers []*ssa.BasicBlock
				for _, b := range f.Blocks {
					for _, p := range b.Preds {
						if b.Dominates(p) {
							headers = append(headers, b)
							break
						}
					}
				}
				loopOf := func(b *ssa.BasicBlock) *ssa.BasicBlock {
					var best *ssa.BasicBlock
					for _, h := range headers {
						if h.Dominates(b) && (b == h || blockReach(b)[h]) {
							if best == nil || best.Dominates(h) {
								best = h // innermost
							}
						}
					}
					return best
				}
				var first *ssa.BasicBlock
				ok, outside := true, false
				for _, ap := range bs.result {
					l := loopOf(ap.Block())
					if l == nil {
						outside = true
						continue
					}
					if first == nil {
						first = l
					} else if first != l {
						ok = false
					}
				}
				c.Check(ok && !outside && len(bs.result) > 0, fnKey(f)+" / single-loop-appends", f.Pos(), "%d append(s) to the result list, all in the same loop over the rules (several loops: %v, outside any loop: %v)", len(bs.result), !ok, outside)
			}
		},
	})
}

func init() {
	register(&Rule{
		ID: "reload.bound-rule-is-loaded-rule", Props: []string{"C14", "C13"}, Floor: 5,
		Doc: "the rule a controller / breaker reports through BoundRule() - the one the builders compare the next load against, and the getters copy - is the loaded rule object itself: every store to circuitBreakerBase.rule, flow.TrafficShapingController.rule and hotspot baseTrafficShapingController.r is the constructor's own *Rule parameter, not a copy or a normalised variant (a bound rule that differs from the loaded one never equals an identical re-load, so every effective reload rebuilds the object and drops its state)",
		Run: func(c *Ctx) {
			specs := []struct{ typ, field string }{
				{"core/circuitbreaker.circuitBreakerBase", "rule"},
				{"core/flow.TrafficShapingController", "rule"},
				{"core/hotspot.baseTrafficShapingController", "r"},
			}
			for _, sp := range specs {
				t := c.P.Named(sp.typ)
				if t == nil {
					c.AnchorLost(sp.typ)
					continue
				}
				n := 0
				for _, st := range fieldStores(c.P, t, sp.field) {
					n++
					p, ok := resolve(st.st.Val).(*ssa.Parameter)
					okP := ok && p.Parent() == st.fn
					c.Check(okP, fmt.Sprintf("%s / store %s.%s#%d", fnKey(st.fn), t.Obj().Name(), sp.field, n), st.st.Pos(), "binds %s (want the function's own *Rule parameter)", accessPath(st.st.Val))
				}
				if n == 0 {
					c.Violate(sp.typ+" / bound-rule", token.NoPos, "no constructor stores the bound rule")
				}
			}
		},
	})
}
