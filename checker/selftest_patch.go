package main

import (
	"encoding/json"
	"os"
	"path/filepath"
	"sort"
	"strconv"
	"strings"
)

// The independently seeded changes stored under /verif/seeded/<id>/patch.diff take part in the thorough tier: each
// patch is applied in memory (go/packages overlay; /repo is not written) and the property's rules are re-run on it.
// For property P the variants are the seeded changes whose meta.json names P. Whether a change is expected to be
// caught is a frozen table in the change's meta.json ("expect": "fire" | "miss", with the reason for a miss).

type seededMeta struct {
	Property string `json:"property"`
	Needs    string `json:"needs_to_manifest"`
	Expect   string `json:"expect"`
	ExpectBy string `json:"expect_rule"`
}

func seededVariants(prop string) []variant {
	dir := filepath.Join(verifRoot, "seeded")
	ents, err := os.ReadDir(dir)
	if err != nil {
		return nil
	}
	var out []variant
	for _, e := range ents {
		if !e.IsDir() {
			continue
		}
		b, err := os.ReadFile(filepath.Join(dir, e.Name(), "meta.json"))
		if err != nil {
			continue
		}
		var m seededMeta
		if json.Unmarshal(b, &m) != nil || m.Property != prop {
			continue
		}
		exp := "fire"
		if m.Expect == "miss" {
			exp = "known-miss"
		}
		out = append(out, variant{ID: "seeded/" + e.Name(), Props: []string{prop}, Expect: exp, Rule: m.ExpectBy, Why: m.Needs, Patch: filepath.Join("seeded", e.Name(), "patch.diff")})
	}
	sort.Slice(out, func(i, j int) bool { return out[i].ID < out[j].ID })
	return out
}

// benignMeta is the meta.json of a behaviour-preserving refactoring stored under /verif/benign/<id>/.
type benignMeta struct {
	Property string   `json:"property"`
	Expect   string   `json:"expect"`
	Props    []string `json:"props"`
}

// benignVariants: the independently written behaviour-preserving refactorings under /verif/benign/<id>/patch.diff.
// Each must leave every rule of the property it was written against silent (and, through tools/run_benign.sh, every
// other check as well).
func benignVariants(prop string) []variant {
	dir := filepath.Join(verifRoot, "benign")
	ents, err := os.ReadDir(dir)
	if err != nil {
		return nil
	}
	var out []variant
	for _, e := range ents {
		if !e.IsDir() {
			continue
		}
		b, err := os.ReadFile(filepath.Join(dir, e.Name(), "meta.json"))
		if err != nil {
			continue
		}
		var m benignMeta
		if json.Unmarshal(b, &m) != nil || m.Expect != "silent" {
			continue
		}
		hit := m.Property == prop
		for _, p := range m.Props {
			if p == prop {
				hit = true
			}
		}
		if !hit {
			continue
		}
		out = append(out, variant{ID: "benign/" + e.Name(), Props: []string{prop}, Expect: "silent", Why: "behaviour-preserving refactoring written by an independent sub-agent", Patch: filepath.Join("benign", e.Name(), "patch.diff")})
	}
	sort.Slice(out, func(i, j int) bool { return out[i].ID < out[j].ID })
	return out
}

type hunk struct {
	oldStart int
	old, new []string
}

// applyPatchVariant applies a unified diff to the files of repoRoot in memory.
func applyPatchVariant(v variant) (map[string][]byte, bool) {
	b, err := os.ReadFile(filepath.Join(verifRoot, v.Patch))
	if err != nil {
		return nil, false
	}
	files := map[string][]hunk{}
	var order []string
	cur := ""
	var h *hunk
	fromNull := false
	isNew := map[string]bool{}
	flush := func() {
		if h != nil && cur != "" {
			files[cur] = append(files[cur], *h)
		}
		h = nil
	}
	for _, l := range strings.Split(string(b), "\n") {
		switch {
		case strings.HasPrefix(l, "diff --git "):
			flush()
			cur = ""
		case strings.HasPrefix(l, "--- "):
			flush()
			fromNull = strings.TrimPrefix(l, "--- ") == "/dev/null"
		case strings.HasPrefix(l, "+++ "):
			flush()
			p := strings.TrimPrefix(l, "+++ ")
			if p == "/dev/null" {
				return nil, false
			}
			cur = strings.TrimPrefix(p, "b/")
			order = append(order, cur)
			if fromNull {
				isNew[cur] = true
			}
		case strings.HasPrefix(l, "@@ "):
			flush()
			f := strings.Fields(l)
			if len(f) < 3 {
				return nil, false
			}
			n, _ := strconv.Atoi(strings.SplitN(strings.TrimPrefix(f[1], "-"), ",", 2)[0])
			h = &hunk{oldStart: n}
		case h != nil && strings.HasPrefix(l, "+"):
			h.new = append(h.new, l[1:])
		case h != nil && strings.HasPrefix(l, "-"):
			h.old = append(h.old, l[1:])
		case h != nil && strings.HasPrefix(l, " "):
			h.old = append(h.old, l[1:])
			h.new = append(h.new, l[1:])
		case h != nil && l == "":
			// blank context line whose leading space was stripped, or the end of the file
			h.old = append(h.old, "")
			h.new = append(h.new, "")
		}
	}
	flush()
	overlay := map[string][]byte{}
	for _, rel := range order {
		path := filepath.Join(repoRoot, rel)
		if isNew[rel] {
			// a file the change creates: its content is the added lines
			var nl []string
			for _, hk := range files[rel] {
				nl = append(nl, hk.new...)
			}
			overlay[path] = []byte(strings.Join(nl, "\n"))
			continue
		}
		src, err := os.ReadFile(path)
		if err != nil {
			return nil, false
		}
		lines := strings.Split(string(src), "\n")
		shift := 0
		for _, hk := range files[rel] {
			// drop trailing blank lines the parser may have added at the very end of the diff
			for len(hk.old) > 0 && len(hk.new) > 0 && hk.old[len(hk.old)-1] == "" && hk.new[len(hk.new)-1] == "" && !matchAtAny(lines, hk.old) {
				hk.old, hk.new = hk.old[:len(hk.old)-1], hk.new[:len(hk.new)-1]
			}
			at := findHunk(lines, hk.old, hk.oldStart-1+shift)
			if at < 0 {
				return nil, false
			}
			nl := append([]string{}, lines[:at]...)
			nl = append(nl, hk.new...)
			nl = append(nl, lines[at+len(hk.old):]...)
			lines = nl
			shift += len(hk.new) - len(hk.old)
		}
		overlay[path] = []byte(strings.Join(lines, "\n"))
	}
	return overlay, len(overlay) > 0
}

func matchAt(lines, want []string, at int) bool {
	if at < 0 || at+len(want) > len(lines) {
		return false
	}
	for i, w := range want {
		if lines[at+i] != w {
			return false
		}
	}
	return true
}

func matchAtAny(lines, want []string) bool {
	for i := range lines {
		if matchAt(lines, want, i) {
			return true
		}
	}
	return false
}

// findHunk looks for the hunk's old text nearest to the stated position.
func findHunk(lines, want []string, near int) int {
	for d := 0; d <= len(lines); d++ {
		if matchAt(lines, want, near+d) {
			return near + d
		}
		if d > 0 && matchAt(lines, want, near-d) {
			return near - d
		}
	}
	return -1
}
