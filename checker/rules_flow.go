package main

import (
	"fmt"
	"go/constant"
	"go/token"
	"go/types"
	"sort"
	"strings"

	"golang.org/x/tools/go/ssa"
)

// Flow rules: C02, C10 (and the shared "rule checks never write statistics" reachability rule).

// statWriters returns the functions that record admission / completion statistics.
func statWriters(P *Program) map[*ssa.Function]string {
	out := map[*ssa.Function]string{}
	add := func(spec, why string) {
		if f := P.Func(spec); f != nil {
			out[f] = why
		}
	}
	if ws := P.Named("core/base.WriteStat"); ws != nil {
		for _, f := range P.Implementations(ws.Underlying().(*types.Interface), "AddCount") {
			if strings.Contains(fnKey(f), "nopWriteStat") {
				continue
			}
			out[f] = "WriteStat.AddCount"
		}
	}
	for _, m := range []string{"Add", "addCount", "AddRt", "UpdateConcurrency"} {
		add("core/stat/base.(*MetricBucket)."+m, "bucket counter write")
	}
	for _, m := range []string{"AddCount", "addCountWithTime", "UpdateConcurrency", "updateConcurrencyWithTime"} {
		add("core/stat/base.(*BucketLeapArray)."+m, "window counter write")
	}
	for _, m := range []string{"IncreaseConcurrency", "DecreaseConcurrency", "UpdateConcurrency", "AddCount"} {
		add("core/stat.(*BaseStatNode)."+m, "resource node statistic write")
	}
	for _, m := range []string{"OnEntryPassed", "OnCompleted"} {
		add("core/hotspot.(*ConcurrencyStatSlot)."+m, "hot-parameter concurrency cell write")
	}
	return out
}

func ruleCheckImpls(P *Program) []*ssa.Function {
	rcs := P.Named("core/base.RuleCheckSlot")
	if rcs == nil {
		return nil
	}
	var out []*ssa.Function
	for _, f := range P.Implementations(rcs.Underlying().(*types.Interface), "Check") {
		if isTestOrExample(f) || strings.HasPrefix(relPkg(fnPkgPath(f)), "api") {
			continue
		}
		out = append(out, f)
	}
	return out
}

// throughVia: do all / any CFG paths from `from` to `to` pass through `via`?
// The walk is aware of one kind of infeasible path, which inlined helpers produce all the time: a result variable that
// is assigned a non-nil error on one branch and nil on another and is tested right after the join (`if err != nil`).
// The incoming value of each phi is tracked along the path; a nil test on it follows only the branch that value allows.
func throughVia(from, to, via ssa.Instruction) (all, any bool) {
	any = instrReaches(from, via) && instrReaches(via, to)
	reached := false
	budget := 20000
	type stateKey struct {
		b    *ssa.BasicBlock
		pred *ssa.BasicBlock
	}
	onPath := map[stateKey]bool{}
	var walk func(b, pred *ssa.BasicBlock, i int, env map[*ssa.Phi]ssa.Value)
	walk = func(b, pred *ssa.BasicBlock, i int, env map[*ssa.Phi]ssa.Value) {
		budget--
		if reached || budget < 0 {
			if budget < 0 {
				reached = true // give up: assume a bypass exists
			}
			return
		}
		k := stateKey{b, pred}
		if onPath[k] {
			return
		}
		onPath[k] = true
		defer delete(onPath, k)
		if i == 0 && pred != nil {
			// resolve the phis of b for the edge pred -> b
			var upd map[*ssa.Phi]ssa.Value
			for _, ins := range b.Instrs {
				phi, ok := ins.(*ssa.Phi)
				if !ok {
					break
				}
				for j, p := range b.Preds {
					if p == pred {
						if upd == nil {
							upd = map[*ssa.Phi]ssa.Value{}
							for kk, vv := range env {
								upd[kk] = vv
							}
						}
						v := phi.Edges[j]
						if inner, ok := v.(*ssa.Phi); ok {
							if r, ok := env[inner]; ok {
								v = r
							}
						}
						upd[phi] = v
					}
				}
			}
			if upd != nil {
				env = upd
			}
		}
		for ; i < len(b.Instrs); i++ {
			ins := b.Instrs[i]
			if ins == via {
				return
			}
			if ins == to {
				reached = true
				return
			}
		}
		succs := b.Succs
		if ifi, ok := b.Instrs[len(b.Instrs)-1].(*ssa.If); ok && len(succs) == 2 {
			if t, known := nilTestOutcome(ifi.Cond, env); known {
				if t {
					succs = succs[:1]
				} else {
					succs = succs[1:]
				}
			}
		}
		for _, s := range succs {
			walk(s, b, 0, env)
		}
	}
	walk(from.Block(), nil, instrIndex(from)+1, map[*ssa.Phi]ssa.Value{})
	all = !reached
	return
}

// nilTestOutcome decides `x == nil` / `x != nil` when x is a phi whose incoming value on the current path is known to
// be nil or known to be non-nil.
func nilTestOutcome(cond ssa.Value, env map[*ssa.Phi]ssa.Value) (truth bool, known bool) {
	c, neg := stripNot(cond, true)
	b, ok := c.(*ssa.BinOp)
	if !ok || (b.Op != token.EQL && b.Op != token.NEQ) {
		return false, false
	}
	var x ssa.Value
	if isNilConst(b.Y) {
		x = b.X
	} else if isNilConst(b.X) {
		x = b.Y
	} else {
		return false, false
	}
	phi, ok := x.(*ssa.Phi)
	if !ok {
		return false, false
	}
	v, ok := env[phi]
	if !ok {
		return false, false
	}
	var isNil bool
	switch {
	case isNilConst(v):
		isNil = true
	case knownNonNilError(v):
		isNil = false
	default:
		return false, false
	}
	res := isNil == (b.Op == token.EQL)
	if !neg {
		res = !res
	}
	return res, true
}

// knownNonNilError: the result of an error constructor, or of pkg/errors Wrap / Wrapf applied to an error that is
// known to be non-nil where the call stands.
func knownNonNilError(v ssa.Value) bool {
	call, ok := stripConv(v).(*ssa.Call)
	if !ok {
		return false
	}
	if isExtCall(call, "errors.New", "fmt.Errorf", "github.com/pkg/errors.New", "github.com/pkg/errors.Errorf") {
		return true
	}
	if isExtCall(call, "github.com/pkg/errors.Wrap", "github.com/pkg/errors.Wrapf", "github.com/pkg/errors.WithMessage", "github.com/pkg/errors.WithStack") && len(call.Call.Args) > 0 {
		arg := call.Call.Args[0]
		for _, ft := range condFacts(call.Block()) {
			bo, ok := ft.Cond.(*ssa.BinOp)
			if !ok {
				continue
			}
			if (bo.X == arg && isNilConst(bo.Y)) || (bo.Y == arg && isNilConst(bo.X)) {
				if (bo.Op == token.NEQ && ft.Truth) || (bo.Op == token.EQL && !ft.Truth) {
					return true
				}
			}
		}
	}
	return false
}

// blockedResultCall: call constructing / resetting a blocked TokenResult; returns the block type argument.
func blockedResultCall(ci ssa.CallInstruction) (string, bool) {
	cal := ci.Common().StaticCallee()
	if cal == nil || relPkg(fnPkgPath(cal)) != "core/base" {
		return "", false
	}
	switch cal.Name() {
	case "NewTokenResultBlocked", "NewTokenResultBlockedWithMessage", "NewTokenResultBlockedWithCause",
		"ResetToBlocked", "ResetToBlockedWithMessage", "ResetToBlockedWithCause":
		for _, a := range ci.Common().Args {
			if typeIs(a.Type(), "core/base", "BlockType") {
				return constArgName(a), true
			}
		}
		return "?", true
	}
	return "", false
}

func init() {
	register(&Rule{
		ID: "checks-are-read-only", Props: []string{"C02", "C04", "C07"}, Floor: 6,
		Doc: "from no RuleCheckSlot.Check implementation of the library is a statistic writer reachable (WriteStat.AddCount implementations, MetricBucket/BucketLeapArray recorders, Increase/DecreaseConcurrency, hot-parameter concurrency cells) on the module-bounded call graph: rejected requests consume no quota and occupy no capacity, and recording happens only after the decision",
		Run: func(c *Ctx) {
			writers := statWriters(c.P)
			if len(writers) < 8 {
				c.AnchorLost(fmt.Sprintf("statistic writers (found %d)", len(writers)))
				return
			}
			c.Stat("writer_functions", len(writers))
			graphs := []bool{false}
			if c.Tier == "thorough" {
				graphs = append(graphs, true)
			}
			for _, chk := range ruleCheckImpls(c.P) {
				key := fnKey(chk) + " / no-stat-writer-reachable"
				verdicts := map[string]string{}
				for _, vta := range graphs {
					par, order := c.P.Reach([]*ssa.Function{chk}, vta)
					name := map[bool]string{false: "CHA", true: "VTA"}[vta]
					verdicts[name] = fmt.Sprintf("clean(%d functions)", len(order))
					for _, f := range order {
						if why, bad := writers[f]; bad {
							verdicts[name] = fmt.Sprintf("reaches %s (%s) via %s", fnKey(f), why, pathTo(par, f))
							break
						}
					}
				}
				ok := false
				var vs []string
				for k, v := range verdicts {
					if strings.HasPrefix(v, "clean") {
						ok = true
					}
					vs = append(vs, k+": "+v)
				}
				sort.Strings(vs)
				if ok {
					c.Hold(key, chk.Pos(), "%s", strings.Join(vs, "; "))
				} else {
					c.Violate(key, chk.Pos(), "a rule check records statistics: %s", strings.Join(vs, "; "))
				}
			}
		},
	})

	register(&Rule{
		ID: "flow.reader-writer-agreement", Props: []string{"C02"}, Floor: 4,
		Doc: "in flow.generateStatFor the standalone branch builds the read view on the very BucketLeapArray it stores as the write side and marks the statistic as not reused; the reuse branches store no write side, mark reuse and read from the node of RefResource exactly under RelationStrategy==AssociatedResource else of Resource; StandaloneStatSlot adds the admitted batch as MetricEventPass to the write side exactly when the statistic is not reused",
		Run: func(c *Ctx) {
			f := c.P.Func("core/flow.generateStatFor")
			if f == nil {
				c.AnchorLost("flow.generateStatFor")
				return
			}
			ss := c.P.Named("core/flow.standaloneStatistic")
			type grp struct {
				reuse       *ssa.Store
				read, write *ssa.Store
			}
			groups := map[*ssa.BasicBlock]*grp{}
			eachInstr(f, func(ins ssa.Instruction) {
				st, ok := ins.(*ssa.Store)
				if !ok {
					return
				}
				fa, ok := st.Addr.(*ssa.FieldAddr)
				if !ok || namedOf(fa.X.Type()) != ss {
					return
				}
				g := groups[st.Block()]
				if g == nil {
					g = &grp{}
					groups[st.Block()] = g
				}
				switch fieldName(fa.X.Type(), fa.Field) {
				case "reuseResourceStat":
					g.reuse = st
				case "readOnlyMetric":
					g.read = st
				case "writeOnlyMetric":
					g.write = st
				}
			})
			nStandalone, nReuse := 0, 0
			var blocks []*ssa.BasicBlock
			for b := range groups {
				blocks = append(blocks, b)
			}
			sort.Slice(blocks, func(i, j int) bool { return blocks[i].Index < blocks[j].Index })
			for _, b := range blocks {
				g := groups[b]
				if g.reuse == nil {
					// read/write stores may sit in a successor block of the flag store (after the error check): merge with dominating group
					for _, b2 := range blocks {
						if g2 := groups[b2]; g2.reuse != nil && b2.Dominates(b) && b2 != b {
							if g.read != nil && g2.read == nil {
								g2.read = g.read
							}
							if g.write != nil && g2.write == nil {
								g2.write = g.write
							}
						}
					}
				}
			}
			for _, b := range blocks {
				g := groups[b]
				if g.reuse == nil {
					continue
				}
				cv, ok := g.reuse.Val.(*ssa.Const)
				if !ok {
					c.Undecided(fnKey(f)+" / reuse-flag", g.reuse.Pos(), "non-constant reuse flag")
					continue
				}
				reuse := cv.Value != nil && cv.Value.String() == "true"
				if reuse {
					nReuse++
					key := fmt.Sprintf("%s / reuse-branch#%d", fnKey(f), nReuse)
					okW := g.write != nil && isNilConst(stripConv(g.write.Val))
					rp := ""
					if g.read != nil {
						rp = accessPath(g.read.Val)
					}
					okR := g.read != nil && ((strings.Contains(rp, "GetOrCreateResourceNode({Rule}.RefResource") && strings.Contains(rp, "GetOrCreateResourceNode({Rule}.Resource")) ||
						strings.Contains(rp, "GetOrCreateResourceNode(phi({Rule}.Resource|{Rule}.RefResource)") || strings.Contains(rp, "GetOrCreateResourceNode(phi({Rule}.RefResource|{Rule}.Resource)"))
					c.Check(okW && okR, key, g.reuse.Pos(), "reuse: write side nil=%v; read side %s (want derived from the node selected by relation strategy)", okW, rp)
				} else {
					nStandalone++
					key := fmt.Sprintf("%s / standalone-branch#%d", fnKey(f), nStandalone)
					same := false
					if g.read != nil && g.write != nil {
						w := stripConv(g.write.Val)
						r := stripConv(g.read.Val)
						if ex, ok := r.(*ssa.Extract); ok {
							if call, ok := ex.Tuple.(*ssa.Call); ok && call.Call.StaticCallee() != nil && call.Call.StaticCallee().Name() == "NewSlidingWindowMetric" && len(call.Call.Args) == 3 {
								same = call.Call.Args[2] == w
							}
						}
					}
					c.Check(same, key, g.reuse.Pos(), "the read view must be built on the same BucketLeapArray that is stored as the write side (otherwise admitted tokens are written to a window the checker never reads)")
				}
			}
			if nStandalone == 0 || nReuse == 0 {
				c.Violate(fnKey(f)+" / branches", f.Pos(), "expected a standalone and a reuse branch (found %d / %d)", nStandalone, nReuse)
			}
			// node selection: phi of the two GetOrCreateResourceNode calls guarded by the relation strategy
			assoc, _ := constValue(c.P, "core/flow.AssociatedResource")
			sel := false
			eachInstr(f, func(ins ssa.Instruction) {
				phi, ok := ins.(*ssa.Phi)
				if !ok || len(phi.Edges) != 2 {
					return
				}
				okRef, okRes := false, false
				for i, e := range phi.Edges {
					p := accessPath(e)
					fs := canonFacts(phi.Block().Preds[i])
					guardEq := fs[fmt.Sprintf("%d == {Rule}.RelationStrategy", assoc)]
					guardNe := fs[fmt.Sprintf("%d != {Rule}.RelationStrategy", assoc)]
					if strings.Contains(p, "GetOrCreateResourceNode({Rule}.RefResource") && guardEq {
						okRef = true
					}
					if strings.Contains(p, "GetOrCreateResourceNode({Rule}.Resource") && guardNe {
						okRes = true
					}
					// one call, the name chosen by the strategy: phi of the two names that feeds GetOrCreateResourceNode
					feedsNode := false
					for _, r := range refsOf(phi) {
						if ci, ok := r.(ssa.CallInstruction); ok && ci.Common().StaticCallee() != nil && ci.Common().StaticCallee().Name() == "GetOrCreateResourceNode" {
							feedsNode = true
						}
					}
					if feedsNode {
						// the fact of the incoming edge counts too (if without else: one edge comes straight from the test)
						for _, ft := range edgeFact(phi.Block().Preds[i], phi.Block()) {
							fs[canonCond(ft.Cond, ft.Truth)] = true
						}
						guardEq = fs[fmt.Sprintf("%d == {Rule}.RelationStrategy", assoc)]
						guardNe = fs[fmt.Sprintf("%d != {Rule}.RelationStrategy", assoc)]
						if p == "{Rule}.RefResource" && guardEq {
							okRef = true
						}
						if p == "{Rule}.Resource" && guardNe {
							okRes = true
						}
					}
				}
				if okRef && okRes {
					sel = true
				}
			})
			c.Check(sel, fnKey(f)+" / node-by-relation-strategy", f.Pos(), "statistic node = node(RefResource) iff RelationStrategy==AssociatedResource, else node(Resource)")
			// sibling: selectNodeByRelStrategy used at check time
			if s := c.P.Func("core/flow.selectNodeByRelStrategy"); s != nil {
				ok := false
				for _, r := range returnsOf(s) {
					p := accessPath(r.Results[0])
					fs := canonFacts(r.Block())
					if strings.Contains(p, "GetResourceNode({Rule}.RefResource)") && fs[fmt.Sprintf("%d == {Rule}.RelationStrategy", assoc)] {
						ok = true
					}
				}
				c.Check(ok, fnKey(s)+" / agrees", s.Pos(), "check-time node selection uses the same relation-strategy test")
			}
			// the standalone recorder
			rec := c.P.Func("core/flow.(StandaloneStatSlot).OnEntryPassed")
			if rec == nil {
				rec = c.P.Func("core/flow.(*StandaloneStatSlot).OnEntryPassed")
			}
			if rec == nil {
				c.AnchorLost("StandaloneStatSlot.OnEntryPassed")
				return
			}
			n := 0
			for _, ci := range callsIn(rec) {
				cc := ci.Common()
				if !cc.IsInvoke() || cc.Method.Name() != "AddCount" {
					continue
				}
				n++
				key := fmt.Sprintf("%s / AddCount#%d", fnKey(rec), n)
				recv := accessPath(cc.Value)
				ev := constArgName(cc.Args[0])
				cnt := accessPath(cc.Args[1])
				fs := canonFacts(ci.Block())
				notReused := false
				for k := range fs {
					if strings.HasPrefix(k, "!") && strings.HasSuffix(k, ".boundStat.reuseResourceStat") {
						notReused = true
					}
				}
				ok := strings.HasSuffix(recv, ".boundStat.writeOnlyMetric") && ev == "MetricEventPass" && cnt == "int64({EntryContext}.Input.BatchCount)" && notReused
				c.Check(ok, key, ci.Pos(), "records %s(%s, %s) under not-reused=%v (want writeOnlyMetric.AddCount(MetricEventPass, batch) exactly when the statistic is standalone)", recv, ev, cnt, notReused)
			}
			if n != 1 {
				c.Violate(fnKey(rec)+" / AddCount-count", rec.Pos(), "standalone recorder adds %d times per controller (want once)", n)
			}
		},
	})

	register(&Rule{
		ID: "flow.reject-reads-pass", Props: []string{"C02"}, Floor: 3,
		Doc: "RejectTrafficShapingChecker.DoCheck reads GetSum(MetricEventPass) of its controller's bound read-only metric, blocks with BlockTypeFlow exactly on the branch where (sum + batch) compared with the threshold parameter says 'exceeds', and passes otherwise (which values meet in the comparison is checked, not the strictness of the operator)",
		Run: func(c *Ctx) {
			f := c.P.Func("core/flow.(*RejectTrafficShapingChecker).DoCheck")
			if f == nil {
				c.AnchorLost("RejectTrafficShapingChecker.DoCheck")
				return
			}
			var sum *ssa.Call
			for _, ci := range callsIn(f) {
				cc := ci.Common()
				if cc.IsInvoke() && cc.Method.Name() == "GetSum" {
					sum, _ = ci.(*ssa.Call)
					recv := accessPath(cc.Value)
					ev := constArgName(cc.Args[0])
					ok := strings.HasSuffix(recv, ".boundStat.readOnlyMetric") && (strings.HasPrefix(recv, "{RejectTrafficShapingChecker}.BoundOwner()") || strings.HasPrefix(recv, "{RejectTrafficShapingChecker}.owner")) && ev == "MetricEventPass"
					c.Check(ok, fnKey(f)+" / reads", ci.Pos(), "reads %s.GetSum(%s) (want the bound read-only metric's MetricEventPass sum)", recv, ev)
				}
			}
			if sum == nil {
				c.Violate(fnKey(f)+" / reads", f.Pos(), "the checker no longer reads the pass sum of its window")
				return
			}
			sumP := accessPath(sum)
			nb := 0
			for _, ci := range callsIn(f) {
				bt, ok := blockedResultCall(ci)
				if !ok {
					continue
				}
				nb++
				key := fmt.Sprintf("%s / blocked#%d", fnKey(f), nb)
				found := false
				for fact := range canonFacts(ci.Block()) {
					if strings.Contains(fact, sumP) && strings.Contains(fact, "{uint32}") && strings.Contains(fact, "{float64}") && strings.Contains(fact, " + ") {
						// threshold on the small side: "threshold < (sum + batch)" or "threshold <= ..."
						if strings.HasPrefix(fact, "{float64} <") {
							found = true
						}
					}
				}
				c.Check(found && bt == "BlockTypeFlow", key, ci.Pos(), "blocks with %s under the comparison of (pass sum + batch) against the threshold parameter (found=%v)", bt, found)
			}
			if nb == 0 {
				c.Violate(fnKey(f)+" / blocked", f.Pos(), "reject checker never blocks")
			}
			for i, r := range returnsOf(f) {
				if !isNilConst(r.Results[0]) {
					continue
				}
				fs := canonFacts(r.Block())
				ok := false
				for fact := range fs {
					if strings.Contains(fact, sumP) && strings.HasSuffix(fact, "<= {float64}") || strings.HasSuffix(fact, "< {float64}") && strings.Contains(fact, sumP) {
						ok = true
					}
					if (strings.HasPrefix(fact, "nil == ") || strings.HasSuffix(fact, " == nil")) && strings.Contains(fact, "readOnlyMetric") {
						ok = true // no statistic bound
					}
				}
				c.Check(ok, fmt.Sprintf("%s / pass#%d", fnKey(f), i+1), r.Pos(), "passes (nil) only when the sum test did not exceed or no metric is bound; facts: %s", factList(fs))
			}
		},
	})

	register(&Rule{
		ID: "flow.first-block-wins", Props: []string{"C02", "C10"}, Floor: 2,
		Doc: "flow.Slot.Check returns a controller's result from inside the loop exactly when its status is Blocked and otherwise visits every controller and returns the context's pass result; it sleeps exactly NanosToWait() of a ShouldWait result (>0), never on a blocked one, and nothing else reachable from it sleeps",
		Run: func(c *Ctx) {
			f := c.P.Func("core/flow.(*Slot).Check")
			if f == nil {
				c.AnchorLost("flow.Slot.Check")
				return
			}
			blocked, _ := constValue(c.P, "core/base.ResultStatusBlocked")
			wait, _ := constValue(c.P, "core/base.ResultStatusShouldWait")
			loops := loopBlocks(f)
			early := 0
			for _, r := range returnsOf(f) {
				if strings.Contains(accessPath(r.Results[0]), "canPassCheck") {
					early++
				}
			}
			c.Check(early > 0, fnKey(f)+" / blocked-result-returned", f.Pos(), "a blocked controller result is returned from inside the loop (%d such returns): otherwise later controllers still run, sleep and consume after a block", early)
			for i, r := range returnsOf(f) {
				key := fmt.Sprintf("%s / return#%d", fnKey(f), i+1)
				p := accessPath(r.Results[0])
				if loops[r.Block()] || strings.Contains(p, "canPassCheck") {
					fs := canonFacts(r.Block())
					ok := false
					for fact := range fs {
						if strings.HasPrefix(fact, fmt.Sprintf("%d == ", blocked)) && strings.HasSuffix(fact, ".Status()") && strings.Contains(fact, "canPassCheck") {
							ok = true
						}
					}
					c.Check(ok && strings.Contains(p, "canPassCheck"), key, r.Pos(), "early return of %s under [%s] (want: the controller's own result, status == Blocked)", p, factList(fs))
				} else {
					c.Check(p == "{EntryContext}.RuleCheckResult", key, r.Pos(), "after all controllers were visited the context's pass result is returned (got %s)", p)
				}
			}
			// sleeping
			sleep := c.P.Func("util.Sleep")
			ns := 0
			for _, ci := range callsIn(f) {
				if !isStaticCallTo(ci, sleep) && !isExtCall(ci, "time.Sleep") {
					continue
				}
				ns++
				key := fmt.Sprintf("%s / sleep#%d", fnKey(f), ns)
				arg := accessPath(ci.Common().Args[0])
				fs := canonFacts(ci.Block())
				okWait, okPos, notBlocked := false, false, true
				for fact := range fs {
					if strings.HasPrefix(fact, fmt.Sprintf("%d == ", wait)) && strings.HasSuffix(fact, ".Status()") {
						okWait = true
					}
					if strings.HasPrefix(fact, "0 < ") && strings.HasSuffix(fact, ".NanosToWait()") {
						okPos = true
					}
					if strings.HasPrefix(fact, fmt.Sprintf("%d == ", blocked)) && strings.HasSuffix(fact, ".Status()") {
						notBlocked = false
					}
				}
				c.Check(strings.HasSuffix(arg, ".NanosToWait()") && okWait && okPos && notBlocked, key, ci.Pos(), "sleeps %s under ShouldWait=%v, >0=%v", arg, okWait, okPos)
			}
			if ns != 1 {
				c.Violate(fnKey(f)+" / sleep-count", f.Pos(), "flow.Slot.Check has %d sleep sites (want 1)", ns)
			}
			// nothing else sleeps on rule-check paths
			_, order := c.P.Reach([]*ssa.Function{f}, false)
			other := 0
			for _, g := range order {
				if g == f || relPkg(fnPkgPath(g)) == "util" {
					continue // util.Sleep's own clock implementations
				}
				for _, ci := range callsIn(g) {
					if isStaticCallTo(ci, sleep) || isExtCall(ci, "time.Sleep") {
						other++
						c.Violate(fmt.Sprintf("%s / sleep#%d", fnKey(g), other), ci.Pos(), "a rule-check path sleeps outside flow.Slot.Check's ShouldWait handling")
					}
				}
			}
			c.Stat("functions_scanned_for_sleep", len(order))
		},
	})

	// ------------------------------------------------------------------------------------ C10

	register(&Rule{
		ID: "throttling.wait-bounded", Props: []string{"C10"}, Floor: 2,
		Doc: "every ShouldWait result of ThrottlingChecker.DoCheck carries either 0 or a value v for which the branch v <= maxQueueingTimeNs dominates (no admitted request is asked to wait longer than the maximum queueing time); non-positive threshold and batch > threshold block before any shared state is touched",
		Run: func(c *Ctx) {
			f := c.P.Func("core/flow.(*ThrottlingChecker).DoCheck")
			if f == nil {
				c.AnchorLost("ThrottlingChecker.DoCheck")
				return
			}
			n := 0
			for _, ci := range callsIn(f) {
				cal := ci.Common().StaticCallee()
				if cal == nil || cal.Name() != "NewTokenResultShouldWait" {
					continue
				}
				n++
				key := fmt.Sprintf("%s / ShouldWait#%d", fnKey(f), n)
				d := ci.Common().Args[0]
				if v, ok := constInt(d); ok {
					c.Check(v == 0, key, ci.Pos(), "constant wait %d", v)
					continue
				}
				// the wait may be assembled in a local (`w := d; if w < 0 { w = 0 }`): every alternative is 0 or bounded
				ok, v := true, ""
				here := canonFacts(ci.Block())
				for _, cs := range splitPhiCases(stripConv(d), ci.Block(), nil, 0) {
					cv := stripConv(cs.val)
					if k, isK := constInt(cv); isK {
						if k != 0 {
							ok = false
							v = fmt.Sprintf("constant %d", k)
						}
						continue
					}
					v = accessPath(cv)
					fs := canonFacts(cs.block, cs.extra...)
					if !(fs[v+" <= {ThrottlingChecker}.maxQueueingTimeNs"] || fs[v+" < {ThrottlingChecker}.maxQueueingTimeNs"] || here[v+" <= {ThrottlingChecker}.maxQueueingTimeNs"] || here[v+" < {ThrottlingChecker}.maxQueueingTimeNs"]) {
						ok = false
						break
					}
				}
				c.Check(ok, key, ci.Pos(), "wait %s is bounded by a dominating comparison with c.maxQueueingTimeNs: %v", v, ok)
				// the wait a caller is told is the one of ITS reservation: every non-zero alternative is computed from the
				// result of the atomic add that reserved the slot, not from an estimate read before it (two concurrent
				// callers would otherwise be given the same pass time)
				own := true
				for _, cs := range splitPhiCases(stripConv(d), ci.Block(), nil, 0) {
					cv := stripConv(cs.val)
					if _, isK := constInt(cv); isK {
						continue
					}
					if !dependsOnValue(cv, func(x ssa.Value) bool {
						call, isCall := x.(*ssa.Call)
						if !isCall {
							return false
						}
						an, isAt := atomicFuncName(call)
						return isAt && an == "AddInt64"
					}) {
						own = false
					}
				}
				c.Check(own, key+" / own-reservation", ci.Pos(), "the wait is computed from the result of the atomic add that reserved this caller's slot")
			}
			if n == 0 {
				c.Violate(fnKey(f)+" / ShouldWait", f.Pos(), "throttling checker never queues")
			}
			// state touched only after the early blocks
			na := 0
			for _, ci := range callsIn(f) {
				an, ok := atomicFuncName(ci)
				if !ok {
					continue
				}
				// the pacing state is the checker's own; package-level counters kept for diagnosis are not part of it
				if len(ci.Common().Args) > 0 {
					root := ci.Common().Args[0]
					for i := 0; i < 4; i++ {
						if fa, isFa := root.(*ssa.FieldAddr); isFa {
							root = fa.X
						} else if ia, isIa := root.(*ssa.IndexAddr); isIa {
							root = ia.X
						} else {
							break
						}
					}
					if _, isGlobal := root.(*ssa.Global); isGlobal {
						continue
					}
				}
				na++
				fs := canonFacts(ci.Block())
				okT := fs["0 < {float64}"]
				okB := fs["float64({uint32}) <= {float64}"]
				c.Check(okT && okB, fmt.Sprintf("%s / atomic.%s#%d / after-early-blocks", fnKey(f), an, na), ci.Pos(), "pacing state is touched only when threshold>0 (%v) and batch<=threshold (%v)", okT, okB)
			}
			// the early branches block
			for _, ci := range callsIn(f) {
				if bt, ok := blockedResultCall(ci); ok {
					fs := canonFacts(ci.Block())
					if fs["{float64} <= 0"] || fs["{float64} < float64({uint32})"] {
						c.Check(bt == "BlockTypeFlow", fnKey(f)+" / early-block / "+map[bool]string{true: "threshold<=0", false: "batch>threshold"}[fs["{float64} <= 0"]], ci.Pos(), "blocked with %s", bt)
					}
				}
			}
		},
	})

	register(&Rule{
		ID: "throttling.add-rollback-paired", Props: []string{"C10"}, Floor: 2,
		Doc: "after ThrottlingChecker.DoCheck reserved a slot with atomic.AddInt64(&lastPassedTime, +x), every path returning a blocked result gives it back with AddInt64(&lastPassedTime, -x) (same x) and no path returning an admitted result does",
		Run: func(c *Ctx) {
			f := c.P.Func("core/flow.(*ThrottlingChecker).DoCheck")
			if f == nil {
				c.AnchorLost("ThrottlingChecker.DoCheck")
				return
			}
			var plus, minus []*ssa.Call
			for _, ci := range callsIn(f) {
				an, ok := atomicFuncName(ci)
				call, isCall := ci.(*ssa.Call)
				if !ok || !isCall || an != "AddInt64" {
					continue
				}
				if u, ok := call.Call.Args[1].(*ssa.UnOp); ok && u.Op == token.SUB {
					minus = append(minus, call)
				} else {
					plus = append(plus, call)
				}
			}
			if len(plus) == 0 {
				c.Violate(fnKey(f)+" / reserve", f.Pos(), "no reservation (atomic add) found")
				return
			}
			for i, p := range plus {
				// matching rollback
				var rb *ssa.Call
				for _, m := range minus {
					if sameValue(m.Call.Args[1].(*ssa.UnOp).X, p.Call.Args[1]) && accessPath(m.Call.Args[0]) == accessPath(p.Call.Args[0]) {
						rb = m
					}
				}
				for j, r := range returnsOf(f) {
					if !instrReaches(p, r) {
						continue
					}
					key := fmt.Sprintf("%s / reserve#%d / return#%d", fnKey(f), i+1, j+1)
					isBlocked := false
					if call, ok := r.Results[0].(*ssa.Call); ok {
						_, isBlocked = blockedResultCall(call)
					}
					if rb == nil {
						c.Check(!isBlocked, key, r.Pos(), "blocked result after a reservation that has no rollback: the rejected request permanently delays all later ones")
						continue
					}
					all, any := throughVia(p, r, rb)
					if isBlocked {
						c.Check(all, key, r.Pos(), "a rejected request must give its reserved interval back on every path (rollback on all paths: %v)", all)
					} else {
						c.Check(!any, key, r.Pos(), "an admitted request must keep its reserved interval (rollback reachable: %v)", any)
					}
				}
			}
		},
	})
}

// evalBoolOnFields interprets a small side-effect-free predicate over the fields of its receiver (comparisons of
// fields with constants, &&, ||, if/else) for given constant field values. ok=false when the shape is outside that.
func evalBoolOnFields(f *ssa.Function, fields map[string]int64) (result bool, ok bool) {
	if len(f.Blocks) == 0 {
		return false, false
	}
	vals := map[ssa.Value]interface{}{}
	var get func(v ssa.Value) (interface{}, bool)
	get = func(v ssa.Value) (interface{}, bool) {
		if x, ok := vals[v]; ok {
			return x, true
		}
		if cv, ok := v.(*ssa.Const); ok && cv.Value != nil {
			if cv.Value.Kind() == constant.Bool {
				return constant.BoolVal(cv.Value), true
			}
			if i, ok := constInt(cv); ok {
				return i, true
			}
		}
		return nil, false
	}
	b, prev := f.Blocks[0], (*ssa.BasicBlock)(nil)
	for steps := 0; steps < 200; steps++ {
		for _, ins := range b.Instrs {
			switch x := ins.(type) {
			case *ssa.Phi:
				for i, p := range b.Preds {
					if p == prev {
						if v, ok := get(x.Edges[i]); ok {
							vals[x] = v
						}
					}
				}
			case *ssa.FieldAddr:
			case *ssa.UnOp:
				if x.Op == token.MUL {
					if fa, ok := x.X.(*ssa.FieldAddr); ok && resolve(fa.X) == ssa.Value(f.Params[0]) {
						if c, ok := fields[fieldName(fa.X.Type(), fa.Field)]; ok {
							vals[x] = c
						}
					}
				} else if x.Op == token.NOT {
					if v, ok := get(x.X); ok {
						if bv, ok := v.(bool); ok {
							vals[x] = !bv
						}
					}
				}
			case *ssa.BinOp:
				l, ok1 := get(x.X)
				r, ok2 := get(x.Y)
				if ok1 && ok2 {
					li, lok := l.(int64)
					ri, rok := r.(int64)
					if lok && rok {
						switch x.Op {
						case token.EQL:
							vals[x] = li == ri
						case token.NEQ:
							vals[x] = li != ri
						}
					}
				}
			case *ssa.If:
				v, ok := get(x.Cond)
				bv, isB := v.(bool)
				if !ok || !isB {
					return false, false
				}
				prev = b
				if bv {
					b = b.Succs[0]
				} else {
					b = b.Succs[1]
				}
			case *ssa.Jump:
				prev = b
				b = b.Succs[0]
			case *ssa.Return:
				v, ok := get(x.Results[0])
				bv, isB := v.(bool)
				return bv, ok && isB
			case *ssa.DebugRef:
			default:
				return false, false
			}
		}
	}
	return false, false
}

func init() {
	register(&Rule{
		ID: "flow.stat-need-agrees-with-generators", Props: []string{"C11", "C02", "C14"}, Floor: 6,
		Doc: "Rule.needStatistic (which decides, through isStatReusable, whether a controller's statistic may be donated to another rule on reload) agrees with the built-in generators: for every (TokenCalculateStrategy, ControlBehavior) key registered in flow.init, the generator binds a real statistic (generateStatFor / the donated one) exactly when needStatistic is true for that key, and the shared no-op statistic exactly when it is false. If the predicate says 'has a statistic' for a no-op one, a reload donates the no-op to a Reject rule, which then reads 0 forever and admits everything",
		Run: func(c *Ctx) {
			var inits []*ssa.Function
			for _, f := range c.P.FuncsIn(modPath + "/core/flow") {
				if f.Parent() == nil && strings.HasPrefix(f.Name(), "init") {
					inits = append(inits, f)
				}
			}
			var initF *ssa.Function
			if len(inits) > 0 {
				initF = inits[0]
			}
			need := c.P.Func("core/flow.(*Rule).needStatistic")
			gen := c.P.Func("core/flow.generateStatFor")
			nop := c.P.Global("core/flow.nopStat")
			gm := c.P.Global("core/flow.tcGenFuncMap")
			if initF == nil || need == nil || gen == nil || nop == nil || gm == nil {
				c.AnchorLost("flow.init / needStatistic / generateStatFor / nopStat / tcGenFuncMap")
				return
			}
			n := 0
			var initFns []*ssa.Function
			for _, f := range inits {
				initFns = append(initFns, withAnon(f)...)
			}
			for _, fn := range initFns {
				eachInstr(fn, func(ins ssa.Instruction) {
					mu, ok := ins.(*ssa.MapUpdate)
					if !ok {
						return
					}
					if ld, ok := mu.Map.(*ssa.UnOp); !ok || ld.X != ssa.Value(gm) {
						return
					}
					// key: load of a local struct whose fields were stored with constants
					fields := map[string]int64{}
					if ld, ok := mu.Key.(*ssa.UnOp); ok {
						if al, ok := ld.X.(*ssa.Alloc); ok {
							for _, r := range refsOf(al) {
								if fa, ok := r.(*ssa.FieldAddr); ok {
									for _, r2 := range refsOf(fa) {
										if st, ok := r2.(*ssa.Store); ok {
											if k, ok := constInt(st.Val); ok {
												fields[fieldName(fa.X.Type(), fa.Field)] = k
											}
										}
									}
								}
							}
						}
					}
					var g *ssa.Function
					switch v := stripConv(mu.Value).(type) {
					case *ssa.MakeClosure:
						g, _ = v.Fn.(*ssa.Function)
					case *ssa.Function:
						g = v
					}
					if g != nil && len(fields) != 2 {
						// table-driven registration: `for _, spec := range table { m[spec.key] = generatorFor(spec) }` - one
						// obligation per table entry, the closure evaluated with that entry's constants
						if done := tableDrivenGenerators(c, fn, mu, g, need, gen, nop, &n); done {
							return
						}
					}
					n++
					key := fmt.Sprintf("core/flow.init / generator#%d", n)
					if g == nil || len(fields) != 2 {
						c.Undecided(key, mu.Pos(), "cannot read the registration (key fields %v)", fields)
						return
					}
					// the Rule fields carry the same names with an upper-case initial
					rf := map[string]int64{}
					for k, v := range fields {
						rf[strings.ToUpper(k[:1])+k[1:]] = v
					}
					want, ok := evalBoolOnFields(need, rf)
					if !ok {
						c.Undecided(key, need.Pos(), "needStatistic is not a simple predicate over the key fields any more")
						return
					}
					usesNop, usesReal := false, false
					for _, h := range withAnon(g) {
						eachInstr(h, func(x ssa.Instruction) {
							if ld, ok := x.(*ssa.UnOp); ok && ld.X == ssa.Value(nop) {
								usesNop = true
							}
							if ci, ok := x.(ssa.CallInstruction); ok && isStaticCallTo(ci, gen) {
								usesReal = true
							}
						})
					}
					sn := constName(fieldTypeOf(c.P, "core/flow.Rule", "TokenCalculateStrategy"), rf["TokenCalculateStrategy"])
					bn := constName(fieldTypeOf(c.P, "core/flow.Rule", "ControlBehavior"), rf["ControlBehavior"])
					c.Check(want == usesReal && want != usesNop, key, mu.Pos(), "%s+%s: needStatistic=%v, generator binds a real statistic=%v, the no-op statistic=%v", sn, bn, want, usesReal, usesNop)
				})
			}
			if n == 0 {
				c.Violate("core/flow.init / generators", initF.Pos(), "no generator registration found")
			}
		},
	})
}

func fieldTypeOf(P *Program, named, field string) types.Type {
	n := P.Named(named)
	if n == nil {
		return types.Typ[types.Int]
	}
	st, ok := n.Underlying().(*types.Struct)
	if !ok {
		return types.Typ[types.Int]
	}
	for i := 0; i < st.NumFields(); i++ {
		if st.Field(i).Name() == field {
			return st.Field(i).Type()
		}
	}
	return types.Typ[types.Int]
}

func init() {
	register(&Rule{
		ID: "flow.threshold-computed-per-check", Props: []string{"C11", "C02", "C10"}, Floor: 1,
		Doc: "TrafficShapingController.PerformChecking hands the checker the threshold that the calculator computed for this very check: the threshold argument of TrafficShapingChecker.DoCheck is the result of a TrafficShapingCalculator.CalculateAllowedTokens invoke made, unconditionally, earlier in the same call (not a cached field, not a value computed under a condition). A threshold reused across checks lags behind the memory reading / warm-up state it must follow",
		Run: func(c *Ctx) {
			f := c.P.Func("core/flow.(*TrafficShapingController).PerformChecking")
			if f == nil {
				c.AnchorLost("TrafficShapingController.PerformChecking")
				return
			}
			n := 0
			for _, ci := range callsIn(f) {
				if !isInvokeOf(ci, "TrafficShapingChecker", "DoCheck") {
					continue
				}
				n++
				args := ci.Common().Args
				th := resolve(args[len(args)-1])
				call, ok := th.(*ssa.Call)
				fresh := ok && isInvokeOf(call, "TrafficShapingCalculator", "CalculateAllowedTokens") && call.Parent() == f && len(condFacts(call.Block())) == 0 && instrDominates(call, ci.(ssa.Instruction))
				c.Check(fresh, fmt.Sprintf("%s / DoCheck#%d", fnKey(f), n), ci.Pos(), "threshold argument %s is the calculator's result for this check", accessPath(args[len(args)-1]))
			}
			if n == 0 {
				c.Violate(fnKey(f)+" / DoCheck", f.Pos(), "PerformChecking no longer consults the checker")
			}
		},
	})
}

// fieldPathOf: addr is &root.f.g... ; it returns the root and "f.g".
func fieldPathOf(addr ssa.Value) (ssa.Value, string) {
	var parts []string
	for {
		fa, ok := addr.(*ssa.FieldAddr)
		if !ok {
			break
		}
		parts = append([]string{fieldName(fa.X.Type(), fa.Field)}, parts...)
		addr = fa.X
	}
	return addr, strings.Join(parts, ".")
}

// tableDrivenGenerators handles a generator registration whose key and closure depend on the element of a package-level
// table the registration loop ranges over. It reports whether it recognised the shape (and has emitted the obligations).
func tableDrivenGenerators(c *Ctx, initFn *ssa.Function, mu *ssa.MapUpdate, g *ssa.Function, need, gen *ssa.Function, nop *ssa.Global, n *int) bool {
	// the loop variable: key = load of &spec.key... with spec a local that is assigned table[i]
	kld, ok := mu.Key.(*ssa.UnOp)
	if !ok {
		return false
	}
	specV, keyPath := fieldPathOf(kld.X)
	spec, ok := specV.(*ssa.Alloc)
	if !ok || keyPath == "" {
		return false
	}
	var table ssa.Value
	for _, r := range refsOf(spec) {
		if st, ok := r.(*ssa.Store); ok && st.Addr == ssa.Value(spec) {
			switch x := stripConv(st.Val).(type) {
			case *ssa.UnOp:
				if ia, ok := x.X.(*ssa.IndexAddr); ok {
					table = ia.X
				}
			case *ssa.Index:
				table = x.X
			}
		}
	}
	if table == nil {
		return false
	}
	// the global behind it: the array itself, or a slice variable
	var glob *ssa.Global
	switch x := table.(type) {
	case *ssa.Global:
		glob = x
	case *ssa.UnOp:
		glob, _ = x.X.(*ssa.Global)
	}
	if glob == nil || glob.Pkg == nil {
		return false
	}
	pini := glob.Pkg.Func("init")
	if pini == nil {
		return false
	}
	// roots whose elements are the table's elements: the global array, or the backing array of the slice stored in it
	roots := map[ssa.Value]bool{glob: true}
	eachInstr(pini, func(ins ssa.Instruction) {
		if st, ok := ins.(*ssa.Store); ok && st.Addr == ssa.Value(glob) {
			if sl, ok := st.Val.(*ssa.Slice); ok {
				roots[sl.X] = true
			}
		}
	})
	elems := map[int64]map[string]int64{}
	unknown := false
	eachInstr(pini, func(ins ssa.Instruction) {
		st, ok := ins.(*ssa.Store)
		if !ok {
			return
		}
		root, path := fieldPathOf(st.Addr)
		ia, ok := root.(*ssa.IndexAddr)
		if !ok || !roots[ia.X] {
			return
		}
		j, ok := constInt(ia.Index)
		if !ok {
			unknown = true
			return
		}
		if elems[j] == nil {
			elems[j] = map[string]int64{}
		}
		if path == "" {
			// whole element stored from a literal built elsewhere: not read
			unknown = true
			return
		}
		switch v := stripConv(st.Val).(type) {
		case *ssa.Const:
			if v.Value == nil {
				elems[j][path] = 0
			} else if v.Value.Kind() == constant.Bool {
				if constant.BoolVal(v.Value) {
					elems[j][path] = 1
				} else {
					elems[j][path] = 0
				}
			} else if k, ok := constInt(v); ok {
				elems[j][path] = k
			}
		}
	})
	if unknown || len(elems) == 0 {
		return false
	}
	// the closure's captured copy of the element
	var specFree *ssa.FreeVar
	for _, h := range withAnon(g) {
		for _, fv := range h.FreeVars {
			if pt, ok := fv.Type().(*types.Pointer); ok && types.Identical(pt.Elem(), spec.Type().(*types.Pointer).Elem()) {
				specFree = fv
			}
		}
	}
	var idxs []int64
	for j := range elems {
		idxs = append(idxs, j)
	}
	sort.Slice(idxs, func(a, b int) bool { return idxs[a] < idxs[b] })
	for _, j := range idxs {
		el := elems[j]
		*n++
		key := fmt.Sprintf("core/flow.init / generator#%d", *n)
		rf := map[string]int64{}
		for pth, v := range el {
			if strings.HasPrefix(pth, keyPath+".") {
				last := pth[len(keyPath)+1:]
				rf[strings.ToUpper(last[:1])+last[1:]] = v
			}
		}
		// key fields left at zero are not stored by the initialiser
		if kt, ok := mu.Key.Type().Underlying().(*types.Struct); ok {
			for k := 0; k < kt.NumFields(); k++ {
				nm := kt.Field(k).Name()
				nm = strings.ToUpper(nm[:1]) + nm[1:]
				if _, have := rf[nm]; !have {
					rf[nm] = 0
				}
			}
		}
		want, ok := evalBoolOnFields(need, rf)
		if !ok {
			c.Undecided(key, need.Pos(), "needStatistic is not a simple predicate over the key fields any more")
			continue
		}
		// what the closure does for this entry: fold the branches on the entry's constant fields
		constOf := func(v ssa.Value) (int64, bool) {
			if k, ok := constInt(v); ok {
				return k, true
			}
			if cv, ok := v.(*ssa.Const); ok && cv.Value != nil && cv.Value.Kind() == constant.Bool {
				if constant.BoolVal(cv.Value) {
					return 1, true
				}
				return 0, true
			}
			ld, ok := stripConv(v).(*ssa.UnOp)
			if !ok || ld.Op != token.MUL || specFree == nil {
				return 0, false
			}
			root, pth := fieldPathOf(ld.X)
			if root != ssa.Value(specFree) || pth == "" {
				return 0, false
			}
			if val, have := el[pth]; have {
				return val, true
			}
			return 0, true // field not named in the table literal: zero
		}
		usesNop, usesReal := false, false
		for _, h := range withAnon(g) {
			if len(h.Blocks) == 0 {
				continue
			}
			reach := map[*ssa.BasicBlock]bool{h.Blocks[0]: true}
			work := []*ssa.BasicBlock{h.Blocks[0]}
			for len(work) > 0 {
				b := work[len(work)-1]
				work = work[:len(work)-1]
				succs := b.Succs
				if ifi, ok := b.Instrs[len(b.Instrs)-1].(*ssa.If); ok {
					cond, pos := stripNot(ifi.Cond, true)
					known, val := false, false
					if k, ok := constOf(cond); ok {
						known, val = true, k != 0
					} else if bo, ok := cond.(*ssa.BinOp); ok && (bo.Op == token.EQL || bo.Op == token.NEQ) {
						x, okx := constOf(bo.X)
						y, oky := constOf(bo.Y)
						if okx && oky {
							known, val = true, (x == y) == (bo.Op == token.EQL)
						}
					}
					if known {
						if val == pos {
							succs = b.Succs[:1]
						} else {
							succs = b.Succs[1:2]
						}
					}
				}
				for _, s := range succs {
					if !reach[s] {
						reach[s] = true
						work = append(work, s)
					}
				}
			}
			for b := range reach {
				for _, x := range b.Instrs {
					if ld, ok := x.(*ssa.UnOp); ok && ld.X == ssa.Value(nop) {
						usesNop = true
					}
					if ci, ok := x.(ssa.CallInstruction); ok && isStaticCallTo(ci, gen) {
						usesReal = true
					}
				}
			}
		}
		sn := constName(fieldTypeOf(c.P, "core/flow.Rule", "TokenCalculateStrategy"), rf["TokenCalculateStrategy"])
		bn := constName(fieldTypeOf(c.P, "core/flow.Rule", "ControlBehavior"), rf["ControlBehavior"])
		c.Check(want == usesReal && want != usesNop, key, mu.Pos(), "%s+%s (entry %d of the generator table): needStatistic=%v, generator binds a real statistic=%v, the no-op statistic=%v", sn, bn, j, want, usesReal, usesNop)
	}
	return true
}
