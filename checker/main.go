// sgcheck decides structural necessary conditions of the properties in /verif/properties.jsonl
// from the type-checked source of /repo. Nothing in /repo is executed.
package main

import (
	"encoding/json"
	"flag"
	"fmt"
	"os"
	"path/filepath"
	"runtime/debug"
	"sort"
	"strings"
	"time"
)

var (
	repoRoot  = "/repo"
	verifRoot = "/verif"
)

var allRules []*Rule

func register(r *Rule) { allRules = append(allRules, r) }

func rulesFor(prop string) []*Rule {
	var out []*Rule
	for _, r := range allRules {
		for _, p := range r.Props {
			if p == prop {
				out = append(out, r)
			}
		}
	}
	return out
}

func main() {
	prop := flag.String("property", "", "property id (C01..C20)")
	tier := flag.String("tier", "quick", "quick|thorough")
	replay := flag.String("replay", "", "replay file written by a previous run")
	only := flag.String("rule", "", "run only this rule (debugging)")
	dump := flag.Bool("dump", false, "print every obligation")
	list := flag.Bool("list", false, "list rules")
	selftestVariant := flag.String("selftest-variant", "", "internal: run one seeded variant (json) and print the verdict")
	dumpKnown := flag.Bool("dump-known-funcs", false, "maintenance: print the function table of the tree (known_funcs.txt)")
	selftestOne := flag.String("selftest-one", "", "debugging: run the named self-test variant of -property and print the child's result")
	flag.StringVar(&repoRoot, "repo", envOr("SG_REPO", "/repo"), "repository root")
	flag.StringVar(&verifRoot, "verif", envOr("SG_VERIF", "/verif"), "verif root")
	noEvidence := flag.Bool("no-evidence", false, "do not write evidence (debugging)")
	flag.Parse()

	if *list {
		for _, r := range allRules {
			fmt.Printf("%-34s %-22s floor=%d\n", r.ID, strings.Join(r.Props, ","), r.Floor)
		}
		return
	}
	if *dumpKnown {
		dumpKnownFuncs(repoRoot)
		return
	}
	if *selftestOne != "" {
		for _, v := range variantsFor(*prop) {
			if v.ID == *selftestOne {
				spec, _ := json.Marshal(childSpec{Prop: *prop, Variant: v, Repo: repoRoot, Verif: verifRoot})
				os.Exit(runVariantChild(string(spec)))
			}
		}
		fmt.Println("no such variant for this property")
		os.Exit(2)
	}
	if *selftestVariant != "" {
		os.Exit(runVariantChild(*selftestVariant))
	}
	if *replay != "" {
		b, err := os.ReadFile(*replay)
		if err != nil {
			fmt.Fprintln(os.Stderr, err)
			os.Exit(2)
		}
		var rp struct {
			Property   string     `json:"property"`
			Obligation Obligation `json:"obligation"`
		}
		if err := json.Unmarshal(b, &rp); err != nil {
			fmt.Fprintln(os.Stderr, err)
			os.Exit(2)
		}
		*prop = rp.Property
		*only = rp.Obligation.Rule
		*dump = false
		*noEvidence = true
		code := run(*prop, *tier, *only, false, true, rp.Obligation.Key)
		os.Exit(code)
	}
	if *prop == "" {
		fmt.Fprintln(os.Stderr, "usage: sgcheck -property Cxx -tier quick|thorough")
		os.Exit(2)
	}
	if t := os.Getenv("VERIF_TIER"); t != "" && !isFlagSet("tier") {
		*tier = t
	}
	os.Exit(run(*prop, *tier, *only, *dump, *noEvidence, ""))
}

func isFlagSet(name string) bool {
	set := false
	flag.Visit(func(f *flag.Flag) {
		if f.Name == name {
			set = true
		}
	})
	return set
}

func envOr(k, d string) string {
	if v := os.Getenv(k); v != "" {
		return v
	}
	return d
}

// runRules executes rules against a loaded program and returns obligations plus per-rule evidence.
func runRules(rules []*Rule, P *Program, adapters []*Program, tier string) ([]Obligation, []RuleEvidence, []string, []string) {
	var obls []Obligation
	var revs []RuleEvidence
	var regress, crashes []string
	for _, r := range rules {
		c := &Ctx{P: P, Adapters: adapters, Tier: tier, rule: r}
		func() {
			defer func() {
				if e := recover(); e != nil {
					crashes = append(crashes, fmt.Sprintf("rule %s panicked: %v\n%s", r.ID, e, debug.Stack()))
				}
			}()
			r.Run(c)
		}()
		sortObls(c.obls)
		ev := RuleEvidence{Rule: r.ID, Doc: r.Doc, Floor: r.Floor, Stats: c.stats, Notes: c.notes}
		for _, o := range c.obls {
			if o.Verdict == Info {
				continue
			}
			ev.Obligations++
			switch o.Verdict {
			case Holds:
				ev.Holds++
			case Violated:
				ev.Violated++
			case Undecided:
				ev.Undecided++
			}
		}
		if ev.Obligations < r.Floor {
			regress = append(regress, fmt.Sprintf("COVERAGE-REGRESSION rule=%s found=%d floor=%d", r.ID, ev.Obligations, r.Floor))
		}
		revs = append(revs, ev)
		obls = append(obls, c.obls...)
	}
	return obls, revs, regress, crashes
}

func needs(rules []*Rule) (main, adapters bool) {
	for _, r := range rules {
		switch r.Needs {
		case "adapters":
			adapters = true
		case "main+adapters":
			main, adapters = true, true
		default:
			main = true
		}
	}
	return
}

func run(prop, tier, only string, dump, noEvidence bool, replayKey string) int {
	start := time.Now()
	rules := rulesFor(prop)
	if only != "" {
		var f []*Rule
		for _, r := range rules {
			if r.ID == only {
				f = append(f, r)
			}
		}
		rules = f
	}
	if len(rules) == 0 {
		fmt.Fprintf(os.Stderr, "no rules registered for %s\n", prop)
		return 2
	}
	before := repoStatus(repoRoot)
	wantMain, wantAd := needs(rules)
	var P *Program
	var err error
	if wantMain {
		P, err = LoadProgram(repoRoot, true, nil)
		if err != nil {
			fmt.Fprintln(os.Stderr, "CHECK-ERROR", err)
			return 2
		}
		if P.TypeErrors > 0 {
			fmt.Fprintf(os.Stderr, "CHECK-ERROR %d type/load errors in /repo's own packages; the tree does not compile\n", P.TypeErrors)
			return 2
		}
	}
	var adapters []*Program
	if wantAd {
		adapters, err = LoadAdapters(repoRoot)
		if err != nil {
			fmt.Fprintln(os.Stderr, "CHECK-ERROR", err)
			return 2
		}
	}
	obls, revs, regress, crashes := runRules(rules, P, adapters, tier)
	after := repoStatus(repoRoot)
	if before != after {
		fmt.Fprintf(os.Stderr, "CHECK-ERROR the check changed /repo's working tree:\n--before--\n%s--after--\n%s", before, after)
		return 2
	}

	res := &runResult{prop: prop, tier: tier, start: start, rules: revs, obls: obls, extra: map[string]interface{}{}}
	findings, ferr := loadFindings(filepath.Join(verifRoot, "known_findings.json"))
	if ferr != nil {
		fmt.Fprintln(os.Stderr, "CHECK-ERROR known_findings.json:", ferr)
		return 2
	}
	for _, o := range obls {
		switch o.Verdict {
		case Violated:
			if f := findKnown(findings, prop, o); f != nil {
				res.known = append(res.known, o)
				for i := range res.rules {
					if res.rules[i].Rule == o.Rule {
						res.rules[i].Known++
					}
				}
			} else {
				res.violations = append(res.violations, o)
			}
		case Undecided:
			res.undecided = append(res.undecided, o)
		}
	}
	if dump {
		for _, o := range obls {
			fmt.Printf("%-9s %-28s %s @ %s :: %s\n", o.Verdict, o.Rule, o.Key, o.Pos, o.Detail)
		}
	}
	if replayKey != "" {
		found := false
		for _, o := range obls {
			if o.Key == replayKey {
				found = true
				fmt.Printf("REPLAY %s rule=%s key=%s pos=%s\n  %s\n", o.Verdict, o.Rule, o.Key, o.Pos, o.Detail)
				if o.Verdict == Violated {
					return 1
				}
			}
		}
		if !found {
			fmt.Printf("REPLAY construct %s no longer present\n", replayKey)
		}
		return 0
	}

	// program-level statistics for evidence
	if P != nil {
		res.extra["packages"] = len(P.Pkgs)
		res.extra["functions_analysed"] = len(P.ModuleFuncs())
		nCalls := 0
		for _, cs := range P.callers {
			nCalls += len(cs)
		}
		res.extra["call_sites"] = nCalls
	}
	if len(adapters) > 0 {
		var names []string
		for _, a := range adapters {
			names = append(names, filepath.Base(a.Root))
		}
		res.extra["adapter_modules"] = names
	}
	res.extra["call_graph"] = "module-bounded (static + CHA interface/closure edges between module functions, closure-argument edges)"
	res.assume = []string{
		"code outside module github.com/alibaba/sentinel-golang calls into it only through function values passed as arguments and String/Error-style methods",
		"aliasing is approximated by SSA value identity and field paths (no pointer analysis is available offline)",
		"only the structural necessary conditions named in coverage.rules are decided; the behavioural remainder of the property is not decided",
	}

	if tier == "thorough" {
		st := runSelfTests(prop, rules)
		res.extra["selftest"] = st
	}

	// outcome
	code := 0
	for _, o := range res.known {
		f := findKnown(findings, prop, o)
		fmt.Printf("KNOWN-FINDING: property=%s rule=%s %s @ %s :: %s\n", prop, o.Rule, o.Key, o.Pos, f.What)
	}
	vdir := filepath.Join(verifRoot, "evidence", "violations")
	if !noEvidence {
		// clear old replay files of this property
		old, _ := filepath.Glob(filepath.Join(vdir, prop+"-*.json"))
		for _, f := range old {
			os.Remove(f)
		}
	}
	for i, o := range res.violations {
		path := filepath.Join(vdir, fmt.Sprintf("%s-%d.json", prop, i+1))
		if !noEvidence {
			writeJSON(path, map[string]interface{}{"property": prop, "obligation": o})
		}
		fmt.Printf("VIOLATION property=%s replay=%s\n", prop, path)
		fmt.Printf("  rule=%s construct=%s at %s\n  %s\n", o.Rule, o.Key, o.Pos, o.Detail)
		code = 1
	}
	hard := false
	for _, o := range res.undecided {
		fmt.Fprintf(os.Stderr, "UNDECIDED rule=%s %s at %s :: %s\n", o.Rule, o.Key, o.Pos, o.Detail)
		hard = true
	}
	for _, s := range regress {
		fmt.Fprintln(os.Stderr, s)
		hard = true
	}
	for _, s := range crashes {
		fmt.Fprintln(os.Stderr, "CHECK-ERROR", s)
		hard = true
	}
	docs := map[string]string{}
	var words []string
	for _, r := range rules {
		docs[r.ID] = r.Doc
		words = append(words, r.ID+": "+r.Doc)
	}
	sort.Strings(words)
	expl := "Static analysis of /repo's current source (go/packages + go/types + go/ssa + go/cfg, nothing executed). Rules applied: " + strings.Join(words, " || ")
	if !noEvidence {
		ev := res.evidence(docs, expl)
		if err := writeJSON(filepath.Join(verifRoot, "evidence", prop+".json"), ev); err != nil {
			fmt.Fprintln(os.Stderr, "CHECK-ERROR writing evidence:", err)
			return 2
		}
	}
	nh := 0
	for _, o := range obls {
		if o.Verdict == Holds {
			nh++
		}
	}
	fmt.Printf("%s tier=%s rules=%d obligations=%d holds=%d known=%d violations=%d undecided=%d wall=%.1fs\n",
		prop, tier, len(rules), len(obls), nh, len(res.known), len(res.violations), len(res.undecided), time.Since(start).Seconds())
	if code == 0 && hard {
		return 2
	}
	return code
}
