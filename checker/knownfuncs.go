package main

import (
	"fmt"
	"go/ast"
	"go/parser"
	"go/token"
	"os"
	"path/filepath"
	"sort"
	"strings"
)

// dumpKnownFuncs prints "<package dir relative to the repository root>|<Recv.>Name" for every function declared in a
// non-test file of the tree. The output, taken on the reference tree, is known_funcs.txt (see inlineprepass.go).
func dumpKnownFuncs(root string) {
	var keys []string
	filepath.Walk(root, func(p string, fi os.FileInfo, err error) error {
		if err != nil {
			return nil
		}
		if fi.IsDir() {
			if n := fi.Name(); n == ".git" || n == "testdata" {
				return filepath.SkipDir
			}
			return nil
		}
		if !strings.HasSuffix(p, ".go") || strings.HasSuffix(p, "_test.go") {
			return nil
		}
		f, err := parser.ParseFile(token.NewFileSet(), p, nil, parser.SkipObjectResolution)
		if err != nil {
			return nil
		}
		rel, _ := filepath.Rel(root, filepath.Dir(p))
		for _, d := range f.Decls {
			if fd, ok := d.(*ast.FuncDecl); ok {
				keys = append(keys, funcKeyOf(filepath.ToSlash(rel), fd))
			}
		}
		return nil
	})
	sort.Strings(keys)
	fmt.Println("# functions of the reference tree (generated: sgcheck -dump-known-funcs); helpers not listed here are inlined before analysis")
	last := ""
	for _, k := range keys {
		if k != last {
			fmt.Println(k)
		}
		last = k
	}
}
