package main

import (
	"fmt"
	"go/constant"
	"go/token"
	"go/types"
	"sort"
	"strings"

	"golang.org/x/tools/go/ssa"
)

// Entry / Exit / slot chain / statistic slot rules: C01, C06, C16 (and C04 through the gauge).

// fieldStore is one store instruction into a struct field.
type fieldStore struct {
	fn *ssa.Function
	st *ssa.Store
	fa *ssa.FieldAddr
}

// fieldStores lists all stores in the module to field `field` of named struct type T.
func fieldStores(P *Program, T *types.Named, field string) []fieldStore {
	var out []fieldStore
	for _, f := range P.ModuleFuncs() {
		if isTestOrExample(f) {
			continue
		}
		eachInstr(f, func(ins ssa.Instruction) {
			fa, ok := ins.(*ssa.FieldAddr)
			if !ok || namedOf(fa.X.Type()) != T || fieldName(fa.X.Type(), fa.Field) != field {
				return
			}
			for _, r := range refsOf(fa) {
				if st, ok := r.(*ssa.Store); ok && st.Addr == ssa.Value(fa) {
					out = append(out, fieldStore{f, st, fa})
				}
			}
		})
	}
	return out
}

func constValue(P *Program, spec string) (int64, bool) {
	pkgRel, name := splitSpec(spec)
	pk := P.ByPath[modPath+"/"+pkgRel]
	if pk == nil {
		return 0, false
	}
	c, ok := pk.Types.Scope().Lookup(name).(*types.Const)
	if !ok {
		return 0, false
	}
	return constant.Int64Val(c.Val())
}

// ---------------------------------------------------------------------------------------------
// pool ownership (E6)

type pooledType struct {
	named    *types.Named
	putSites []ssa.CallInstruction
	retained map[string]string // field -> reason
	dropped  map[string]string
}

func isRefType(t types.Type) bool {
	switch t.Underlying().(type) {
	case *types.Slice, *types.Map, *types.Pointer, *types.Chan, *types.Signature, *types.Interface:
		return true
	}
	return false
}

// findPooledTypes: types whose pointers are handed to (*sync.Pool).Put in module code.
func findPooledTypes(P *Program) []*pooledType {
	byT := map[*types.Named]*pooledType{}
	for _, f := range P.ModuleFuncs() {
		if isTestOrExample(f) {
			continue
		}
		for _, ci := range callsIn(f) {
			if !isExtCall(ci, "sync.(Pool).Put") {
				continue
			}
			arg := stripConv(ci.Common().Args[1])
			n := namedOf(arg.Type())
			if n == nil {
				continue
			}
			pt := byT[n]
			if pt == nil {
				pt = &pooledType{named: n, retained: map[string]string{}, dropped: map[string]string{}}
				byT[n] = pt
			}
			pt.putSites = append(pt.putSites, ci)
		}
	}
	var out []*pooledType
	for _, pt := range byT {
		classifyPooledFields(P, pt, 0)
		out = append(out, pt)
	}
	sort.Slice(out, func(i, j int) bool { return out[i].named.String() < out[j].named.String() })
	return out
}

// wholeObjectStore: the reset method assigns the whole object (`*o = T{...}`): go/ssa either zeroes *o and then stores
// the named fields in place, or builds the literal in a temporary and copies it. It returns whether such an unconditional
// assignment exists and the temporary (nil when built in place / zero value).
func wholeObjectStore(reset *ssa.Function) (bool, ssa.Value) {
	if reset == nil || len(reset.Params) == 0 {
		return false, nil
	}
	found := false
	var lit ssa.Value
	eachInstr(reset, func(ins ssa.Instruction) {
		s, ok := ins.(*ssa.Store)
		if !ok || resolve(s.Addr) != ssa.Value(reset.Params[0]) || len(condFacts(s.Block())) != 0 {
			return
		}
		if _, isPtr := s.Addr.Type().(*types.Pointer); !isPtr {
			return
		}
		found = true
		if ld, ok := s.Val.(*ssa.UnOp); ok && ld.Op == token.MUL {
			if al, ok := ld.X.(*ssa.Alloc); ok {
				lit = al
			}
		}
	})
	return found, lit
}

// wholeObjectSource: the value of a whole-object assignment in a reset method when it is neither the zero value nor a
// literal built on the spot: a package-level template or some other long-lived object.
func wholeObjectSource(reset *ssa.Function) ssa.Value {
	var src ssa.Value
	eachInstr(reset, func(ins ssa.Instruction) {
		s, ok := ins.(*ssa.Store)
		if !ok || len(reset.Params) == 0 || resolve(s.Addr) != ssa.Value(reset.Params[0]) {
			return
		}
		if k, isK := s.Val.(*ssa.Const); isK && k.Value == nil {
			return
		}
		if ld, ok := s.Val.(*ssa.UnOp); ok && ld.Op == token.MUL {
			if _, isLit := ld.X.(*ssa.Alloc); isLit {
				return
			}
			src = ld.X
			return
		}
		src = s.Val
	})
	return src
}

// classifyPooledFields decides, for every reference-typed field of the pooled struct, whether the storage it
// refers to survives the reset method (retained) or is dropped (set to nil / re-made unconditionally).
func classifyPooledFields(P *Program, pt *pooledType, depth int) {
	st, ok := pt.named.Underlying().(*types.Struct)
	if !ok {
		return
	}
	// reset method: Reset / reset declared on *T
	var reset *ssa.Function
	for _, nm := range []string{"Reset", "reset"} {
		sel := P.Prog.MethodSets.MethodSet(types.NewPointer(pt.named)).Lookup(pt.named.Obj().Pkg(), nm)
		if sel != nil {
			reset = P.Prog.MethodValue(sel)
			break
		}
	}
	for i := 0; i < st.NumFields(); i++ {
		fld := st.Field(i)
		if !isRefType(fld.Type()) {
			continue
		}
		if reset == nil {
			pt.retained[fld.Name()] = "no reset method"
			continue
		}
		var stores []*ssa.Store
		eachInstr(reset, func(ins ssa.Instruction) {
			if s, ok := ins.(*ssa.Store); ok {
				if fa, ok := s.Addr.(*ssa.FieldAddr); ok && namedOf(fa.X.Type()) == pt.named && fieldName(fa.X.Type(), fa.Field) == fld.Name() {
					stores = append(stores, s)
				}
			}
		})
		if len(stores) == 0 {
			if whole, _ := wholeObjectStore(reset); whole {
				pt.dropped[fld.Name()] = "zeroed by the whole-object assignment in " + reset.Name()
				continue
			}
			pt.retained[fld.Name()] = "never reassigned by " + reset.Name() + " (reset in place or kept)"
			continue
		}
		allDrop := true
		why := ""
		for _, s := range stores {
			// unconditional?
			uncond := len(condFacts(s.Block())) == 0
			switch v := s.Val.(type) {
			case *ssa.Const:
				if v.Value == nil && uncond {
					why = "set to nil"
					continue
				}
			case *ssa.Slice:
				// x = x[:0] keeps the backing array
				allDrop = false
				why = "truncated with [:0]: backing array kept"
				continue
			case *ssa.MakeMap, *ssa.MakeSlice, *ssa.Alloc, *ssa.Call:
				if uncond {
					why = "replaced by a fresh value"
					continue
				}
				allDrop = false
				why = "replaced only conditionally"
				continue
			}
			allDrop = false
			if why == "" {
				why = "reassigned from " + accessPath(s.Val)
			}
		}
		if allDrop {
			pt.dropped[fld.Name()] = why
		} else {
			pt.retained[fld.Name()] = why
		}
	}
}

func init() {
	register(&Rule{
		ID: "pool-ownership", Props: []string{"C01", "C06", "C16"}, Floor: 4,
		Doc: "storage that stays with a pooled object across sync.Pool.Put (a reference field its reset method truncates or keeps rather than drops) is never stored into a field of another object: the other object would observe the next user's data after the pooled object is recycled. Reading elements or copying (append(dst, src...)) is allowed",
		Run: func(c *Ctx) {
			pts := findPooledTypes(c.P)
			retainedOf := map[*types.Named]*pooledType{}
			for _, pt := range pts {
				retainedOf[pt.named] = pt
				var r, d []string
				for k, v := range pt.retained {
					r = append(r, k+" ("+v+")")
				}
				for k, v := range pt.dropped {
					d = append(d, k+" ("+v+")")
				}
				sort.Strings(r)
				sort.Strings(d)
				c.Hold(relPkg(pt.named.Obj().Pkg().Path())+"."+pt.named.Obj().Name()+" / pooled-type", pt.putSites[0].Pos(), "pooled at %d Put site(s); retained reference fields: %v; dropped on reset: %v", len(pt.putSites), r, d)
			}
			// transitively pooled: a retained pointer field to another struct makes that struct part of the pooled storage
			for _, pt := range pts {
				st := pt.named.Underlying().(*types.Struct)
				for i := 0; i < st.NumFields(); i++ {
					f := st.Field(i)
					if _, kept := pt.retained[f.Name()]; !kept {
						continue
					}
					if n := namedOf(f.Type()); n != nil && retainedOf[n] == nil {
						if _, isStruct := n.Underlying().(*types.Struct); isStruct && n.Obj().Pkg() != nil && inModule(n.Obj().Pkg().Path()) {
							inner := &pooledType{named: n, retained: map[string]string{}, dropped: map[string]string{}, putSites: pt.putSites}
							classifyPooledFields(c.P, inner, 1)
							retainedOf[n] = inner
							var r []string
							for k, v := range inner.retained {
								r = append(r, k+" ("+v+")")
							}
							sort.Strings(r)
							c.Hold(relPkg(n.Obj().Pkg().Path())+"."+n.Obj().Name()+" / pooled-type(nested)", f.Pos(), "kept by pooled %s.%s; retained reference fields: %v", pt.named.Obj().Name(), f.Name(), r)
						}
					}
				}
			}
			// scan all stores of a value loaded from a retained field into a field of another object
			n := 0
			for _, f := range c.P.ModuleFuncs() {
				if isTestOrExample(f) {
					continue
				}
				ord := 0
				eachInstr(f, func(ins ssa.Instruction) {
					s, ok := ins.(*ssa.Store)
					if !ok {
						return
					}
					dst, ok := s.Addr.(*ssa.FieldAddr)
					if !ok {
						return
					}
					ld, ok := s.Val.(*ssa.UnOp)
					if !ok || ld.Op != token.MUL {
						return
					}
					src, ok := ld.X.(*ssa.FieldAddr)
					if !ok {
						return
					}
					pt := retainedOf[namedOf(src.X.Type())]
					if pt == nil {
						return
					}
					fname := fieldName(src.X.Type(), src.Field)
					why, kept := pt.retained[fname]
					if !kept {
						return
					}
					n++
					if dst.X == src.X && dst.Field == src.Field {
						return // self assignment
					}
					// reset methods of the pooled type itself may shuffle their own storage
					if recv := f.Signature.Recv(); recv != nil && namedOf(recv.Type()) == pt.named {
						return
					}
					ord++
					do, df := fieldOf(dst)
					key := fmt.Sprintf("%s / %s.%s <- %s.%s#%d", fnKey(f), do, df, pt.named.Obj().Name(), fname, ord)
					c.Violate(key, s.Pos(), "%s.%s (%s) is storage owned by the pooled %s; storing it into %s.%s aliases pool-owned memory: after the owner is Put back and reused by another Entry, this object sees the other entry's data", pt.named.Obj().Name(), fname, why, pt.named.Obj().Name(), do, df)
				})
			}
			c.Stat("stores_from_retained_fields_examined", n)
		},
	})

	register(&Rule{
		ID: "entry.exit-on-block", Props: []string{"C01", "C16"}, Floor: 3,
		Doc: "in api.entry every return of (nil, blockError) is dominated by exactly one Exit call on the entry created there and the returned block error is computed before that Exit (the context is recycled by Exit); no return of the entry itself is reachable from an Exit call (a passed entry is left to the caller)",
		Run: func(c *Ctx) {
			f := c.P.Func("api.entry")
			exit := c.P.Func("core/base.(*SentinelEntry).Exit")
			newE := c.P.Func("core/base.NewSentinelEntry")
			if f == nil || exit == nil || newE == nil {
				c.AnchorLost("api.entry / SentinelEntry.Exit / NewSentinelEntry")
				return
			}
			var exits []ssa.CallInstruction
			for _, ci := range callsIn(f) {
				if isStaticCallTo(ci, exit) {
					exits = append(exits, ci)
				}
			}
			for i, r := range returnsOf(f) {
				if len(r.Results) != 2 {
					continue
				}
				key := fmt.Sprintf("%s / return#%d", fnKey(f), i+1)
				blocked := isNilConst(r.Results[0]) && !isNilConst(r.Results[1])
				if blocked {
					var dom []ssa.CallInstruction
					for _, e := range exits {
						if instrDominates(e.(ssa.Instruction), r) {
							dom = append(dom, e)
						}
					}
					if len(dom) != 1 {
						c.Violate(key, r.Pos(), "blocked outcome is returned with %d internal Exit calls on the path (want exactly 1): the blocked entry's context is %s", len(dom), map[bool]string{true: "never recycled and its exit handlers (breaker probe rollback) never run", false: "exited more than once"}[len(dom) == 0])
						continue
					}
					recv := dom[0].Common().Args[0]
					rc, isCall := recv.(*ssa.Call)
					if !isCall || !isStaticCallTo(rc, newE) {
						c.Violate(key, r.Pos(), "the Exit on the blocked path is not on the entry created by this call (%s)", accessPath(recv))
						continue
					}
					// block error computed before Exit
					if def, ok := r.Results[1].(ssa.Instruction); ok {
						if !instrDominates(def, dom[0].(ssa.Instruction)) {
							c.Violate(key, r.Pos(), "the block error handed to the caller is read after Exit recycled the context: it may already describe another entry")
							continue
						}
					}
					c.Hold(key, r.Pos(), "blocked: block error taken, then exactly one Exit on the new entry, then return (nil, err)")
				} else if !isNilConst(r.Results[0]) {
					bad := false
					for _, e := range exits {
						if instrReaches(e.(ssa.Instruction), r) {
							bad = true
						}
					}
					c.Check(!bad, key, r.Pos(), "a passed entry must be returned un-exited (the caller owns the single Exit)")
				}
			}
		},
	})

	register(&Rule{
		ID: "entry.exit-once", Props: []string{"C01", "C06", "C04"}, Floor: 2,
		Doc: "in SentinelEntry.Exit everything that touches the context (calls receiving it, stores through it) or reaches slots / handlers / the pool lies inside the function literal passed to Do of the entry's sync.Once: a second or late Exit must not affect any context, which may already belong to another entry",
		Run: func(c *Ctx) {
			f := c.P.Func("core/base.(*SentinelEntry).Exit")
			if f == nil {
				c.AnchorLost("SentinelEntry.Exit")
				return
			}
			// the Once.Do call and its closure
			var doCall ssa.CallInstruction
			for _, ci := range callsIn(f) {
				if isExtCall(ci, "sync.(Once).Do") {
					if fa, ok := ci.Common().Args[0].(*ssa.FieldAddr); ok && resolve(fa.X) == ssa.Value(f.Params[0]) {
						doCall = ci
					}
				}
			}
			if doCall == nil {
				c.Violate(fnKey(f)+" / once", f.Pos(), "Exit no longer funnels its effects through a sync.Once field of the entry: a repeated Exit completes the entry twice")
				return
			}
			c.Hold(fnKey(f)+" / once", doCall.Pos(), "effects run inside e.<once>.Do(closure)")
			// context-derived values in the outer body
			isCtx := func(v ssa.Value) bool {
				v = resolve(v)
				if u, ok := v.(*ssa.UnOp); ok && u.Op == token.MUL {
					if fa, ok := u.X.(*ssa.FieldAddr); ok && resolve(fa.X) == ssa.Value(f.Params[0]) && typeIs(u.Type(), "core/base", "EntryContext") {
						return true
					}
				}
				return false
			}
			n := 0
			for _, b := range f.Blocks {
				for _, ins := range b.Instrs {
					switch x := ins.(type) {
					case ssa.CallInstruction:
						if x == doCall {
							continue
						}
						for _, a := range x.Common().Args {
							if isCtx(a) {
								n++
								c.Violate(fmt.Sprintf("%s / outside-once#%d", fnKey(f), n), x.Pos(), "%s is called on the entry's context outside the sync.Once: a late or repeated Exit writes into a context that has been recycled and may belong to another entry", calleeDesc(x))
							}
						}
						if x.Common().IsInvoke() && isCtx(x.Common().Value) {
							n++
							c.Violate(fmt.Sprintf("%s / outside-once#%d", fnKey(f), n), x.Pos(), "context method invoked outside the sync.Once")
						}
						if cal := x.Common().StaticCallee(); cal != nil && inModule(fnPkgPath(cal)) && cal.Signature.Recv() != nil && namedOf(cal.Signature.Recv().Type()) != nil {
							rn := namedOf(cal.Signature.Recv().Type()).Obj().Name()
							if rn == "SlotChain" {
								n++
								c.Violate(fmt.Sprintf("%s / outside-once#%d", fnKey(f), n), x.Pos(), "slot chain method %s called outside the sync.Once", cal.Name())
							}
						}
					case *ssa.Store:
						if fa, ok := x.Addr.(*ssa.FieldAddr); ok && isCtx(fa.X) {
							n++
							c.Violate(fmt.Sprintf("%s / outside-once#%d", fnKey(f), n), x.Pos(), "store to a context field outside the sync.Once")
						}
					}
				}
			}
			// closures of Exit that are not (nested in) the function literal handed to Do run on every call of Exit
			var doFn *ssa.Function
			if len(doCall.Common().Args) > 1 {
				if mc, ok := resolve(doCall.Common().Args[1]).(*ssa.MakeClosure); ok {
					doFn, _ = mc.Fn.(*ssa.Function)
				} else if fn, ok := resolve(doCall.Common().Args[1]).(*ssa.Function); ok {
					doFn = fn
				}
			}
			inDo := map[*ssa.Function]bool{}
			if doFn != nil {
				for _, g := range withAnon(doFn) {
					inDo[g] = true
				}
			}
			for _, g := range withAnon(f) {
				if g == f || inDo[g] {
					continue
				}
				eachInstr(g, func(ins ssa.Instruction) {
					switch x := ins.(type) {
					case ssa.CallInstruction:
						touches := false
						for _, a := range x.Common().Args {
							if typeIs(a.Type(), "core/base", "EntryContext") {
								touches = true
							}
						}
						if x.Common().IsInvoke() && typeIs(x.Common().Value.Type(), "core/base", "EntryContext") {
							touches = true
						}
						if cal := x.Common().StaticCallee(); cal != nil && cal.Signature.Recv() != nil && typeIs(cal.Signature.Recv().Type(), "core/base", "SlotChain") {
							touches = true
						}
						if touches {
							n++
							c.Violate(fmt.Sprintf("%s / outside-once#%d", fnKey(f), n), x.Pos(), "%s is called on the context / slot chain in a closure of Exit that is not inside the sync.Once (it runs on every Exit call): a late or repeated Exit resets or re-pools a context that may belong to another entry", calleeDesc(x))
						}
					case *ssa.Store:
						if fa, ok := x.Addr.(*ssa.FieldAddr); ok && typeIs(fa.X.Type(), "core/base", "EntryContext") {
							n++
							c.Violate(fmt.Sprintf("%s / outside-once#%d", fnKey(f), n), x.Pos(), "store to a context field in a closure outside the sync.Once")
						}
					}
				})
			}
			if n == 0 {
				c.Hold(fnKey(f)+" / outside-once", f.Pos(), "outside the Once only locals are read and written")
			}
		},
	})

	register(&Rule{
		ID: "entry.no-use-after-recycle", Props: []string{"C01"}, Floor: 1,
		Doc: "within SentinelEntry.Exit's closures nothing uses the context after RefurbishContext handed it back to the pool, and the recycling call sits in the deferred function of the Once closure (so it runs last, also when a handler panics)",
		Run: func(c *Ctx) {
			f := c.P.Func("core/base.(*SentinelEntry).Exit")
			ref := c.P.Func("core/base.(*SlotChain).RefurbishContext")
			if f == nil || ref == nil {
				c.AnchorLost("Exit/RefurbishContext")
				return
			}
			found := 0
			// the closures of Exit, plus named functions of the package that they defer (`defer e.recoverAndRecycle(ctx)`)
			scope := withNewHelpers(withAnon(f))
			deferredNamed := map[*ssa.Function]bool{}
			for _, g := range append([]*ssa.Function{}, scope...) {
				eachInstr(g, func(ins ssa.Instruction) {
					if d, ok := ins.(*ssa.Defer); ok {
						if cal := d.Call.StaticCallee(); cal != nil && cal.Parent() == nil && relPkg(fnPkgPath(cal)) == "core/base" && !deferredNamed[cal] {
							deferredNamed[cal] = true
							scope = append(scope, cal)
						}
					}
				})
			}
			for _, g := range scope {
				for _, ci := range callsIn(g) {
					if !isStaticCallTo(ci, ref) {
						continue
					}
					found++
					key := fmt.Sprintf("%s / RefurbishContext#%d", fnKey(g), found)
					ctxv := ci.Common().Args[1]
					bad := ""
					for _, b := range g.Blocks {
						for _, ins := range b.Instrs {
							if ins == ci.(ssa.Instruction) || !instrReaches(ci.(ssa.Instruction), ins) {
								continue
							}
							for _, op := range ins.Operands(nil) {
								if *op != nil && typeIs((*op).Type(), "core/base", "EntryContext") && accessPath(*op) == accessPath(ctxv) {
									bad = c.P.Pos(instrPos(ins))
								}
							}
						}
					}
					// must be in a deferred closure of the Once closure
					deferred := deferredNamed[g]
					if par := g.Parent(); par != nil {
						eachInstr(par, func(ins ssa.Instruction) {
							if d, ok := ins.(*ssa.Defer); ok {
								if mc, ok := d.Call.Value.(*ssa.MakeClosure); ok && mc.Fn == g {
									deferred = true
								}
							}
						})
					}
					switch {
					case bad != "":
						c.Violate(key, ci.Pos(), "the context is used at %s after it was returned to the pool", bad)
					case !deferred:
						c.Violate(key, ci.Pos(), "the context is recycled outside a deferred function: statements after it (completion callbacks, exit handlers) or a panic path use or leak it")
					default:
						c.Hold(key, ci.Pos(), "recycled last, in the deferred function")
					}
				}
			}
			if found == 0 {
				c.Violate(fnKey(f)+" / RefurbishContext", f.Pos(), "Exit never returns the context to the pool")
			}
		},
	})

	// -------------------------------------------------------------------------------- slot chain

	register(&Rule{
		ID: "chain.complete-implies-pass", Props: []string{"C01", "C16", "C04", "C06"}, Floor: 1,
		Doc: "SlotChain.exit reaches StatSlot.OnCompleted only under a condition on an EntryContext field M such that (i) a fresh / Reset context does not satisfy it and (ii) M is given the satisfying value only in SlotChain.Entry, implied by 'not blocked', with no call (no panic edge) between that store and the first OnEntryPassed: completion callbacks (which decrement the gauge) run only for entries whose pass callbacks ran, also when a prepare or rule slot panics and the request is passed",
		Run: func(c *Ctx) {
			exit := c.P.Func("core/base.(*SlotChain).exit")
			entry := c.P.Func("core/base.(*SlotChain).Entry")
			reset := c.P.Func("core/base.(*EntryContext).Reset")
			ectx := c.P.Named("core/base.EntryContext")
			if exit == nil || entry == nil || reset == nil || ectx == nil {
				c.AnchorLost("SlotChain.exit/Entry, EntryContext.Reset")
				return
			}
			var inv ssa.CallInstruction
			for _, ci := range callsIn(exit) {
				if isInvokeOf(ci, "StatSlot", "OnCompleted") {
					inv = ci
				}
			}
			if inv == nil {
				c.AnchorLost("OnCompleted invoke in SlotChain.exit")
				return
			}
			key := fnKey(exit) + " / OnCompleted / pass-marker"
			// candidate markers: facts that are a load of ctx.M (possibly through a getter returning the field)
			type cand struct {
				field string
				want  bool
			}
			var cands []cand
			fieldOfLoad := func(v ssa.Value) (string, bool) {
				if u, ok := v.(*ssa.UnOp); ok && u.Op == token.MUL {
					if fa, ok := u.X.(*ssa.FieldAddr); ok && namedOf(fa.X.Type()) == ectx {
						return fieldName(fa.X.Type(), fa.Field), true
					}
				}
				return "", false
			}
			for _, ft := range factsAt(inv.(ssa.Instruction)) {
				if fn, ok := fieldOfLoad(ft.Cond); ok {
					cands = append(cands, cand{fn, ft.Truth})
					continue
				}
				if call, ok := ft.Cond.(*ssa.Call); ok {
					if cal := call.Call.StaticCallee(); cal != nil && cal.Signature.Recv() != nil && namedOf(cal.Signature.Recv().Type()) == ectx {
						rs := returnsOf(cal)
						if len(rs) == 1 && len(rs[0].Results) == 1 {
							if fn, ok := fieldOfLoad(rs[0].Results[0]); ok {
								cands = append(cands, cand{fn, ft.Truth})
							}
						}
					}
				}
			}
			var reasons []string
			okAny := false
			for _, cd := range cands {
				// bool marker only
				// (i) Reset stores the non-satisfying constant
				resetOK := false
				for _, s := range fieldStores(c.P, ectx, cd.field) {
					if s.fn == reset {
						if cv, ok := s.st.Val.(*ssa.Const); ok && cv.Value != nil && cv.Value.Kind() == constant.Bool && constant.BoolVal(cv.Value) != cd.want {
							resetOK = true
						}
					}
				}
				// `*ctx = EntryContext{...}` zeroes every field the literal does not name: the marker becomes false
				if !resetOK && cd.want {
					if whole, _ := wholeObjectStore(reset); whole && wholeObjectSource(reset) == nil {
						named := false
						for _, s := range fieldStores(c.P, ectx, cd.field) {
							if s.fn == reset {
								named = true
							}
						}
						if !named {
							resetOK = true
						}
					}
				}
				if !resetOK {
					reasons = append(reasons, fmt.Sprintf("field %s: EntryContext.Reset does not store %v", cd.field, !cd.want))
					continue
				}
				// (ii) all other stores
				good := true
				nStores := 0
				for _, s := range fieldStores(c.P, ectx, cd.field) {
					if s.fn == reset {
						continue
					}
					if cv, ok := s.st.Val.(*ssa.Const); ok && cv.Value != nil && cv.Value.Kind() == constant.Bool && constant.BoolVal(cv.Value) != cd.want {
						continue // storing the non-satisfying value is always fine
					}
					nStores++
					if s.fn != entry {
						good = false
						reasons = append(reasons, fmt.Sprintf("field %s is set in %s, outside SlotChain.Entry", cd.field, fnKey(s.fn)))
						continue
					}
					// implied by not-blocked
					implied := false
					if cd.want {
						v, t := stripNot(s.st.Val, true)
						if call, ok := v.(*ssa.Call); ok && !t && isBlockedCall(call) {
							implied = true // M = !r.IsBlocked()
						}
					}
					if cv, ok := s.st.Val.(*ssa.Const); ok && cv.Value != nil {
						for _, ft := range factsAt(s.st) {
							if call, ok := ft.Cond.(*ssa.Call); ok && !ft.Truth && isBlockedCall(call) {
								implied = true
							}
						}
					}
					if !implied {
						good = false
						reasons = append(reasons, fmt.Sprintf("field %s is set at %s without being implied by 'not blocked'", cd.field, c.P.Pos(s.st.Pos())))
						continue
					}
					// the marker is set before the pass callbacks run: a callback that panics after the built-in statistic
					// slot has counted the pass must not leave the marker unset (Exit would skip the completion)
					before := false
					for _, ci := range callsIn(entry) {
						if isInvokeOf(ci, "StatSlot", "OnEntryPassed") && instrDominates(s.st, ci.(ssa.Instruction)) {
							before = true
						}
					}
					if !before {
						good = false
						reasons = append(reasons, fmt.Sprintf("field %s is set at %s, which does not precede the OnEntryPassed callbacks: a callback panicking after the gauge was incremented leaves the marker unset and the completion is skipped", cd.field, c.P.Pos(s.st.Pos())))
						continue
					}
					// no call between the store and the first OnEntryPassed invoke
					mc, mt := stripNot(s.st.Val, cd.want)
					if at := callBetween(s.st, func(x ssa.Instruction) bool {
						ci, ok := x.(ssa.CallInstruction)
						return ok && isInvokeOf(ci, "StatSlot", "OnEntryPassed")
					}, func(b *ssa.BasicBlock) bool {
						// paths on which the marker's value is known to be the non-satisfying one are irrelevant
						for _, ft := range condFacts(b) {
							if ft.Cond == mc && ft.Truth != mt {
								return true
							}
						}
						return false
					}); at != nil {
						good = false
						reasons = append(reasons, fmt.Sprintf("between the store of %s and the first OnEntryPassed there is a call at %s: if it panics the request passes with the marker set but no pass callback ran", cd.field, c.P.Pos(instrPos(at))))
					}
				}
				if good && nStores > 0 {
					okAny = true
					c.Hold(key, inv.Pos(), "completion guarded by EntryContext.%s==%v; Reset stores %v; set only in SlotChain.Entry, implied by not-blocked, immediately before the pass callbacks", cd.field, cd.want, !cd.want)
				} else if good {
					reasons = append(reasons, fmt.Sprintf("field %s is never given the value %v", cd.field, cd.want))
				}
			}
			if !okAny {
				if len(cands) == 0 {
					reasons = append(reasons, "the only conditions are on the rule-check status, which a fresh or Reset context satisfies")
				}
				c.Violate(key, inv.Pos(), "OnCompleted is not guarded by a marker that is set only when the pass callbacks ran (%s): when a prepare / rule slot panics, Entry recovers and passes the request without OnEntryPassed, yet Exit still runs OnCompleted -> concurrency gauge -1, complete +1 with pass 0", strings.Join(reasons, "; "))
			}
		},
	})

	register(&Rule{
		ID: "chain.blocked-no-complete", Props: []string{"C01", "C16"}, Floor: 1,
		Doc: "in SlotChain.exit the OnCompleted invoke is control dependent on the rule-check status being not blocked (blocked entries contribute no completion)",
		Run: func(c *Ctx) {
			exit := c.P.Func("core/base.(*SlotChain).exit")
			if exit == nil {
				c.AnchorLost("SlotChain.exit")
				return
			}
			n := 0
			for _, ci := range callsIn(exit) {
				if !isInvokeOf(ci, "StatSlot", "OnCompleted") {
					continue
				}
				n++
				ok := false
				for _, ft := range factsAt(ci.(ssa.Instruction)) {
					if call, ok2 := ft.Cond.(*ssa.Call); ok2 && !ft.Truth && isBlockedCall(call) {
						ok = true
					}
				}
				c.Check(ok, fmt.Sprintf("%s / OnCompleted#%d / not-blocked", fnKey(exit), n), ci.Pos(), "completion callbacks must be skipped for a blocked entry (dominating IsBlocked()==false)")
			}
			if n == 0 {
				c.Violate(fnKey(exit)+" / OnCompleted", exit.Pos(), "SlotChain.exit never notifies completion")
			}
		},
	})

	register(&Rule{
		ID: "chain.outcome-notified", Props: []string{"C01"}, Floor: 1,
		Doc: "every way out of SlotChain.Entry notifies the statistic slots of the outcome: the normal path runs the stat loop; the recover path (a slot panicked, the request is passed) must notify the pass as well",
		Run: func(c *Ctx) {
			entry := c.P.Func("core/base.(*SlotChain).Entry")
			if entry == nil {
				c.AnchorLost("SlotChain.Entry")
				return
			}
			// normal returns: dominated by the stat loop header (the loop is entered on every path): there must be
			// OnEntryPassed and OnEntryBlocked invokes and every Return must be reachable only after the loop's range setup
			var passInv, blockInv ssa.Instruction
			for _, ci := range callsIn(entry) {
				if isInvokeOf(ci, "StatSlot", "OnEntryPassed") {
					passInv = ci.(ssa.Instruction)
				}
				if isInvokeOf(ci, "StatSlot", "OnEntryBlocked") {
					blockInv = ci.(ssa.Instruction)
				}
			}
			c.Check(passInv != nil && blockInv != nil, fnKey(entry)+" / stat-loop", entry.Pos(), "the stat loop notifies pass and block outcomes")
			// recover path
			for _, g := range entry.AnonFuncs {
				if !callsRecover(g) {
					continue
				}
				notifies := false
				for _, ci := range callsIn(g) {
					if isInvokeOf(ci, "StatSlot", "OnEntryPassed") {
						notifies = true
					}
				}
				c.Check(notifies, fnKey(entry)+" / recover-path / pass-notification", g.Pos(), "when a prepare or rule slot panics, Entry recovers and the request passes, but no statistic slot is told: its tokens are counted neither as pass nor as block (pass+block != requested)")
			}
		},
	})

	// -------------------------------------------------------------------------------- statistic slot effects

	register(&Rule{
		ID: "stat.effects", Props: []string{"C01", "C04", "C07", "C03"}, Floor: 6,
		Doc: "effect signature of stat.Slot over its StatNode receivers (helpers inlined with parameter binding): OnEntryPassed = Inc + Add(Pass, batch) once on ctx.StatNode and, exactly under FlowType()==Inbound, on InboundNode(); OnEntryBlocked = Add(Block, batch) and no gauge change; OnCompleted = Add(Rt, rt) + Add(Complete, batch) + Dec once on the same nodes under the same guards, plus Add(Error, batch) exactly under err != nil with err = ctx.Err(); nothing in a loop",
		Run: func(c *Ctx) {
			slot := c.P.Named("core/stat.Slot")
			if slot == nil {
				c.AnchorLost("stat.Slot")
				return
			}
			inbound, _ := constValue(c.P, "core/base.Inbound")
			inboundGuard := fmt.Sprintf("%d == {EntryContext}.Resource.FlowType()", inbound)
			type sig struct {
				nodes map[string][]effect
			}
			get := func(name string) (*ssa.Function, map[string][]effect) {
				f := c.P.Func("core/stat.(*Slot)." + name)
				if f == nil {
					c.AnchorLost("stat.Slot." + name)
					return nil, nil
				}
				var effs []effect
				collectEffects(c.P, f, nil, nil, 3, &effs)
				m := map[string][]effect{}
				for _, e := range effs {
					m[e.recv] = append(m[e.recv], e)
				}
				return f, m
			}
			checkNode := func(f *ssa.Function, what string, node string, effs []effect, want []string, nodeGuard string) {
				key := fmt.Sprintf("%s / effects on %s", fnKey(f), node)
				var got []string
				bad := ""
				for _, e := range effs {
					s := e.method
					if len(e.args) > 0 {
						s += "(" + strings.Join(e.args, ",") + ")"
					}
					// guards other than the nil test on the node itself
					var gs []string
					for _, g := range e.guards {
						if g == "nil != "+node || g == node+" != nil" {
							continue
						}
						gs = append(gs, g)
					}
					sort.Strings(gs)
					if len(gs) > 0 {
						s += " if " + strings.Join(gs, " && ")
					}
					if e.inLoop {
						bad = "effect " + s + " inside a loop"
					}
					got = append(got, s)
				}
				sort.Strings(got)
				var w []string
				for _, x := range want {
					if nodeGuard != "" {
						if strings.Contains(x, " if ") {
							// merge guards in sorted order
							parts := strings.SplitN(x, " if ", 2)
							gs := []string{nodeGuard, parts[1]}
							sort.Strings(gs)
							x = parts[0] + " if " + strings.Join(gs, " && ")
						} else {
							x += " if " + nodeGuard
						}
					}
					w = append(w, x)
				}
				sort.Strings(w)
				if bad == "" && strings.Join(got, " ; ") != strings.Join(w, " ; ") {
					bad = fmt.Sprintf("%s performs [%s] on %s, want [%s]", what, strings.Join(got, " ; "), node, strings.Join(w, " ; "))
				}
				if bad != "" {
					c.Violate(key, f.Pos(), "%s", bad)
				} else {
					c.Hold(key, f.Pos(), "%s performs exactly [%s]", what, strings.Join(got, " ; "))
				}
			}
			batch := "int64({EntryContext}.Input.BatchCount)"
			nodes := []struct{ path, guard string }{{"{EntryContext}.StatNode", ""}, {"core/stat.InboundNode()", inboundGuard}}
			if f, m := get("OnEntryPassed"); f != nil {
				for _, nd := range nodes {
					checkNode(f, "OnEntryPassed", nd.path, m[nd.path], []string{"IncreaseConcurrency", "AddCount(MetricEventPass," + batch + ")"}, nd.guard)
					delete(m, nd.path)
				}
				for k := range m {
					c.Violate(fnKey(f)+" / effects on "+k, f.Pos(), "statistics recorded on an unexpected node %s", k)
				}
			}
			if f, m := get("OnEntryBlocked"); f != nil {
				for _, nd := range nodes {
					checkNode(f, "OnEntryBlocked", nd.path, m[nd.path], []string{"AddCount(MetricEventBlock," + batch + ")"}, nd.guard)
					delete(m, nd.path)
				}
				for k := range m {
					c.Violate(fnKey(f)+" / effects on "+k, f.Pos(), "statistics recorded on an unexpected node %s", k)
				}
			}
			if f, m := get("OnCompleted"); f != nil {
				rt := "int64((util.CurrentTimeMillis() - {EntryContext}.StartTime()))"
				for _, nd := range nodes {
					checkNode(f, "OnCompleted", nd.path, m[nd.path], []string{
						"AddCount(MetricEventRt," + rt + ")",
						"AddCount(MetricEventComplete," + batch + ")",
						"AddCount(MetricEventError," + batch + ") if nil != {EntryContext}.Err()",
						"DecreaseConcurrency"}, nd.guard)
					delete(m, nd.path)
				}
				for k := range m {
					c.Violate(fnKey(f)+" / effects on "+k, f.Pos(), "statistics recorded on an unexpected node %s", k)
				}
			}
		},
	})

	register(&Rule{
		ID: "stat.gauge-writers", Props: []string{"C01", "C04"}, Floor: 2,
		Doc: "IncreaseConcurrency / DecreaseConcurrency are invoked only from methods of stat.Slot (pass and completion callbacks); the gauge changes by the constants +1 / -1",
		Run: func(c *Ctx) {
			slot := c.P.Named("core/stat.Slot")
			n := 0
			for _, f := range c.P.ModuleFuncs() {
				if isTestOrExample(f) {
					continue
				}
				for _, ci := range callsIn(f) {
					cc := ci.Common()
					name := ""
					if cc.IsInvoke() {
						name = cc.Method.Name()
					} else if cal := cc.StaticCallee(); cal != nil && inModule(fnPkgPath(cal)) && cal.Signature.Recv() != nil {
						name = cal.Name()
					}
					if name != "IncreaseConcurrency" && name != "DecreaseConcurrency" {
						continue
					}
					n++
					recv := f.Signature.Recv()
					ok := recv != nil && namedOf(recv.Type()) == slot
					c.Check(ok, fmt.Sprintf("%s / %s#%d", fnKey(f), name, n), ci.Pos(), "the in-flight gauge may be moved only by the statistic slot's pass / completion callbacks")
				}
			}
			for _, nm := range []string{"IncreaseConcurrency", "DecreaseConcurrency"} {
				f := c.P.Func("core/stat.(*BaseStatNode)." + nm)
				if f == nil {
					c.AnchorLost(nm)
					continue
				}
				want := int64(1)
				if nm == "DecreaseConcurrency" {
					want = -1
				}
				found := false
				for _, ci := range callsIn(f) {
					if an, ok := atomicFuncName(ci); ok && strings.HasPrefix(an, "Add") {
						d, okd := constInt(ci.Common().Args[1])
						found = true
						c.Check(okd && d == want, fnKey(f)+" / delta", ci.Pos(), "gauge delta %s (want %d)", accessPath(ci.Common().Args[1]), want)
					}
				}
				if !found {
					c.Violate(fnKey(f)+" / delta", f.Pos(), "no atomic add on the gauge")
				}
			}
		},
	})

	register(&Rule{
		ID: "pool.reset-clears-references", Props: []string{"C16", "C01", "C06", "C02"}, Floor: 20,
		Doc: "when a context is recycled (EntryContext.Reset and the reset methods it calls on the pooled SentinelInput and TokenResult) and when the pooled api.EntryOptions object is recycled (EntryOptions.Reset) every field of these structs that can carry state of the previous entry is written: each field is stored in the type's reset method, or is a pooled sub-object whose own reset method is called there. A surviving reference (e.g. the block error of the previous entry) shows up in a later, unrelated entry that receives the recycled context",
		Run: func(c *Ctx) {
			type spec struct{ typ, reset string }
			specs := []spec{{"core/base.EntryContext", "core/base.(*EntryContext).Reset"}, {"core/base.SentinelInput", "core/base.(*SentinelInput).reset"}, {"core/base.TokenResult", "core/base.(*TokenResult).ResetToPass"}, {"api.EntryOptions", "api.(*EntryOptions).Reset"}}
			resetOf := map[*types.Named]*ssa.Function{}
			for _, sp := range specs {
				t, f := c.P.Named(sp.typ), c.P.Func(sp.reset)
				if t == nil || f == nil {
					c.AnchorLost(sp.typ + " / " + sp.reset)
					return
				}
				resetOf[t] = f
			}
			// one named field, one reason
			exempt := map[string]string{
				"core/base.TokenResult.filterNodes":   "rewritten by outlier.Slot.Check on every request of an outlier resource before anybody reads it (guarded by outlier.lists-always-set)",
				"core/base.TokenResult.halfOpenNodes": "same as filterNodes",
			}
			for _, sp := range specs {
				t := c.P.Named(sp.typ)
				f := resetOf[t]
				st := t.Underlying().(*types.Struct)
				for i := 0; i < st.NumFields(); i++ {
					fld := st.Field(i)
					key := fmt.Sprintf("%s / resets %s", fnKey(f), fld.Name())
					if why, ok := exempt[sp.typ+"."+fld.Name()]; ok {
						c.Info(key, f.Pos(), "exempt: %s", why)
						continue
					}
					stored, subReset := false, false
					if whole, _ := wholeObjectStore(f); whole {
						stored = true // `*o = T{...}` writes every field
						// ... but copied from a long-lived template, a reference field shares its storage with every other
						// recycled object (unless the field is stored again afterwards)
						if src := wholeObjectSource(f); src != nil && isRefType(fld.Type()) {
							again := false
							eachInstr(f, func(ins ssa.Instruction) {
								if x, ok := ins.(*ssa.Store); ok {
									if fa, ok := x.Addr.(*ssa.FieldAddr); ok && resolve(fa.X) == ssa.Value(f.Params[0]) && fa.Field == i {
										again = true
									}
								}
							})
							if !again {
								c.Violate(key+" / shared-template", f.Pos(), "field %s.%s is copied from %s by a whole-object assignment: every recycled object then refers to the same storage (a slice header with spare capacity, a map), so one entry's data lands in another's", t.Obj().Name(), fld.Name(), accessPath(src))
								continue
							}
						}
					}
					eachInstr(f, func(ins ssa.Instruction) {
						switch x := ins.(type) {
						case *ssa.Store:
							if fa, ok := x.Addr.(*ssa.FieldAddr); ok && resolve(fa.X) == ssa.Value(f.Params[0]) && fa.Field == i {
								stored = true
							}
						case ssa.CallInstruction:
							if sub := namedOf(fld.Type()); sub != nil && resetOf[sub] != nil && isStaticCallTo(x, resetOf[sub]) {
								if ld, ok := x.Common().Args[0].(*ssa.UnOp); ok {
									if fa, ok := ld.X.(*ssa.FieldAddr); ok && resolve(fa.X) == ssa.Value(f.Params[0]) && fa.Field == i {
										subReset = true
									}
								}
							}
						}
					})
					c.Check(stored || subReset, key, f.Pos(), "field %s.%s is written on recycle (store: %v, own reset method called: %v)", t.Obj().Name(), fld.Name(), stored, subReset)
				}
			}
		},
	})

	register(&Rule{
		ID: "entry.returned-entry-owns-context", Props: []string{"C01", "C16", "C19"}, Floor: 1,
		Doc: "an entry that api.entry returns to the caller still owns its context: no path that returns a non-nil entry passes a call that hands the context back to the pool (SlotChain.RefurbishContext / sync.Pool.Put) - recycling is done by the entry's own Exit. A context recycled while its entry is live is reset under it and pooled twice, so two later entries share one context and one of them never completes",
		Run: func(c *Ctx) {
			f := c.P.Func("api.entry")
			ref := c.P.Func("core/base.(*SlotChain).RefurbishContext")
			if f == nil || ref == nil {
				c.AnchorLost("api.entry / SlotChain.RefurbishContext")
				return
			}
			n := 0
			for _, r := range returnsOf(f) {
				if len(r.Results) == 0 || isNilConst(r.Results[0]) {
					continue
				}
				n++
				bad := ""
				for _, ci := range callsIn(f) {
					if _, isDefer := ci.(*ssa.Defer); isDefer {
						continue
					}
					if (isStaticCallTo(ci, ref) || isExtCall(ci, "sync.(Pool).Put")) && instrReaches(ci.(ssa.Instruction), r) {
						bad = c.P.Pos(ci.Pos())
					}
				}
				c.Check(bad == "", fmt.Sprintf("%s / return-entry#%d", fnKey(f), n), r.Pos(), "no recycling call precedes the return of a live entry (recycled at %q)", bad)
			}
			if n == 0 {
				c.Violate(fnKey(f)+" / return-entry", f.Pos(), "api.entry never returns an entry")
			}
		},
	})

	register(&Rule{
		ID: "block.copy-carries-every-field", Props: []string{"C16"}, Floor: 8,
		Doc: "the copy of the block error that api.entry hands to the caller (NewBlockErrorFromDeepCopy, taken before the context is recycled) carries everything the blocking slot decided: on every path to a return, every field of the source BlockError has been read (a field that is not read on some path cannot have been copied on it), and in TokenResult.DeepCopyFrom every field of the source's block error is read on every path",
		Run: func(c *Ctx) {
			be := c.P.Named("core/base.BlockError")
			if be == nil {
				c.AnchorLost("core/base.BlockError")
				return
			}
			st := be.Underlying().(*types.Struct)
			copiesAll := map[*ssa.Function]bool{} // functions already shown to read every field of their source
			for _, fn := range []string{"core/base.NewBlockErrorFromDeepCopy", "core/base.(*TokenResult).DeepCopyFrom"} {
				f := c.P.Func(fn)
				if f == nil {
					c.AnchorLost(fn)
					continue
				}
				src := f.Params[len(f.Params)-1]
				all := true
				for i := 0; i < st.NumFields(); i++ {
					name := st.Field(i).Name()
					isRead := func(x ssa.Instruction) bool {
						// handing the source's block error to a function that copies every field counts as reading them all
						if ci, ok := x.(ssa.CallInstruction); ok && copiesAll[ci.Common().StaticCallee()] {
							for _, a := range ci.Common().Args {
								if namedOf(a.Type()) == be && strings.HasPrefix(accessPath(a), accessPath(src)) {
									return true
								}
							}
						}
						ld, ok := x.(*ssa.UnOp)
						if !ok || ld.Op != token.MUL {
							return false
						}
						// a load of the whole struct (`cp := *from`, `*e = *from`) reads every field
						if n, isN := ld.Type().(*types.Named); isN && n == be && strings.HasPrefix(accessPath(ld.X), accessPath(src)) {
							return true
						}
						fa, ok := ld.X.(*ssa.FieldAddr)
						if !ok || namedOf(fa.X.Type()) != be || fa.Field != i {
							return false
						}
						// rooted in the source parameter
						p := accessPath(fa.X)
						return strings.HasPrefix(p, accessPath(src))
					}
					ok := true
					for _, r := range returnsOf(f) {
						if !mustBeforeInstr(r, isRead, nil) {
							ok = false
						}
					}
					c.Check(ok, fnKey(f)+" / reads "+name, f.Pos(), "field %s of the source block error is read on every path to a return", name)
					if !ok {
						all = false
					}
				}
				if all {
					copiesAll[f] = true
				}
			}
		},
	})

	register(&Rule{
		ID: "entry.exit-handlers-owned", Props: []string{"C12", "C03", "C01"}, Floor: 2,
		Doc: "the exit-handler list of an entry (through which a circuit breaker registers the rollback of its own half-open probe) is storage of that entry alone: every store to SentinelEntry.exitHandlers is a slice made at that place, nil, or append(...) to the entry's own list - never a package-level slice, whose spare capacity would make the first handler of every entry land in the same cell, so that one entry's exit runs another breaker's rollback",
		Run: func(c *Ctx) {
			se := c.P.Named("core/base.SentinelEntry")
			if se == nil {
				c.AnchorLost("core/base.SentinelEntry")
				return
			}
			for i, st := range fieldStores(c.P, se, "exitHandlers") {
				v := resolve(st.st.Val)
				ok := isNilConst(v)
				if _, fresh := v.(*ssa.MakeSlice); fresh {
					ok = true
				}
				if sl, isSl := v.(*ssa.Slice); isSl {
					if al, isAl := sl.X.(*ssa.Alloc); isAl && al.Heap {
						ok = true // composite literal []ExitHandler{...}
					}
				}
				if call, isCall := v.(*ssa.Call); isCall {
					if b, isB := call.Call.Value.(*ssa.Builtin); isB && b.Name() == "append" {
						base := accessPath(call.Call.Args[0])
						ok = strings.HasSuffix(base, ".exitHandlers") && !strings.Contains(base, "core/")
					}
				}
				c.Check(ok, fmt.Sprintf("%s / store SentinelEntry.exitHandlers#%d", fnKey(st.fn), i+1), st.st.Pos(), "stores %s (want: made here, nil, or append to the entry's own list)", accessPath(st.st.Val))
			}
		},
	})

	register(&Rule{
		ID: "input.attachments-owned", Props: []string{"C06", "C05"}, Floor: 3,
		Doc: "the attachment map of an entry (from which a ParamKey hotspot rule extracts its value at Entry and again at Exit) is a map allocated by the option functions themselves: every store to EntryOptions.attachments is a fresh make(map) or nil, never a map handed in by the caller, which the caller may re-fill while the entry is alive (the value released at Exit would differ from the value admitted)",
		Run: func(c *Ctx) {
			eo := c.P.Named("api.EntryOptions")
			if eo == nil {
				c.AnchorLost("api.EntryOptions")
				return
			}
			for i, st := range fieldStores(c.P, eo, "attachments") {
				v := resolve(st.st.Val)
				_, fresh := v.(*ssa.MakeMap)
				ok := fresh || isNilConst(v)
				c.Check(ok, fmt.Sprintf("%s / store EntryOptions.attachments#%d", fnKey(st.fn), i+1), st.st.Pos(), "stores %s (want a map made here, or nil)", accessPath(st.st.Val))
			}
		},
	})

	register(&Rule{
		ID: "input.args-writers", Props: []string{"C06"}, Floor: 2,
		Doc: "SentinelInput.Args is written only by api.entry (from the caller's options), the input's own reset method and the pool constructor",
		Run: func(c *Ctx) {
			in := c.P.Named("core/base.SentinelInput")
			if in == nil {
				c.AnchorLost("SentinelInput")
				return
			}
			allowed := map[string]bool{"api.entry": true, "core/base.(*SentinelInput).reset": true}
			for i, s := range fieldStores(c.P, in, "Args") {
				k := fnKey(s.fn)
				ok := allowed[k] || rootIsAlloc(s.fa.X)
				c.Check(ok, fmt.Sprintf("%s / store SentinelInput.Args#%d", k, i+1), s.st.Pos(), "the argument list re-read at Exit may be written only when the entry is created")
			}
		},
	})
}

func isBlockedCall(call *ssa.Call) bool {
	cal := call.Call.StaticCallee()
	if cal == nil || cal.Name() != "IsBlocked" || cal.Signature.Recv() == nil {
		return false
	}
	n := namedOf(cal.Signature.Recv().Type())
	return n != nil && (n.Obj().Name() == "TokenResult" || n.Obj().Name() == "EntryContext")
}

// callBetween returns the first call instruction on some path from `from` (exclusive) before reaching an
// instruction satisfying `until`; nil when every path reaches `until` without a call (paths that leave the function
// without reaching `until` are ignored: they notify nobody and set nothing further).
func callBetween(from ssa.Instruction, until func(ssa.Instruction) bool, prune func(*ssa.BasicBlock) bool) ssa.Instruction {
	seen := map[*ssa.BasicBlock]bool{}
	var found ssa.Instruction
	var walk func(b *ssa.BasicBlock, i int)
	walk = func(b *ssa.BasicBlock, i int) {
		for ; i < len(b.Instrs) && found == nil; i++ {
			ins := b.Instrs[i]
			if until(ins) {
				return
			}
			if ci, ok := ins.(ssa.CallInstruction); ok {
				if b, isB := ci.Common().Value.(*ssa.Builtin); isB {
					switch b.Name() {
					case "len", "cap", "append", "copy", "min", "max", "real", "imag":
						continue // cannot panic
					}
				}
				found = ins
				return
			}
		}
		for _, s := range b.Succs {
			if !seen[s] && found == nil {
				seen[s] = true
				if prune != nil && prune(s) {
					continue
				}
				walk(s, 0)
			}
		}
	}
	walk(from.Block(), instrIndex(from)+1)
	return found
}

// ---------------------------------------------------------------------------------------------
// effect summaries (E5)

type effect struct {
	method string
	recv   string
	args   []string
	guards []string
	inLoop bool
	pos    token.Pos
}

// collectEffects gathers invokes on base.StatNode-like interfaces (methods that write statistics) performed by f,
// following static callees of the same package with parameter binding.
func collectEffects(P *Program, f *ssa.Function, env map[ssa.Value]string, guards []string, depth int, out *[]effect) {
	loops := loopBlocks(f)
	writer := map[string]bool{"IncreaseConcurrency": true, "DecreaseConcurrency": true, "AddCount": true, "UpdateConcurrency": true}
	for _, b := range f.Blocks {
		for _, ins := range b.Instrs {
			ci, ok := ins.(ssa.CallInstruction)
			if !ok {
				continue
			}
			cc := ci.Common()
			var here []string
			withPathEnv(env, func() {
				for g := range canonFacts(b) {
					here = append(here, g)
				}
			})
			sort.Strings(here)
			all := append(append([]string{}, guards...), here...)
			if cc.IsInvoke() && writer[cc.Method.Name()] {
				e := effect{method: cc.Method.Name(), guards: all, inLoop: loops[b], pos: ci.Pos()}
				withPathEnv(env, func() {
					e.recv = accessPath(cc.Value)
					for _, a := range cc.Args {
						if _, isC := a.(*ssa.Const); isC {
							e.args = append(e.args, constArgName(a))
						} else {
							e.args = append(e.args, accessPath(a))
						}
					}
				})
				*out = append(*out, e)
				continue
			}
			cal := cc.StaticCallee()
			// the same writer called on a concrete node (`InboundNode().AddCount(...)`, a promoted method of the embedded
			// BaseStatNode) instead of through the StatNode interface
			if cal != nil && writer[cal.Name()] && cal.Signature.Recv() != nil && fnPkgPath(cal) == modPath+"/core/stat" && len(cc.Args) > 0 && !cc.IsInvoke() {
				e := effect{method: cal.Name(), guards: all, inLoop: loops[b], pos: ci.Pos()}
				withPathEnv(env, func() {
					e.recv = strings.TrimSuffix(accessPath(cc.Args[0]), ".BaseStatNode")
					for _, a := range cc.Args[1:] {
						if _, isC := a.(*ssa.Const); isC {
							e.args = append(e.args, constArgName(a))
						} else {
							e.args = append(e.args, accessPath(a))
						}
					}
				})
				*out = append(*out, e)
				continue
			}
			if cal == nil || depth <= 0 || cal.Blocks == nil || fnPkgPath(cal) != fnPkgPath(f) {
				continue
			}
			// an argument assembled by a helper as "nil or the node" (phi with a nil alternative): one binding per alternative,
			// each under the facts of its incoming edge; the callee's effects under `param != nil` vanish for the nil one
			type binding struct {
				env    map[ssa.Value]string
				guards []string
				nilArg map[ssa.Value]bool
			}
			bindings := []binding{{env: map[ssa.Value]string{}, guards: all, nilArg: map[ssa.Value]bool{}}}
			for i, prm := range cal.Params {
				if i >= len(cc.Args) {
					continue
				}
				arg := cc.Args[i]
				var cases []retCase
				if ph, isPhi := stripConv(arg).(*ssa.Phi); isPhi {
					hasNil := false
					for _, e := range ph.Edges {
						if isNilConst(stripConv(e)) {
							hasNil = true
						}
					}
					if hasNil {
						cases = splitPhiCases(ph, ci.Block(), nil, 0)
					}
				}
				if len(cases) == 0 {
					withPathEnv(env, func() {
						for k := range bindings {
							bindings[k].env[prm] = accessPath(arg)
						}
					})
					// a struct handed over by value: its fields are what the caller stored into them
					if ld, ok := stripConv(arg).(*ssa.UnOp); ok && ld.Op == token.MUL {
						if al, ok := ld.X.(*ssa.Alloc); ok {
							eachInstr(cal, func(x ssa.Instruction) {
								var at ssa.Value
								fidx := -1
								if fl, ok := x.(*ssa.Field); ok && fl.X == ssa.Value(prm) {
									at, fidx = fl, fl.Field
								}
								// the parameter spilled into a local of the callee and read through a field address
								if u, ok := x.(*ssa.UnOp); ok && u.Op == token.MUL {
									if fa, ok := u.X.(*ssa.FieldAddr); ok {
										if spill, ok := fa.X.(*ssa.Alloc); ok && allocSingleStore(spill) == ssa.Value(prm) {
											at, fidx = u, fa.Field
										}
									}
								}
								if at == nil {
									return
								}
								if fv := structFieldOfAlloc(al, fidx, 0); fv != nil {
									withPathEnv(env, func() {
										for k := range bindings {
											bindings[k].env[at] = accessPath(fv)
										}
									})
								}
							})
						}
					}
					continue
				}
				var next []binding
				for _, bd := range bindings {
					for _, cs := range cases {
						nb := binding{env: map[ssa.Value]string{}, guards: append([]string{}, bd.guards...), nilArg: map[ssa.Value]bool{}}
						for k, v := range bd.env {
							nb.env[k] = v
						}
						for k, v := range bd.nilArg {
							nb.nilArg[k] = v
						}
						withPathEnv(env, func() {
							nb.env[prm] = accessPath(cs.val)
							for _, ft := range cs.extra {
								nb.guards = append(nb.guards, canonCond(ft.Cond, ft.Truth))
							}
							for g := range canonFacts(cs.block) {
								nb.guards = append(nb.guards, g)
							}
						})
						if isNilConst(stripConv(cs.val)) {
							nb.nilArg[prm] = true
						}
						next = append(next, nb)
					}
				}
				bindings = next
			}
			for _, bd := range bindings {
				var sub []effect
				collectEffects(P, cal, bd.env, bd.guards, depth-1, &sub)
				for _, e := range sub {
					// effects the callee performs only under `param != nil` do not happen when nil was passed
					dead := false
					for prm := range bd.nilArg {
						nm := bd.env[prm]
						for _, g := range e.guards {
							if g == nm+" != "+nm || g == "nil != nil" {
								dead = true
							}
						}
					}
					if !dead {
						*out = append(*out, e)
					}
				}
			}
		}
	}
}
