package main

import (
	"fmt"
	"go/constant"
	"go/token"
	"go/types"
	"strings"

	"golang.org/x/tools/go/ssa"
)

// E14: guarded arithmetic. A deliberately small fact language: a value is proven strictly positive / non-negative /
// non-zero from constants, dominating branch facts on the same access path, unsigned types, sums / products /
// quotients of proven operands, a - b under a dominating b < a (with one step of transitivity), integer lower
// bounds through phi nodes, and field invariants (every store to the field, all of them in constructors on fresh
// objects, stores a proven value). Anything else is "not proven"; the rules report that, they never guess.

type signProver struct {
	P     *Program
	depth int
	// assumed facts per function (constructor preconditions taken from the validity function, frozen in the rule)
	assume map[*ssa.Function][]string
	memoF  map[string]int // field invariants: 0 unknown, 1 proving, 2 pos, 3 nonneg, 4 none
	notes  []string
}

func newSignProver(P *Program) *signProver {
	return &signProver{P: P, assume: map[*ssa.Function][]string{}, memoF: map[string]int{}}
}

func (z *signProver) factsAt(b *ssa.BasicBlock, extra []Fact) map[string]bool {
	fs := canonFacts(b, extra...)
	if b != nil {
		for _, a := range z.assume[b.Parent()] {
			fs[a] = true
		}
	}
	return fs
}

func isUnsigned(t types.Type) bool {
	b, ok := t.Underlying().(*types.Basic)
	return ok && b.Info()&types.IsUnsigned != 0
}

func isIntegerT(t types.Type) bool {
	b, ok := t.Underlying().(*types.Basic)
	return ok && b.Info()&types.IsInteger != 0
}

func isFloatT(t types.Type) bool {
	b, ok := t.Underlying().(*types.Basic)
	return ok && b.Info()&types.IsFloat != 0
}

func constSign(v ssa.Value) (int, bool) {
	c, ok := v.(*ssa.Const)
	if !ok || c.Value == nil {
		return 0, false
	}
	switch c.Value.Kind() {
	case constant.Int, constant.Float:
		return constant.Sign(c.Value), true
	}
	return 0, false
}

// lowerBound of an integer value at block b.
func (z *signProver) lowerBound(v ssa.Value, b *ssa.BasicBlock, extra []Fact, depth int) (int64, bool) {
	if depth > 6 {
		return 0, false
	}
	if c, ok := constInt(v); ok {
		return c, true
	}
	best, have := int64(0), false
	if isUnsigned(v.Type()) {
		best, have = 0, true
	}
	p := accessPath(v)
	for f := range z.factsAt(b, extra) {
		var c int64
		var strict bool
		if n, _ := fmt.Sscanf(f, "%d", &c); n == 1 {
			rest := strings.TrimPrefix(f, fmt.Sprint(c))
			switch {
			case rest == " < "+p:
				strict = true
			case rest == " <= "+p:
			default:
				continue
			}
			lb := c
			if strict {
				lb = c + 1
			}
			if !have || lb > best {
				best, have = lb, true
			}
		}
	}
	switch x := v.(type) {
	case *ssa.Phi:
		m, ok := int64(0), true
		for i, e := range x.Edges {
			pred := x.Block().Preds[i]
			lb, ok2 := z.lowerBound(e, pred, edgeFact(pred, x.Block()), depth+1)
			if !ok2 {
				ok = false
				break
			}
			if i == 0 || lb < m {
				m = lb
			}
		}
		if ok && (!have || m > best) {
			best, have = m, true
		}
	case *ssa.Convert:
		if isIntegerT(x.X.Type()) && isIntegerT(x.Type()) {
			if lb, ok := z.lowerBound(x.X, b, extra, depth+1); ok && (!have || lb > best) {
				best, have = lb, true
			}
		}
	case *ssa.BinOp:
		if x.Op == token.SUB {
			if c, ok := constInt(x.Y); ok {
				if lb, ok := z.lowerBound(x.X, b, extra, depth+1); ok && lb >= c && (!have || lb-c > best) {
					best, have = lb-c, true
				}
			}
		}
		if x.Op == token.ADD {
			if c, ok := constInt(x.Y); ok && c >= 0 {
				if lb, ok := z.lowerBound(x.X, b, extra, depth+1); ok && (!have || lb+c > best) {
					best, have = lb+c, true
				}
			}
			if c, ok := constInt(x.X); ok && c >= 0 {
				if lb, ok := z.lowerBound(x.Y, b, extra, depth+1); ok && (!have || lb+c > best) {
					best, have = lb+c, true
				}
			}
		}
	}
	return best, have
}

// edgeFact: the branch fact established by taking the edge pred -> succ.
func edgeFact(pred, succ *ssa.BasicBlock) []Fact {
	if len(pred.Instrs) == 0 || len(pred.Succs) != 2 || pred.Succs[0] == pred.Succs[1] {
		return nil
	}
	ifi, ok := pred.Instrs[len(pred.Instrs)-1].(*ssa.If)
	if !ok {
		return nil
	}
	t := pred.Succs[0] == succ
	c, tt := stripNot(ifi.Cond, t)
	return []Fact{{Cond: c, Truth: tt, If: ifi}}
}

// less: is "a < b" (strict) or "a <= b" established at the block, with one step of transitivity.
func lessFact(fs map[string]bool, a, b string) (strict, ok bool) {
	if fs[a+" < "+b] {
		return true, true
	}
	if fs[a+" <= "+b] {
		ok = true
	}
	// transitivity through one intermediate
	for f := range fs {
		for _, op := range []string{" < ", " <= "} {
			pre := a + op
			if strings.HasPrefix(f, pre) {
				mid := strings.TrimPrefix(f, pre)
				if fs[mid+" < "+b] {
					return true, true
				}
				if fs[mid+" <= "+b] {
					if op == " < " {
						return true, true
					}
					ok = true
				}
			}
		}
	}
	return false, ok
}

// positive: v > 0 proven at block b.
func (z *signProver) positive(v ssa.Value, b *ssa.BasicBlock, extra []Fact, depth int) (string, bool) {
	if depth > 8 {
		return "", false
	}
	if s, ok := constSign(v); ok {
		return "constant", s > 0
	}
	p := accessPath(v)
	fs := z.factsAt(b, extra)
	if fs["0 < "+p] {
		return "dominating guard 0 < " + p, true
	}
	if isIntegerT(v.Type()) {
		if lb, ok := z.lowerBound(v, b, extra, 0); ok && lb >= 1 {
			return fmt.Sprintf("integer lower bound %d", lb), true
		}
		if isUnsigned(v.Type()) && (fs["0 != "+p] || fs[p+" != 0"]) {
			return "unsigned and != 0", true
		}
	}
	switch x := v.(type) {
	case *ssa.Convert:
		// int -> float or widening int: preserves sign and non-zero-ness; float -> int may truncate to 0
		if isIntegerT(x.X.Type()) && (isFloatT(x.Type()) || isIntegerT(x.Type()) && sizeofBasic(x.Type()) >= sizeofBasic(x.X.Type()) && (isUnsigned(x.Type()) == isUnsigned(x.X.Type()) || isUnsigned(x.X.Type()))) {
			if r, ok := z.positive(x.X, b, extra, depth+1); ok {
				return "conversion of (" + r + ")", true
			}
		}
		if isFloatT(x.X.Type()) && isFloatT(x.Type()) {
			return z.positive(x.X, b, extra, depth+1)
		}
	case *ssa.ChangeType:
		return z.positive(x.X, b, extra, depth+1)
	case *ssa.BinOp:
		switch x.Op {
		case token.ADD:
			if r, ok := z.positive(x.X, b, extra, depth+1); ok && z.nonNegative(x.Y, b, extra, depth+1) {
				return "sum of positive (" + r + ") and non-negative (no-wrap assumed)", true
			}
			if r, ok := z.positive(x.Y, b, extra, depth+1); ok && z.nonNegative(x.X, b, extra, depth+1) {
				return "sum of non-negative and positive (" + r + ") (no-wrap assumed)", true
			}
		case token.MUL, token.QUO:
			r1, ok1 := z.positive(x.X, b, extra, depth+1)
			r2, ok2 := z.positive(x.Y, b, extra, depth+1)
			if ok1 && ok2 && (isFloatT(x.Type()) || x.Op == token.MUL) {
				return "product/quotient of positives (" + r1 + "; " + r2 + ")", true
			}
		case token.SUB:
			if strict, ok := lessFact(fs, accessPath(x.Y), accessPath(x.X)); ok && strict {
				return "difference under dominating " + accessPath(x.Y) + " < " + accessPath(x.X), true
			}
		}
	case *ssa.Phi:
		var rs []string
		for i, e := range x.Edges {
			pred := x.Block().Preds[i]
			r, ok := z.positive(e, pred, edgeFact(pred, x.Block()), depth+1)
			if !ok {
				return "", false
			}
			rs = append(rs, r)
		}
		return "phi of positives (" + strings.Join(rs, " | ") + ")", true
	case *ssa.UnOp:
		if x.Op == token.MUL {
			if fa, ok := x.X.(*ssa.FieldAddr); ok {
				if r, ok := z.fieldInvariant(fa, true); ok {
					return r, true
				}
			}
		}
	}
	return "", false
}

func sizeofBasic(t types.Type) int64 {
	return types.SizesFor("gc", "amd64").Sizeof(t.Underlying())
}

func (z *signProver) nonNegative(v ssa.Value, b *ssa.BasicBlock, extra []Fact, depth int) bool {
	if depth > 8 {
		return false
	}
	if s, ok := constSign(v); ok {
		return s >= 0
	}
	if isUnsigned(v.Type()) {
		return true
	}
	if _, ok := z.positive(v, b, extra, depth+1); ok {
		return true
	}
	p := accessPath(v)
	fs := z.factsAt(b, extra)
	if fs["0 <= "+p] {
		return true
	}
	if isIntegerT(v.Type()) {
		if lb, ok := z.lowerBound(v, b, extra, 0); ok && lb >= 0 {
			return true
		}
	}
	switch x := v.(type) {
	case *ssa.Convert:
		if isIntegerT(x.X.Type()) && isFloatT(x.Type()) || isFloatT(x.X.Type()) && isFloatT(x.Type()) {
			return z.nonNegative(x.X, b, extra, depth+1)
		}
		if isIntegerT(x.X.Type()) && isIntegerT(x.Type()) && sizeofBasic(x.Type()) >= sizeofBasic(x.X.Type()) {
			return z.nonNegative(x.X, b, extra, depth+1)
		}
	case *ssa.BinOp:
		switch x.Op {
		case token.ADD, token.MUL, token.QUO:
			return z.nonNegative(x.X, b, extra, depth+1) && z.nonNegative(x.Y, b, extra, depth+1)
		case token.SUB:
			if _, ok := lessFact(fs, accessPath(x.Y), accessPath(x.X)); ok {
				return true
			}
		}
	case *ssa.Phi:
		for i, e := range x.Edges {
			pred := x.Block().Preds[i]
			if !z.nonNegative(e, pred, edgeFact(pred, x.Block()), depth+1) {
				return false
			}
		}
		return true
	case *ssa.UnOp:
		if x.Op == token.MUL {
			if fa, ok := x.X.(*ssa.FieldAddr); ok {
				if _, ok := z.fieldInvariant(fa, false); ok {
					return true
				}
			}
		}
	}
	return false
}

// nonZero: v != 0 proven at block b.
func (z *signProver) nonZero(v ssa.Value, b *ssa.BasicBlock) (string, bool) {
	if s, ok := constSign(v); ok {
		return "non-zero constant", s != 0
	}
	if r, ok := z.positive(v, b, nil, 0); ok {
		return r, true
	}
	p := accessPath(v)
	fs := z.factsAt(b, nil)
	if fs["0 != "+p] || fs[p+" != 0"] || fs[p+" < 0"] {
		return "dominating guard " + p + " != 0", true
	}
	switch x := v.(type) {
	case *ssa.Convert:
		if isIntegerT(x.X.Type()) && isFloatT(x.Type()) || isFloatT(x.X.Type()) && isFloatT(x.Type()) {
			return z.nonZero(x.X, b)
		}
	case *ssa.BinOp:
		if x.Op == token.SUB {
			a, bb := accessPath(x.X), accessPath(x.Y)
			if s, ok := lessFact(fs, bb, a); ok && s {
				return "difference under dominating " + bb + " < " + a, true
			}
			if s, ok := lessFact(fs, a, bb); ok && s {
				return "difference under dominating " + a + " < " + bb, true
			}
		}
		if x.Op == token.MUL {
			r1, ok1 := z.nonZero(x.X, b)
			r2, ok2 := z.nonZero(x.Y, b)
			if ok1 && ok2 {
				return "product of non-zeros (" + r1 + "; " + r2 + ") (no-wrap assumed)", true
			}
		}
	}
	return "", false
}

// fieldInvariant: every store to the field in the module is a store into a fresh object (constructor) of a value
// proven positive (or non-negative) at the store.
func (z *signProver) fieldInvariant(fa *ssa.FieldAddr, strict bool) (string, bool) {
	T := namedOf(fa.X.Type())
	if T == nil {
		return "", false
	}
	fname := fieldName(fa.X.Type(), fa.Field)
	key := fmt.Sprintf("%s.%s/%v", T.String(), fname, strict)
	switch z.memoF[key] {
	case 1:
		return "", false // recursive
	case 2:
		return "field invariant " + T.Obj().Name() + "." + fname, true
	case 4:
		return "", false
	}
	z.memoF[key] = 1
	stores := fieldStores(z.P, T, fname)
	if len(stores) == 0 {
		z.memoF[key] = 4
		return "", false
	}
	for _, s := range stores {
		if !rootIsAlloc(s.fa.X) {
			z.memoF[key] = 4
			z.notes = append(z.notes, fmt.Sprintf("%s.%s is written outside a constructor at %s", T.Obj().Name(), fname, z.P.Pos(s.st.Pos())))
			return "", false
		}
		ok := false
		if strict {
			_, ok = z.positive(s.st.Val, s.st.Block(), nil, 1)
		} else {
			ok = z.nonNegative(s.st.Val, s.st.Block(), nil, 1)
		}
		if !ok {
			z.memoF[key] = 4
			z.notes = append(z.notes, fmt.Sprintf("%s.%s = %s at %s is not proven %s", T.Obj().Name(), fname, accessPath(s.st.Val), z.P.Pos(s.st.Pos()), map[bool]string{true: "> 0", false: ">= 0"}[strict]))
			return "", false
		}
	}
	z.memoF[key] = 2
	return fmt.Sprintf("field invariant: every store to %s.%s (%d, all in constructors) stores a proven %s value", T.Obj().Name(), fname, len(stores), map[bool]string{true: "positive", false: "non-negative"}[strict]), true
}

// validityFacts returns the unconditional facts established by a validity function on its accepting path,
// rewritten from its parameter name to `as`.
func validityFacts(f *ssa.Function, as string) []string {
	var out []string
	if f == nil || len(f.Params) == 0 {
		return nil
	}
	pn := accessPath(f.Params[0])
	for _, r := range returnsOf(f) {
		if len(r.Results) != 1 || !isNilConst(r.Results[0]) {
			continue
		}
		for k := range canonFacts(r.Block()) {
			out = append(out, rewriteParam(k, pn, as))
		}
	}
	return out
}

// conditionalValidityFacts: for a rejecting return nested under guards G with innermost test T, a valid rule
// satisfies G => not T. Returns the negated innermost facts whose guards are all contained in `given`.
func conditionalValidityFacts(f *ssa.Function, as string, given map[string]bool) []string {
	var out []string
	if f == nil || len(f.Params) == 0 {
		return nil
	}
	pn := accessPath(f.Params[0])
	for _, r := range returnsOf(f) {
		if len(r.Results) != 1 || isNilConst(r.Results[0]) {
			continue
		}
		facts := condFacts(r.Block())
		if len(facts) == 0 {
			continue
		}
		inner := facts[len(facts)-1]
		ok := true
		for _, g := range facts[:len(facts)-1] {
			k := rewriteParam(canonCond(g.Cond, g.Truth), pn, as)
			if !given[k] {
				ok = false
			}
		}
		if ok {
			out = append(out, rewriteParam(canonCond(inner.Cond, !inner.Truth), pn, as))
		}
	}
	return out
}

func rewriteParam(s, from, to string) string {
	if from == to {
		return s
	}
	// replace `from.` occurrences at identifier boundaries
	var sb strings.Builder
	for i := 0; i < len(s); {
		if strings.HasPrefix(s[i:], from+".") && (i == 0 || !isIdentChar(s[i-1])) {
			sb.WriteString(to + ".")
			i += len(from) + 1
			continue
		}
		sb.WriteByte(s[i])
		i++
	}
	return sb.String()
}

func isIdentChar(c byte) bool {
	return c == '_' || c >= '0' && c <= '9' || c >= 'a' && c <= 'z' || c >= 'A' && c <= 'Z'
}
