package main

import (
	"fmt"
	"go/constant"
	"go/token"
	"go/types"
	"sort"
	"strings"

	"golang.org/x/tools/go/ssa"
)

// Sliding window rules: C08, C09 (and C03 for the breaker leap arrays).

const sbPkg = "core/stat/base"

func bucketGeneratorIface(P *Program) *types.Interface {
	n := P.Named(sbPkg + ".BucketGenerator")
	if n == nil {
		return nil
	}
	i, _ := n.Underlying().(*types.Interface)
	return i
}

func isBucketStartAddr(v ssa.Value) bool {
	fa, ok := v.(*ssa.FieldAddr)
	if !ok {
		return false
	}
	o, f := fieldOf(fa)
	return o == sbPkg+".BucketWrap" && f == "BucketStart"
}

// coneWritesAtomic: f (depth d through static module callees) performs a sync/atomic Store/Add/Swap/CAS or atomic.Value.Store.
func coneWritesAtomic(f *ssa.Function, d int) bool {
	if f == nil || d < 0 || f.Blocks == nil {
		return false
	}
	for _, ci := range callsIn(f) {
		if n, ok := atomicFuncName(ci); ok && !strings.HasPrefix(n, "Load") {
			return true
		}
		if isExtCall(ci, "sync/atomic.(Value).Store") {
			return true
		}
		if cal := ci.Common().StaticCallee(); cal != nil && inModule(fnPkgPath(cal)) && coneWritesAtomic(cal, d-1) {
			return true
		}
	}
	return false
}

func init() {
	register(&Rule{
		ID: "window.reset-before-publish", Props: []string{"C09", "C03"}, Floor: 3,
		Doc: "in every BucketGenerator.ResetBucketTo the bucket's data is cleared before the new BucketStart is stored, on every path: a reader that observes the new start time must not observe the previous cycle's counts (data of an expired bucket is never visible)",
		Run: func(c *Ctx) {
			bg := bucketGeneratorIface(c.P)
			if bg == nil {
				c.AnchorLost("BucketGenerator")
				return
			}
			for _, f := range c.P.Implementations(bg, "ResetBucketTo") {
				if isTestOrExample(f) {
					continue
				}
				key := fnKey(f) + " / clear-then-publish"
				var publish []ssa.Instruction
				var clears []ssa.Instruction
				for _, ci := range callsIn(f) {
					cc := ci.Common()
					if n, ok := atomicFuncName(ci); ok && strings.HasPrefix(n, "Store") && isBucketStartAddr(cc.Args[0]) {
						publish = append(publish, ci.(ssa.Instruction))
						continue
					}
					if isExtCall(ci, "sync/atomic.(Value).Store") {
						clears = append(clears, ci.(ssa.Instruction))
						continue
					}
					if cal := cc.StaticCallee(); cal != nil && inModule(fnPkgPath(cal)) && coneWritesAtomic(cal, 3) {
						clears = append(clears, ci.(ssa.Instruction))
					}
				}
				eachInstr(f, func(ins ssa.Instruction) {
					if st, ok := ins.(*ssa.Store); ok && isBucketStartAddr(st.Addr) {
						publish = append(publish, st)
					}
				})
				if len(publish) == 0 || len(clears) == 0 {
					c.Violate(key, f.Pos(), "ResetBucketTo must clear the bucket data and store the new start time (found %d start stores, %d data clears)", len(publish), len(clears))
					continue
				}
				ok := true
				for _, p := range publish {
					for _, cl := range clears {
						if !instrDominates(cl, p) {
							ok = false
						}
					}
				}
				c.Check(ok, key, instrPos(publish[0]), "the new BucketStart is published before the bucket's data is cleared: a concurrent reader between the two sees the previous cycle's counts attributed to the new window")
			}
		},
	})

	register(&Rule{
		ID: "window.reset-under-lock", Props: []string{"C09"}, Floor: 2,
		Doc: "BucketGenerator.ResetBucketTo is invoked only from LeapArray.currentBucketOfTime, on the success branch of updateLock.TryLock, and the lock is released on every path after it; a bucket is returned to a recorder only when its start equals the recorder's bucket start, after the recorder's own reset, after winning the install CAS, or on the single-bucket branch",
		Run: func(c *Ctx) {
			bg := bucketGeneratorIface(c.P)
			cur := c.P.Func(sbPkg + ".(*LeapArray).currentBucketOfTime")
			tryLock := c.P.Func(sbPkg + ".(*mutex).TryLock")
			if bg == nil || cur == nil || tryLock == nil {
				c.AnchorLost("BucketGenerator/currentBucketOfTime/TryLock")
				return
			}
			n := 0
			for _, f := range c.P.ModuleFuncs() {
				if isTestOrExample(f) {
					continue
				}
				for _, ci := range callsIn(f) {
					cc := ci.Common()
					if !cc.IsInvoke() || cc.Method.Name() != "ResetBucketTo" || !types.Identical(cc.Value.Type().Underlying(), bg) {
						continue
					}
					n++
					key := fmt.Sprintf("%s / ResetBucketTo#%d", fnKey(f), n)
					if f != cur {
						c.Violate(key, ci.Pos(), "a bucket is reset outside LeapArray.currentBucketOfTime, i.e. outside the update lock")
						continue
					}
					locked := false
					for _, ft := range factsAt(ci.(ssa.Instruction)) {
						if call, ok := ft.Cond.(*ssa.Call); ok && ft.Truth && isStaticCallTo(call, tryLock) {
							locked = true
						}
					}
					if !locked {
						c.Violate(key, ci.Pos(), "bucket reset is not on the success branch of updateLock.TryLock(): two recorders may reset the same bucket concurrently and one of them wipes the other's update")
						continue
					}
					// the lock is released on every path that starts at the successful TryLock (not only after the reset)
					var start ssa.Instruction = ci.(ssa.Instruction)
					for _, ft := range factsAt(ci.(ssa.Instruction)) {
						if call, ok := ft.Cond.(*ssa.Call); ok && ft.Truth && isStaticCallTo(call, tryLock) {
							if succ := ft.If.Block().Succs[0]; len(succ.Instrs) > 0 {
								start = succ.Instrs[0]
							}
						}
					}
					isUnlock := func(x ssa.Instruction) bool {
						c2, isCall := x.(ssa.CallInstruction)
						return isCall && isExtCall(c2, "sync.(Mutex).Unlock")
					}
					ok, at := true, ssa.Instruction(nil)
					if !isUnlock(start) {
						ok, at = allPathsHit(start, isUnlock, func(x ssa.Instruction) bool {
							c2, isCall := x.(ssa.CallInstruction)
							return isCall && isStaticCallTo(c2, tryLock)
						})
						// allPathsHit starts after `start`; start itself may be a return
						if _, isRet := start.(*ssa.Return); isRet {
							ok, at = false, start
						}
					}
					if !ok {
						c.Violate(key, instrPos(at), "a path after the bucket reset leaves without releasing updateLock: every later rollover spins forever")
					} else {
						c.Hold(key, ci.Pos(), "reset under TryLock success; Unlock on every path")
					}
				}
			}
			// returns of currentBucketOfTime
			get := c.P.Func(sbPkg + ".(*AtomicBucketWrapArray).get")
			cas := c.P.Func(sbPkg + ".(*AtomicBucketWrapArray).compareAndSet")
			type bucketCase struct {
				v     ssa.Value
				blk   *ssa.BasicBlock
				extra []Fact
				pos   token.Pos
				key   string
			}
			var cases []bucketCase
			for i, r := range returnsOf(cur) {
				if len(r.Results) != 2 || isNilConst(r.Results[0]) {
					continue
				}
				key := fmt.Sprintf("%s / return-bucket#%d", fnKey(cur), i+1)
				rcs := splitPhiCases(r.Results[0], r.Block(), nil, 0)
				for j, cs := range rcs {
					k := key
					if len(rcs) > 1 {
						k = fmt.Sprintf("%s.%d", key, j+1)
					}
					if isNilConst(cs.val) {
						continue
					}
					cases = append(cases, bucketCase{cs.val, cs.block, cs.extra, r.Pos(), k})
				}
			}
			for _, bc := range cases {
				key := bc.key
				v := bc.v
				r := struct{ Pos func() token.Pos }{func() token.Pos { return bc.pos }}
				rBlock := bc.blk
				facts := canonFacts(rBlock, bc.extra...)
				switch x := v.(type) {
				case *ssa.Call:
					if x.Call.IsInvoke() && x.Call.Method.Name() == "ResetBucketTo" {
						c.Hold(key, r.Pos(), "returns the bucket this recorder reset to its own start time")
						continue
					}
					if isStaticCallTo(x, get) {
						eq := false
						single := false
						for f := range facts {
							if strings.Contains(f, " == ") && strings.Contains(f, "BucketStart") && strings.Contains(f, "calculateStartTime") {
								eq = true
							}
							if strings.Contains(f, "sampleCount") && strings.Contains(f, "== ") {
								single = true
							}
						}
						c.Check(eq || single, key, r.Pos(), "an existing bucket is handed to the recorder under [%s]; required: its BucketStart equals the recorder's bucket start (or the single-bucket branch)", factList(facts))
						continue
					}
				case *ssa.Alloc:
					won := false
					for _, ft := range append(condFacts(rBlock), bc.extra...) {
						if call, ok := ft.Cond.(*ssa.Call); ok && ft.Truth && isStaticCallTo(call, cas) {
							won = true
						}
					}
					c.Check(won, key, r.Pos(), "a fresh bucket is returned only after winning the install CAS")
					continue
				}
				c.Undecided(key, r.Pos(), "unrecognised origin %s of the returned bucket", accessPath(v))
			}
		},
	})

	register(&Rule{
		ID: "window.recorder-own-timestamp", Props: []string{"C09"}, Floor: 2,
		Doc: "BucketLeapArray's recorders (addCountWithTime, updateConcurrencyWithTime) add to the bucket returned by currentBucketOfTime for the recorder's own timestamp parameter",
		Run: func(c *Ctx) {
			cbt := c.P.Func(sbPkg + ".(*BucketLeapArray).currentBucketWithTime")
			cur := c.P.Func(sbPkg + ".(*LeapArray).currentBucketOfTime")
			if cbt == nil || cur == nil {
				c.AnchorLost("currentBucketWithTime")
				return
			}
			// currentBucketWithTime returns the MetricBucket loaded from currentBucketOfTime(now, ...)
			okInner := false
			for _, r := range returnsOf(cbt) {
				if isNilConst(r.Results[0]) {
					continue
				}
				p := accessPath(r.Results[0])
				if strings.Contains(p, "currentBucketOfTime({uint64},") && strings.Contains(p, ".Value") {
					okInner = true
				} else {
					c.Violate(fnKey(cbt)+" / returned-bucket", r.Pos(), "returns %s, not the data of the bucket selected for the caller's timestamp", p)
				}
			}
			if okInner {
				c.Hold(fnKey(cbt)+" / returned-bucket", cbt.Pos(), "returns the data of currentBucketOfTime(now)")
			}
			for _, name := range []string{"addCountWithTime", "updateConcurrencyWithTime"} {
				f := c.P.Func(sbPkg + ".(*BucketLeapArray)." + name)
				if f == nil {
					c.AnchorLost(name)
					continue
				}
				found := false
				for _, ci := range callsIn(f) {
					cal := ci.Common().StaticCallee()
					if cal == nil || cal.Signature.Recv() == nil || !typeIs(cal.Signature.Recv().Type(), sbPkg, "MetricBucket") {
						continue
					}
					recv := accessPath(ci.Common().Args[0])
					found = true
					c.Check(recv == "{BucketLeapArray}.currentBucketWithTime({uint64})", fnKey(f)+" / records-into", ci.Pos(), "records into %s (want the bucket selected by the recorder's own timestamp)", recv)
				}
				if !found {
					c.Violate(fnKey(f)+" / records-into", f.Pos(), "recorder no longer records into a MetricBucket")
				}
			}
		},
	})

	// ---------------------------------------------------------------- C08

	register(&Rule{
		ID: "window.view-constructor", Props: []string{"C08", "C02"}, Floor: 2,
		Doc: "a SlidingWindowMetric is allocated only in NewSlidingWindowMetric on the branch where CheckValidityForReuseStatistic returned nil, and that function returns nil only when every parameter is non-zero, each interval is a multiple of its sample count, the parent interval is a multiple of the view interval and the view's bucket length is a multiple of the parent's (a window view is only constructible when it tiles the underlying buckets)",
		Run: func(c *Ctx) {
			swm := c.P.Named(sbPkg + ".SlidingWindowMetric")
			ctor := c.P.Func(sbPkg + ".NewSlidingWindowMetric")
			chk := c.P.Func("core/base.CheckValidityForReuseStatistic")
			if swm == nil || ctor == nil || chk == nil {
				c.AnchorLost("SlidingWindowMetric/NewSlidingWindowMetric/CheckValidityForReuseStatistic")
				return
			}
			n := 0
			for _, f := range c.P.ModuleFuncs() {
				if isTestOrExample(f) {
					continue
				}
				eachInstr(f, func(ins ssa.Instruction) {
					al, ok := ins.(*ssa.Alloc)
					if !ok || !isPtrTo(al.Type(), swm) {
						return
					}
					n++
					key := fmt.Sprintf("%s / new SlidingWindowMetric#%d", fnKey(f), n)
					if f != ctor {
						c.Violate(key, al.Pos(), "window view constructed outside NewSlidingWindowMetric, bypassing the tiling check")
						return
					}
					guarded := false
					for _, ft := range condFacts(al.Block()) {
						b, ok := ft.Cond.(*ssa.BinOp)
						if !ok {
							continue
						}
						var other ssa.Value
						if isNilConst(b.Y) {
							other = b.X
						} else if isNilConst(b.X) {
							other = b.Y
						}
						call, isCall := other.(*ssa.Call)
						if !isCall || !isStaticCallTo(call, chk) {
							continue
						}
						if (b.Op == token.NEQ && !ft.Truth) || (b.Op == token.EQL && ft.Truth) {
							guarded = true
						}
					}
					c.Check(guarded, key, al.Pos(), "allocation must be dominated by CheckValidityForReuseStatistic(...) == nil")
				})
			}
			// the validity function
			want := []string{
				// parameters in order: sampleCount #0, intervalInMs #1, parentSampleCount #2, parentIntervalInMs #3
				"0 != {uint32#1}", "0 != {uint32#0}", "({uint32#1} % {uint32#0}) == 0",
				"0 != {uint32#3}", "0 != {uint32#2}", "({uint32#3} % {uint32#2}) == 0",
				"({uint32#3} % {uint32#1}) == 0",
				"(({uint32#1} / {uint32#0}) % ({uint32#3} / {uint32#2})) == 0",
			}
			for i, r := range returnsOf(chk) {
				if !isNilConst(r.Results[0]) {
					continue
				}
				facts := canonFacts(r.Block())
				// a dominating `g(args...) == nil` for a validity function g of the package imports what g establishes on
				// every path on which it answers nil (its parameters rendered as the caller's arguments)
				for _, ft := range condFacts(r.Block()) {
					b, ok := ft.Cond.(*ssa.BinOp)
					if !ok || !((b.Op == token.EQL && ft.Truth) || (b.Op == token.NEQ && !ft.Truth)) {
						continue
					}
					var other ssa.Value
					if isNilConst(b.Y) {
						other = b.X
					} else if isNilConst(b.X) {
						other = b.Y
					}
					call, isCall := other.(*ssa.Call)
					if !isCall {
						continue
					}
					g := call.Call.StaticCallee()
					if g == nil || g == chk || g.Blocks == nil || relPkg(fnPkgPath(g)) != "core/base" || len(g.Params) != len(call.Call.Args) {
						continue
					}
					env := map[ssa.Value]string{}
					for k, p := range g.Params {
						env[p] = accessPath(call.Call.Args[k])
					}
					var common map[string]bool
					for _, gr := range returnsOf(g) {
						if len(gr.Results) == 0 || !isNilConst(gr.Results[0]) {
							continue
						}
						var fs map[string]bool
						withPathEnv(env, func() { fs = canonFacts(gr.Block()) })
						if common == nil {
							common = fs
						} else {
							for k := range common {
								if !fs[k] {
									delete(common, k)
								}
							}
						}
					}
					for k := range common {
						facts[k] = true
					}
				}
				// canonical sorting puts "0" first; also accept the commuted rendering
				var missing []string
				for _, w := range want {
					if !facts[w] && !facts[commuteEq(w)] {
						missing = append(missing, w)
					}
				}
				key := fmt.Sprintf("%s / return nil#%d", fnKey(chk), i+1)
				c.Check(len(missing) == 0, key, r.Pos(), "validity accepted without establishing %v (facts: %s)", missing, factList(facts))
			}
		},
	})

	register(&Rule{
		ID: "window.expired-filtered", Props: []string{"C08", "C09", "C02"}, Floor: 3,
		Doc: "every function that collects buckets from the circular array appends a bucket only after isBucketDeprecated(now, bucket) returned false; SlidingWindowMetric's getters obtain buckets only through ValuesConditional with the [start,end] predicate of the current window",
		Run: func(c *Ctx) {
			get := c.P.Func(sbPkg + ".(*AtomicBucketWrapArray).get")
			dep := c.P.Func(sbPkg + ".(*LeapArray).isBucketDeprecated")
			if get == nil || dep == nil {
				c.AnchorLost("AtomicBucketWrapArray.get/isBucketDeprecated")
				return
			}
			// the condition under which isBucketDeprecated answers false, over the symbols ARRAY / NOW / BUCKET
			depFalse := ""
			if rs := returnsOf(dep); len(rs) == 1 && len(dep.Params) == 3 {
				if cmp, ok := resolve(rs[0].Results[0]).(*ssa.BinOp); ok && isComparison(cmp.Op) {
					withPathEnv(map[ssa.Value]string{dep.Params[0]: "ARRAY", dep.Params[1]: "NOW", dep.Params[2]: "BUCKET"}, func() {
						depFalse = canonCond(cmp, false)
					})
				}
			}
			for _, ci := range c.P.StaticCallers(get) {
				f := ci.Parent()
				if isTestOrExample(f) {
					continue
				}
				gv, ok := ci.(*ssa.Call)
				if !ok {
					continue
				}
				// uses of the fetched wrap as an append operand
				appended := false
				// the fetched wrap itself, and phis that carry it or nil (the result of an expanded helper that
				// answers nil for an empty or expired slot)
				carriers := []ssa.Value{gv}
				for i := 0; i < len(carriers) && i < 6; i++ {
					for _, r := range refsOf(carriers[i]) {
						ph, ok := r.(*ssa.Phi)
						if !ok {
							continue
						}
						only := true
						for _, e := range ph.Edges {
							if stripConv(e) != carriers[i] && !isNilConst(e) {
								only = false
							}
						}
						dup := false
						for _, cv := range carriers {
							if cv == ssa.Value(ph) {
								dup = true
							}
						}
						if only && !dup {
							carriers = append(carriers, ph)
						}
					}
				}
				var allRefs []ssa.Instruction
				for _, cv := range carriers {
					allRefs = append(allRefs, refsOf(cv)...)
				}
				for _, ref := range allRefs {
					var app *ssa.Call
					switch x := ref.(type) {
					case *ssa.Store: // storing into the varargs slice of append
						for _, r2 := range refsOf(x.Addr) {
							_ = r2
						}
						if ia, ok := x.Addr.(*ssa.IndexAddr); ok {
							for _, r3 := range refsOf(ia.X) {
								if sl, ok := r3.(*ssa.Slice); ok {
									for _, r4 := range refsOf(sl) {
										if cl, ok := r4.(*ssa.Call); ok {
											if b, ok := cl.Call.Value.(*ssa.Builtin); ok && b.Name() == "append" {
												app = cl
											}
										}
									}
								}
							}
						}
					}
					if app == nil {
						continue
					}
					appended = true
					key := fnKey(f) + " / append(bucket)"
					okDep := false
					for _, ft := range condFacts(ref.Block()) {
						if call, ok := ft.Cond.(*ssa.Call); ok && !ft.Truth && isStaticCallTo(call, dep) && len(call.Call.Args) == 3 && call.Call.Args[2] == ssa.Value(gv) {
							okDep = true
						}
					}
					// ... or the expiry comparison itself, written out: the condition isBucketDeprecated returns, with
					// this bucket and this function's `now` in place of its parameters, is known false here
					if !okDep && depFalse != "" {
						var nowPar ssa.Value
						for _, prm := range f.Params {
							if bt, ok := prm.Type().Underlying().(*types.Basic); ok && bt.Kind() == types.Uint64 {
								if nowPar != nil {
									nowPar = nil
									break
								}
								nowPar = prm
							}
						}
						env := map[ssa.Value]string{gv: "BUCKET"}
						if nowPar != nil {
							env[nowPar] = "NOW"
						}
						if len(f.Params) > 0 {
							env[f.Params[0]] = "ARRAY"
						}
						withPathEnv(env, func() {
							if canonFacts(ref.Block())[depFalse] {
								okDep = true
							}
						})
					}
					c.Check(okDep, key, ref.Pos(), "a bucket from the circular array is reported without the isBucketDeprecated(now, bucket)==false guard: counts older than the window are summed")
				}
				if !appended {
					c.Info(fnKey(f)+" / get", ci.Pos(), "bucket fetched but not collected")
				}
			}
			// SlidingWindowMetric getters
			swm := c.P.Named(sbPkg + ".SlidingWindowMetric")
			vc := c.P.Func(sbPkg + ".(*BucketLeapArray).ValuesConditional")
			vals := c.P.Func(sbPkg + ".(*BucketLeapArray).Values")
			gsb := c.P.Func(sbPkg + ".(*SlidingWindowMetric).getSatisfiedBuckets")
			if swm == nil || vc == nil || gsb == nil {
				c.AnchorLost("SlidingWindowMetric/ValuesConditional/getSatisfiedBuckets")
				return
			}
			for _, f := range c.P.FuncsIn(modPath + "/" + sbPkg) {
				recv := f.Signature.Recv()
				if recv == nil || namedOf(recv.Type()) != swm {
					continue
				}
				for _, ci := range callsIn(f) {
					if isStaticCallTo(ci, vals) {
						c.Violate(fnKey(f)+" / reads-all-buckets", ci.Pos(), "window view reads every live bucket of the parent array instead of the buckets of its own window")
					}
					if isStaticCallTo(ci, vc) && f != gsb {
						// SecondMetricsOnCondition passes the caller's predicate: allowed, reported
						c.Info(fnKey(f)+" / ValuesConditional", ci.Pos(), "caller-supplied predicate")
					}
				}
			}
			// getSatisfiedBuckets: predicate closure compares ws with start and end from getBucketStartRange(now)
			okPred := false
			for _, ci := range callsIn(gsb) {
				if !isStaticCallTo(ci, vc) {
					continue
				}
				args := ci.Common().Args
				if len(args) == 3 && accessPath(args[1]) == "{uint64}" {
					if mc, ok := stripConv(args[2]).(*ssa.MakeClosure); ok {
						fn := mc.Fn.(*ssa.Function)
						var binds []string
						env := map[ssa.Value]string{}
						boundName := func(v ssa.Value) string {
							if al, ok := v.(*ssa.Alloc); ok {
								if sv := allocSingleStore(al); sv != nil {
									v = sv
								}
							}
							pth := accessPath(v)
							binds = append(binds, pth)
							switch {
							case strings.HasSuffix(pth, "getBucketStartRange({uint64})#0"):
								return "LO"
							case strings.HasSuffix(pth, "getBucketStartRange({uint64})#1"):
								return "HI"
							}
							// the range computed in place (a helper shared with getBucketStartRange was expanded here)
							return boundAlternatives(splitPhiCases(v, nil, nil, 0), nil)
						}
						if strings.HasPrefix(fn.Synthetic, "bound method wrapper") && len(mc.Bindings) == 1 {
							// `window.contains` with window := rangeType{start, end}: the predicate is the method, its receiver's
							// fields are what the composite literal stored
							var target *ssa.Function
							for _, ci2 := range callsIn(fn) {
								if t := ci2.Common().StaticCallee(); t != nil {
									target = t
								}
							}
							fieldVals := map[int]ssa.Value{}
							fieldAlts := map[int][]retCase{} // a range struct computed by a helper with several returns
							if ld, ok := mc.Bindings[0].(*ssa.UnOp); ok && ld.Op == token.MUL {
								if al, ok := ld.X.(*ssa.Alloc); ok {
									if st, ok := al.Type().(*types.Pointer).Elem().Underlying().(*types.Struct); ok {
										for k := 0; k < st.NumFields(); k++ {
											cs := structFieldCasesOfAlloc(al, k, 0)
											if len(cs) == 1 {
												fieldVals[k] = cs[0].val
											} else if len(cs) > 1 {
												fieldAlts[k] = cs
											}
										}
									}
								}
							} else if al, ok := mc.Bindings[0].(*ssa.Alloc); ok { // pointer receiver: &rangeType{...}
								for _, r := range refsOf(al) {
									if fa, ok := r.(*ssa.FieldAddr); ok {
										for _, r2 := range refsOf(fa) {
											if st, ok := r2.(*ssa.Store); ok && st.Addr == ssa.Value(fa) {
												fieldVals[fa.Field] = st.Val
											}
										}
									}
								}
							}
							if target != nil && len(target.Params) > 0 {
								names := map[int]string{}
								for k, v := range fieldVals {
									if v != nil {
										names[k] = boundName(v)
									}
								}
								for k, alts := range fieldAlts {
									names[k] = boundAlternatives(alts, &binds)
								}
								recv := ssa.Value(target.Params[0])
								eachInstr(target, func(ins ssa.Instruction) {
									switch x := ins.(type) {
									case *ssa.Field:
										if resolve(x.X) == recv && names[x.Field] != "" {
											env[x] = names[x.Field]
										}
									case *ssa.FieldAddr:
										if resolve(x.X) == recv && names[x.Field] != "" {
											env[x] = names[x.Field]
										} else if ld, ok := x.X.(*ssa.Alloc); ok && allocSingleStore(ld) == recv && names[x.Field] != "" {
											env[x] = names[x.Field]
										}
									}
								})
								fn = target
							}
						} else {
							for i, b := range mc.Bindings {
								if nm := boundName(b); nm != "" && i < len(fn.FreeVars) {
									env[fn.FreeVars[i]] = nm
								}
							}
						}
						var wsPar ssa.Value
						for _, prm := range fn.Params {
							if bt, ok := prm.Type().Underlying().(*types.Basic); ok && bt.Kind() == types.Uint64 {
								wsPar = prm
							}
						}
						if wsPar != nil {
							env[wsPar] = "WS"
						}
						// every way in which the predicate can answer true implies start <= ws and ws <= end
						lo, hi := true, true
						nTrue := 0
						for _, r := range returnsOf(fn) {
							for _, cs := range returnValueCases(r, 0) {
								extra := cs.extra
								if cv, ok := cs.val.(*ssa.Const); ok && cv.Value != nil && cv.Value.Kind() == constant.Bool {
									if !constant.BoolVal(cv.Value) {
										continue
									}
								} else if b, ok := cs.val.(*ssa.BinOp); ok && isComparison(b.Op) {
									extra = append(append([]Fact{}, extra...), Fact{Cond: b, Truth: true})
								} else {
									lo, hi = false, false
									continue
								}
								nTrue++
								var fs map[string]bool
								withPathEnv(env, func() { fs = canonFacts(cs.block, extra...) })
								if !fs["LO <= WS"] {
									lo = false
								}
								if !fs["WS <= HI"] {
									hi = false
								}
							}
						}
						if nTrue == 0 {
							lo, hi = false, false
						}
						bs := strings.Join(binds, ",")
						sort.Strings(binds)
						okPred = lo && hi
						c.Check(okPred, fnKey(gsb)+" / window-predicate", ci.Pos(), "buckets selected by start <= ws <= end with (start,end)=getBucketStartRange(now): lo=%v hi=%v bindings=%s", lo, hi, bs)
					}
				}
			}
			if !okPred {
				c.Violate(fnKey(gsb)+" / window-predicate-shape", gsb.Pos(), "getSatisfiedBuckets no longer selects buckets by the [start,end] range of the current window")
			}
			// ... and nothing else is ever returned: no alternative path hands out buckets chosen differently
			for i, r := range returnsOf(gsb) {
				for _, cs := range splitPhiCases(r.Results[0], r.Block(), nil, 0) {
					call, isCall := resolve(cs.val).(*ssa.Call)
					ok := isCall && isStaticCallTo(call, vc)
					c.Check(ok, fmt.Sprintf("%s / return#%d", fnKey(gsb), i+1), r.Pos(), "returns the buckets selected by the window predicate (got %s)", accessPath(cs.val))
				}
			}
		},
	})

	register(&Rule{
		ID: "window.unsigned-time-arith", Props: []string{"C08"}, Floor: 4,
		Doc: "in core/stat/base every subtraction on uint64 timestamps is safe against wrap-around: a dominating guard a>=b on the same values, the idiom a-a%b, or a result used only by a `> interval` expiry comparison whose operands the same function loaded as (now, bucket start) where wrap-around means 'from the future' (reported, not armed)",
		Run: func(c *Ctx) {
			n := 0
			for _, f := range c.P.FuncsIn(modPath + "/" + sbPkg) {
				if isTestOrExample(f) || !c.P.LiveFuncs()[f] {
					continue
				}
				ord := 0
				eachInstr(f, func(ins ssa.Instruction) {
					b, ok := ins.(*ssa.BinOp)
					if !ok || b.Op != token.SUB {
						return
					}
					bt, ok := b.Type().Underlying().(*types.Basic)
					if !ok || bt.Kind() != types.Uint64 {
						return
					}
					if _, isConst := b.X.(*ssa.Const); isConst {
						if _, yc := b.Y.(*ssa.Const); yc {
							return
						}
					}
					n++
					ord++
					key := fmt.Sprintf("%s / uint64-sub#%d", fnKey(f), ord)
					x, y := accessPath(b.X), accessPath(b.Y)
					// idiom a - a%b
					if rem, ok := b.Y.(*ssa.BinOp); ok && rem.Op == token.REM && rem.X == b.X {
						c.Hold(key, b.Pos(), "%s - %s: a - a%%b never wraps", x, y)
						return
					}
					// dominating guard y <= x
					fs := canonFacts(b.Block())
					if fs[y+" <= "+x] || fs[y+" < "+x] {
						c.Hold(key, b.Pos(), "%s - %s guarded by a dominating comparison", x, y)
						return
					}
					// expiry comparison: (now - bucketStart) > interval, wrap means bucket start ahead of now
					refs := refsOf(b)
					if len(refs) == 1 {
						if cmp, ok := refs[0].(*ssa.BinOp); ok && (cmp.Op == token.GTR || cmp.Op == token.LSS || cmp.Op == token.GEQ || cmp.Op == token.LEQ) {
							c.Hold(key, b.Pos(), "%s - %s feeds only the comparison %s: a wrapped difference classifies the bucket as expired (start ahead of now), which is the conservative answer", x, y, canonCond(cmp, true))
							return
						}
					}
					if why, ok := unsignedSubExceptions[key]; ok {
						c.Hold(key+" / exception", b.Pos(), "%s", why)
						return
					}
					c.Violate(key, b.Pos(), "unsigned subtraction %s - %s has no dominating guard: for small clock values it wraps around, the window range becomes [huge, end] and every sum reads 0 although events were recorded", x, y)
				})
			}
			c.Stat("uint64_subtractions", n)
		},
	})
}

func commuteEq(s string) string {
	for _, op := range []string{" == ", " != "} {
		if i := strings.Index(s, op); i >= 0 {
			return s[i+len(op):] + op + s[:i]
		}
	}
	return s
}

// one named construct, one reason
var unsignedSubExceptions = map[string]string{
	"core/stat/base.(*SlidingWindowMetric).GetPreviousQPS / uint64-sub#1": "now - bucketLength wraps only when now < one bucket length; the wrapped value is a far-future timestamp for which isBucketDeprecated holds for every bucket, so the result 0 equals the reference (there are no events before time 0)",
}

// splitPhiCases splits a value into its phi alternatives (recursively), each with the block it comes from and the
// branch fact of the incoming edge.
func splitPhiCases(v ssa.Value, blk *ssa.BasicBlock, extra []Fact, depth int) []retCase {
	if depth <= 5 {
		// a field of a small local struct that is assembled in several places (the result struct of an inlined helper
		// with several returns): one alternative per place, under the facts of the block that stored it
		if cs := localStructFieldCases(stripConv(v)); len(cs) > 0 {
			var out []retCase
			for _, c := range cs {
				path := append(append([]Fact{}, extra...), c.extra...)
				b := c.block
				if len(cs) == 1 {
					b = blk // a single assembly point: the facts of the use site stay the relevant ones
				}
				out = append(out, splitPhiCases(c.val, b, path, depth+1)...)
			}
			return out
		}
	}
	phi, ok := v.(*ssa.Phi)
	if !ok || depth > 5 {
		return []retCase{{val: v, block: blk, extra: extra}}
	}
	var out []retCase
	for i, e := range phi.Edges {
		if e == v {
			continue // loop-carried self reference
		}
		pred := phi.Block().Preds[i]
		// the facts of the path: those collected so far (outer phis) plus the branch taken into this phi's block
		path := append(append([]Fact{}, extra...), edgeFact(pred, phi.Block())...)
		out = append(out, splitPhiCases(e, pred, path, depth+1)...)
	}
	return out
}

func init() {
	register(&Rule{
		ID: "window.readers-refresh-current", Props: []string{"C08", "C09"}, Floor: 4,
		Doc: "isBucketDeprecated is the strict test now-start > interval, so a bucket exactly one interval old still counts as live; it sits in the slot that `now` maps to. Every BucketLeapArray reader that collects all live buckets (valuesWithTime / Values of the underlying LeapArray) therefore first refreshes that slot (currentBucketOfTime / CurrentBucket on the same array), which resets the stale bucket. (If the deprecation test becomes >=, the refresh is not required and the rule holds trivially.)",
		Run: func(c *Ctx) {
			dep := c.P.Func(sbPkg + ".(*LeapArray).isBucketDeprecated")
			vwt := c.P.Func(sbPkg + ".(*LeapArray).valuesWithTime")
			vals := c.P.Func(sbPkg + ".(*LeapArray).Values")
			cbt := c.P.Func(sbPkg + ".(*LeapArray).currentBucketOfTime")
			cb := c.P.Func(sbPkg + ".(*LeapArray).CurrentBucket")
			bla := c.P.Named(sbPkg + ".BucketLeapArray")
			if dep == nil || vwt == nil || vals == nil || cbt == nil || cb == nil || bla == nil {
				c.AnchorLost("LeapArray.isBucketDeprecated / valuesWithTime / Values / currentBucketOfTime / CurrentBucket")
				return
			}
			strict := false
			eachInstr(dep, func(ins ssa.Instruction) {
				if b, ok := ins.(*ssa.BinOp); ok && (b.Op == token.GTR || b.Op == token.LSS) {
					strict = true
				}
			})
			n := 0
			for _, f := range c.P.FuncsIn(modPath + "/" + sbPkg) {
				recv := f.Signature.Recv()
				if recv == nil || namedOf(recv.Type()) != bla || isTestOrExample(f) {
					continue
				}
				for _, ci := range callsIn(f) {
					if !isStaticCallTo(ci, vwt) && !isStaticCallTo(ci, vals) {
						continue
					}
					n++
					key := fmt.Sprintf("%s / collect#%d", fnKey(f), n)
					if !strict {
						c.Hold(key, ci.Pos(), "deprecation test is not strict: a bucket one interval old is already filtered")
						continue
					}
					arr := accessPath(ci.Common().Args[0])
					ok := mustBeforeInstr(ci.(ssa.Instruction), func(x ssa.Instruction) bool {
						c2, isCall := x.(ssa.CallInstruction)
						if !isCall {
							return false
						}
						if _, isDefer := x.(*ssa.Defer); isDefer {
							return false
						}
						return (isStaticCallTo(c2, cbt) || isStaticCallTo(c2, cb)) && accessPath(c2.Common().Args[0]) == arr
					}, nil)
					c.Check(ok, key, ci.Pos(), "all live buckets of %s are collected after the slot of `now` was refreshed", arr)
				}
			}
			for _, ci := range append(c.P.StaticCallers(vwt), c.P.StaticCallers(vals)...) {
				f := ci.Parent()
				if recv := f.Signature.Recv(); recv != nil && (namedOf(recv.Type()) == bla || fnPkgPath(f) == modPath+"/"+sbPkg) {
					continue
				}
				if isTestOrExample(f) {
					continue
				}
				c.Info(fnKey(f)+" / collects-all-live-buckets", ci.Pos(), "outside core/stat/base: review that the caller refreshes the current slot first")
			}
		},
	})
}

func init() {
	register(&Rule{
		ID: "window.bucket-reset-complete", Props: []string{"C08", "C09"}, Floor: 3,
		Doc: "MetricBucket.reset (run when a slot is recycled for a new period) restores, on every path, each field to the value NewMetricBucket gives it: all counters 0, minRt = DefaultStatisticMaxRt, maxConcurrency 0 - unconditionally. A field restored only under a condition on the old contents (e.g. 'only if some response time was recorded') lets a figure of an expired period decide a later window",
		Run: func(c *Ctx) {
			reset := c.P.Func(sbPkg + ".(*MetricBucket).reset")
			ctor := c.P.Func(sbPkg + ".NewMetricBucket")
			mbT := c.P.Named(sbPkg + ".MetricBucket")
			if reset == nil || ctor == nil || mbT == nil {
				c.AnchorLost("MetricBucket.reset / NewMetricBucket")
				return
			}
			// initial values from the constructor (fields not set there are zero)
			init := map[string]string{}
			eachInstr(ctor, func(ins ssa.Instruction) {
				if st, ok := ins.(*ssa.Store); ok {
					if fa, ok := st.Addr.(*ssa.FieldAddr); ok && namedOf(fa.X.Type()) == mbT {
						init[fieldName(fa.X.Type(), fa.Field)] = accessPath(st.Val)
					}
				}
			})
			st := mbT.Underlying().(*types.Struct)
			for i := 0; i < st.NumFields(); i++ {
				name := st.Field(i).Name()
				want, ok := init[name]
				if !ok {
					want = "0"
				}
				_, isArr := st.Field(i).Type().Underlying().(*types.Array)
				isStore := func(x ssa.Instruction) bool {
					ci, ok := x.(ssa.CallInstruction)
					if !ok || !isExtCall(ci, "sync/atomic.StoreInt64", "sync/atomic.StoreInt32", "sync/atomic.SwapInt64", "sync/atomic.SwapInt32", "sync/atomic.StoreUint64", "sync/atomic.StoreUint32") {
						return false
					}
					p := accessPath(ci.Common().Args[0])
					if !strings.Contains(p, "{MetricBucket}."+name) {
						return false
					}
					return isArr || accessPath(ci.Common().Args[1]) == want || accessPath(stripConv(ci.Common().Args[1])) == want
				}
				ok2 := true
				for _, r := range returnsOf(reset) {
					if !mustBeforeInstr(r, isStore, nil) {
						ok2 = false
					}
				}
				if isArr {
					// the store sits in a loop: must-before cannot see it on the zero-iteration path; require the store and a loop bound that is a constant
					found, constBound, otherCond := false, false, false
					eachInstr(reset, func(x ssa.Instruction) {
						if isStore(x) {
							found = true
							for _, ft := range condFacts(x.Block()) {
								if b, ok := ft.Cond.(*ssa.BinOp); ok && isComparison(b.Op) {
									lhs := b.X
									if inc, ok := lhs.(*ssa.BinOp); ok && inc.Op == token.ADD {
										lhs = inc.X // range loops test index+1
									}
									lphi, isPhi := lhs.(*ssa.Phi)
									_, isC := b.Y.(*ssa.Const)
									if isPhi && isC {
										constBound = true // the loop's own bound (constant: index loop to MetricEventTotal, or range over the array)
										// the loop itself must be reached on every path to a return: a condition written as a
										// disjunction (`!(a == 0 && b == 0)`) leaves no single dominating fact to find
										for _, r := range returnsOf(reset) {
											if !mustBeforeInstr(r, func(y ssa.Instruction) bool { return y == ssa.Instruction(lphi) }, nil) {
												otherCond = true
											}
										}
										continue
									}
								}
								otherCond = true // the loop runs only under some other condition
							}
						}
					})
					ok2 = found && constBound && !otherCond
				}
				c.Check(ok2, fnKey(reset)+" / restores "+name, reset.Pos(), "field %s is restored to %s on every path of reset", name, want)
			}
		},
	})
}

func init() {
	register(&Rule{
		ID: "window.recorders-add-given-amount", Props: []string{"C08", "C07", "C03"}, Floor: 5,
		Doc: "on the write path of the window statistics (BaseStatNode.AddCount -> BucketLeapArray.AddCount / addCountWithTime -> MetricBucket.Add / AddRt / addCount) the amount that reaches the atomic add is the caller's amount itself: every forwarding call passes the function's own amount parameter and the atomic add receives it unchanged - no clamping, scaling or substitution on the way. (A response time cut off at a maximum makes the reported average RT and the slow-request classification differ from what happened.)",
		Run: func(c *Ctx) {
			chain := []string{
				"core/stat.(*BaseStatNode).AddCount",
				sbPkg + ".(*BucketLeapArray).AddCount",
				sbPkg + ".(*BucketLeapArray).addCountWithTime",
				sbPkg + ".(*MetricBucket).Add",
				sbPkg + ".(*MetricBucket).AddRt",
				sbPkg + ".(*MetricBucket).addCount",
			}
			inChain := map[*ssa.Function]bool{}
			var fs []*ssa.Function
			for _, n := range chain {
				f := c.P.Func(n)
				if f == nil {
					c.AnchorLost(n)
					continue
				}
				inChain[f] = true
				fs = append(fs, f)
			}
			for _, f := range fs {
				// the amount parameter: the last int64 parameter
				var amt *ssa.Parameter
				for _, p := range f.Params {
					if b, ok := p.Type().Underlying().(*types.Basic); ok && b.Kind() == types.Int64 {
						amt = p
					}
				}
				if amt == nil {
					c.AnchorLost(fnKey(f) + " amount parameter")
					continue
				}
				n, bad := 0, ""
				for _, ci := range callsIn(f) {
					cal := ci.Common().StaticCallee()
					args := ci.Common().Args
					switch {
					case cal != nil && inChain[cal]:
						n++
						if len(args) == 0 || resolve(args[len(args)-1]) != ssa.Value(amt) {
							bad = c.P.Pos(ci.Pos()) + ": " + accessPath(args[len(args)-1])
						}
					case isExtCall(ci, "sync/atomic.AddInt64") && strings.Contains(accessPath(args[0]), ".counter["):
						n++
						if resolve(args[1]) != ssa.Value(amt) {
							bad = c.P.Pos(ci.Pos()) + ": " + accessPath(args[1])
						}
					}
				}
				c.Check(n > 0 && bad == "", fnKey(f)+" / forwards-own-amount", f.Pos(), "%d forwarding call(s) / atomic add(s) receive the function's own amount parameter (offending: %q)", n, bad)
			}
		},
	})
}

// boundAlternatives names a bound of the window range by what it is when the range is computed on the spot: "HI" when
// every alternative is the start of the bucket `now` falls into (calculateStartTime(now, bucket length of the array)),
// "LO" when every alternative is 0 (clock smaller than one interval) or that start plus one bucket length minus the
// view's interval.
func boundAlternatives(alts []retCase, binds *[]string) string {
	const hiPath = "core/stat/base.calculateStartTime({uint64},{SlidingWindowMetric}.real.BucketLengthInMs())"
	if len(alts) == 0 {
		return ""
	}
	allHi, allLo := true, true
	for _, a := range alts {
		p := accessPath(a.val)
		if binds != nil {
			*binds = append(*binds, p)
		}
		if p != hiPath {
			allHi = false
		}
		isZero := false
		if k, ok := constInt(stripConv(a.val)); ok && k == 0 {
			isZero = true
		}
		if !isZero && !(strings.Contains(p, hiPath) && strings.HasSuffix(p, " - uint64({SlidingWindowMetric}.intervalInMs))")) {
			allLo = false
		}
	}
	switch {
	case allHi:
		return "HI"
	case allLo:
		return "LO"
	}
	return ""
}
